"""Shared machinery for /verif/bin/check.

Everything here is plumbing: scratch directories outside /repo and /verif,
building the Go harness against /repo's current working tree with the `verif`
tag, running TLC under a timeout with a private metadir, parsing its counters,
reading known_findings.txt, writing evidence files and printing verdict lines.

Exit codes (DESIGN.md section 2): 0 held, 1 violation on the real code,
2 the check could not conclude (never a violation).
"""
import atexit
import json
import os
import re
import shutil
import subprocess
import sys
import time

VERIF = os.path.dirname(os.path.dirname(os.path.abspath(__file__)))
REPO = os.environ.get("VERIF_REPO", "/repo")
SPEC = os.path.join(VERIF, "spec")
HARNESS = os.path.join(VERIF, "harness")
TLA_JAR = "/opt/veriftools/tla/tla2tools.jar"
COMMUNITY = "/opt/veriftools/tla/CommunityModules-deps.jar"

_scratch = None
T0 = time.time()
TIER = "quick"      # set by bin/check
SEED = 1
REPLAY = None       # the content of the replay file when bin/check --replay is used


class Inconclusive(Exception):
    """The check could not conclude (exit 2)."""


def log(*a):
    print(*a, file=sys.stderr, flush=True)


def scratch():
    global _scratch
    if _scratch is None:
        base = os.environ.get("VERIF_SCRATCH_BASE", "/var/tmp")
        _scratch = os.path.join(base, "verif-%d" % os.getpid())
        shutil.rmtree(_scratch, ignore_errors=True)
        os.makedirs(_scratch)
        if not os.environ.get("VERIF_KEEP"):
            atexit.register(lambda: shutil.rmtree(_scratch, ignore_errors=True))
    return _scratch


def goenv():
    e = dict(os.environ)
    e.update(GOFLAGS="-mod=mod", GOPROXY="off", GOSUMDB="off", GOTOOLCHAIN="local")
    return e


def sh(cmd, cwd=None, env=None, timeout=None, check=True, capture=True):
    """Run a command; returns (rc, stdout+stderr)."""
    try:
        p = subprocess.run(cmd, cwd=cwd, env=env, timeout=timeout, shell=isinstance(cmd, str),
                           stdout=subprocess.PIPE if capture else None,
                           stderr=subprocess.STDOUT if capture else None, text=True)
    except subprocess.TimeoutExpired as ex:
        out = ex.stdout or ""
        if isinstance(out, bytes):
            out = out.decode("utf-8", "replace")
        raise Inconclusive("timeout after %ss: %s\n%s" % (timeout, cmd, out[-2000:]))
    if check and p.returncode != 0:
        raise Inconclusive("command failed (%d): %s\n%s" % (p.returncode, cmd, (p.stdout or "")[-4000:]))
    return p.returncode, p.stdout or ""


_vh = None


def build_harness():
    """go build the harness against /repo's current tree, hooks on."""
    global _vh
    if _vh:
        return _vh
    out = os.path.join(scratch(), "vh")
    gosum = os.path.join(HARNESS, "go.sum")
    if not os.path.exists(gosum):
        shutil.copy(os.path.join(REPO, "go.sum"), gosum)
    t = time.time()
    rc, o = sh(["go", "build", "-tags", "verif", "-o", out, "./cmd/vh"], cwd=HARNESS, env=goenv(),
               timeout=900, check=False)
    if rc != 0:
        raise Inconclusive("harness build failed against the current /repo tree:\n" + o[-4000:])
    log("[build] harness built in %.1fs" % (time.time() - t))
    _vh = out
    return out


def vh(args, timeout=1800, env=None, check=True):
    """Run the harness binary; returns (rc, output)."""
    e = goenv()
    if env:
        e.update({k: str(v) for k, v in env.items()})
    return sh([build_harness()] + [str(a) for a in args], cwd=scratch(), env=e, timeout=timeout, check=check)


class TLCResult:
    def __init__(self, rc, out):
        self.rc = rc
        self.out = out
        m = re.search(r"(\d+) states generated, (\d+) distinct states found", out)
        self.generated = int(m.group(1)) if m else 0
        self.distinct = int(m.group(2)) if m else 0
        # simulation mode prints a different summary
        m2 = re.search(r"The number of states generated: (\d+)", out)
        if m2 and not m:
            self.generated = int(m2.group(1))
            self.distinct = self.generated
        self.ok = ("Model checking completed. No error has been found." in out) or \
                  (rc == 0 and "Error:" not in out)
        self.invariant = None
        m = re.search(r"Invariant (\S+) is violated", out)
        if m:
            self.invariant = m.group(1)
        m = re.search(r"Action property (\S+) is violated", out)
        if m:
            self.invariant = m.group(1)
        if "Temporal properties were violated" in out:
            self.invariant = self.invariant or "temporal"
        self.deadlock = "Deadlock reached" in out
        self.postcondition_failed = "Postcondition" in out and "is false" in out or "violated" in out and "POSTCONDITION" in out

    def coverage_zero(self):
        """Actions/expressions that -coverage reports as never evaluated."""
        z = []
        for line in self.out.splitlines():
            m = re.match(r"<(\w+) line .*>: 0:0$", line.strip())
            if m:
                z.append(m.group(1))
        return z


def tlc(module, cfg, env=None, workers=1, timeout=600, extra=None, dfs=False, heap=None, cwd=None,
        simulate=None, depth=None, seed=None, coverage=False, deadlock=True):
    """Run TLC on spec/<module>.tla with spec/<cfg>; returns TLCResult.

    A JVM crash / timeout / out-of-memory raises Inconclusive."""
    md = os.path.join(scratch(), "md-%s-%d" % (module, int(time.time() * 1000) % 10 ** 9))
    e = dict(os.environ)
    if env:
        e.update({k: str(v) for k, v in env.items()})
    jopts = ["-XX:+UseParallelGC", "-Xss64m"]
    if heap:
        jopts.append("-Xmx%s" % heap)
    if dfs:
        jopts.append("-Dtlc2.tool.queue.IStateQueue=StateDeque")
    # run in a scratch copy of spec/: TLC litters its working directory
    if cwd is None:
        cwd = os.path.join(scratch(), "spec")
        if not os.path.isdir(cwd):
            shutil.copytree(SPEC, cwd)
    cmd = ["java"] + jopts + ["-cp", TLA_JAR + ":" + COMMUNITY, "tlc2.TLC", "-noGenerateSpecTE",
                              "-metadir", md, "-workers", str(workers), "-config", cfg]
    if not deadlock:
        cmd.append("-deadlock")
    if simulate:
        cmd += ["-simulate", simulate]
    if depth:
        cmd += ["-depth", str(depth)]
    if seed is not None:
        cmd += ["-seed", str(seed)]
    if coverage:
        cmd += ["-coverage", "1"]
    if extra:
        cmd += extra
    cmd.append(module)
    t = time.time()
    try:
        rc, out = sh(cmd, cwd=cwd, env=e, timeout=timeout, check=False)
    finally:
        shutil.rmtree(md, ignore_errors=True)
    r = TLCResult(rc, out)
    r.wall = time.time() - t
    if "java.lang.OutOfMemoryError" in out or "StackOverflowError" in out:
        raise Inconclusive("TLC resource failure on %s/%s:\n%s" % (module, cfg, out[-3000:]))
    if re.search(r"(Parsing or semantic analysis failed|Unknown operator|Could not parse|\*\*\* Errors:|Fatal errors)", out):
        raise Inconclusive("TLC could not load %s/%s:\n%s" % (module, cfg, out[-3000:]))
    return r


def read_ndjson(path):
    out = []
    with open(path) as f:
        for line in f:
            line = line.strip()
            if line:
                out.append(json.loads(line))
    return out


def write_ndjson(path, rows):
    with open(path, "w") as f:
        for r in rows:
            f.write(json.dumps(r, sort_keys=True, separators=(",", ":")) + "\n")


# ---------------------------------------------------------------- known findings

def known_findings(prop):
    """Entries `finding: property=<id> key=<k> <text>` of known_findings.txt for prop -> {key: text}."""
    res = {}
    p = os.path.join(VERIF, "known_findings.txt")
    if not os.path.exists(p):
        return res
    for line in open(p):
        line = line.strip()
        m = re.match(r"finding:\s+property=(\S+)\s+key=(\S+)\s+(.*)$", line)
        if m and m.group(1) == prop:
            res[m.group(2)] = m.group(3)
    return res


class Verdict:
    """Collects violations (already reproduced on the real code), splits them
    into listed known findings and new ones, prints the verdict lines."""

    def __init__(self, prop):
        self.prop = prop
        self.kf = known_findings(prop)
        self.known_hits = {}
        self.violations = []

    def report(self, key, what, replay_obj):
        """key: classifier name of this failing case (or None)."""
        if key is not None and key in self.kf:
            self.known_hits.setdefault(key, 0)
            self.known_hits[key] += 1
            return False
        self.violations.append((key, what, replay_obj))
        return True

    def finish(self):
        for k, n in sorted(self.known_hits.items()):
            print("KNOWN-FINDING: property=%s key=%s %s (%d cases this run)" % (self.prop, k, self.kf[k], n))
        if REPLAY is not None:
            # replay mode: the run used the tier and seed of the recorded violation; did the same kind of violation recur?
            head = REPLAY.get("what", "").split(":")[0]
            same = [x for x in self.violations if x[1].split(":")[0] == head]
            if same:
                print("REPLAY reproduced: %s" % same[0][1][:300])
                self.violations = same
            else:
                print("REPLAY not reproduced: no violation of kind '%s' (tier %s, seed %s); %d other violations"
                      % (head, TIER, SEED, len(self.violations)))
                return 0
        if not self.violations:
            return 0
        d = os.path.join(VERIF, "replays", self.prop)
        os.makedirs(d, exist_ok=True)
        seen = set()
        for i, (key, what, obj) in enumerate(self.violations[:20]):
            path = os.path.join(d, "viol-%d-%d.json" % (int(T0), i))
            with open(path, "w") as f:
                json.dump({"property": self.prop, "classifier": key, "what": what, "case": obj, "tier": TIER, "seed": SEED},
                          f, indent=1, sort_keys=True)
            if what not in seen or i == 0:
                print("VIOLATION property=%s replay=%s  # %s" % (self.prop, path, what[:300]))
            seen.add(what)
        if len(self.violations) > 20:
            print("# ... %d more violating cases not written" % (len(self.violations) - 20))
        return 1


# ---------------------------------------------------------------- evidence

def write_evidence(prop, tier, seed, level, coverage, assumptions, violations=0, extra=None):
    ev = {
        "property_id": prop,
        "tier": tier,
        "seed": int(seed),
        "level": level,
        "coverage": coverage,
        "assumptions": assumptions,
        "wall_s": round(time.time() - T0, 2),
        "violations": int(violations),
    }
    if extra:
        ev.update(extra)
    os.makedirs(os.path.join(VERIF, "evidence"), exist_ok=True)
    p = os.path.join(VERIF, "evidence", prop + ".json")
    with open(p, "w") as f:
        json.dump(ev, f, indent=1, sort_keys=True)
        f.write("\n")
    return p
