CONSTANTS
  RR = {"R1"}
  Res = {}
  FSlots = {"s1"}
  Dyn <- Dyn40
  Keys = {"k1"}
  Prog <- ProgE
  Body <- BodyC1
  AlwaysSpawn <- SpawnFromEnv
  MaxBump = 1000
  MaxFail = 1000
  MaxTasks = 1000
  StopAllowed = {"R1"}
  MaxStops = 3
  ParentCancelAllowed = {"R1"}
  StopWaits = TRUE
SPECIFICATION TSpec
CONSTRAINT HW
INVARIANTS NoOverlap StopFinal FreshAtQuiescence CleanupAtMostOnce NoCleanupWhileLive CleanupExactlyOnceAtQuiescence TrackerExact
POSTCONDITION Accepted
CHECK_DEADLOCK FALSE
