CONSTANT WaitsOnCtx = TRUE
SPECIFICATION Spec
INVARIANT NoRunAfterReturn
PROPERTY Returns
