----------------------------- MODULE Codec_Trace -----------------------------
(* M4 for C13: one record per case of the matrix, as executed by the real        *)
(* UnbuildStruct / BuildStruct / MakeTester / FilterToProto / FilterFromProto.    *)
EXTENDS Codec
Recs == ndJsonDeserialize(IOEnv.RECS)
VARIABLES l, bad
Init == l = 1 /\ bad = <<>>
Next == /\ l <= Len(Recs)
        /\ l' = l + 1
        /\ LET w == Why(Recs[l]) IN
           bad' = IF w = {} THEN bad ELSE Append(bad, [l |-> l, why |-> SetToSeq(w)])
\* every enumerated case was executed
Complete == l = Len(Recs) + 1 => Cases \subseteq {[col |-> Recs[i].col, val |-> Recs[i].val, form |-> Recs[i].form] : i \in DOMAIN Recs}
Done == l = Len(Recs) + 1 => ndJsonSerialize(IOEnv.OUT, bad)
=============================================================================
