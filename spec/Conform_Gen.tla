------------------------------ MODULE Conform_Gen ------------------------------
(* M5 for C14: for every field of every object type the gallery advertises, TLC   *)
(* builds the well-formed and the ill-formed ways of selecting it (bare, with a    *)
(* sub-selection, with an unknown sub-field, aliased; through every union member,  *)
(* through a non-member, a plain field on a union) and checks on the model that    *)
(* Valid classifies each as intended.  The harness runs every tree through the     *)
(* real PrepareQuery/Execute; Conform_Trace judges.                                *)
EXTENDS Conform

E == [sels |-> <<>>, frags |-> <<>>]
F(alias, name) == [alias |-> alias, name |-> name, dirs |-> <<>>, hassub |-> FALSE, sub |-> E]
O(alias, name, sub) == [alias |-> alias, name |-> name, dirs |-> <<>>, hassub |-> TRUE, sub |-> sub]
Fr(on, sub) == [on |-> on, dirs |-> <<>>, sub |-> sub]
S1(s) == [sels |-> <<s>>, frags |-> <<>>]
TN == F("__typename", "__typename")

ObjTypes == {n \in DOMAIN Types : Kind(n) = "OBJECT" /\ n # "Mutation"}
\* some valid selection set for type n (depth-bounded): its first leaf field, or __typename
LeafFields(n) == {f \in DOMAIN Types[n].fields : IsLeaf(BaseOf(Types[n].fields[f]))}
SomeValid(n) == IF Kind(n) = "UNION" THEN S1(TN)
                ELSE IF LeafFields(n) = {} THEN S1(TN)
                ELSE S1(F(CHOOSE f \in LeafFields(n) : TRUE, CHOOSE f \in LeafFields(n) : TRUE))

\* the ways of selecting field f of object type n, each tagged with whether it must validate
Ways(n, f) ==
  LET b == BaseOf(Types[n].fields[f]) IN
  IF IsLeaf(b)
  THEN {<<TRUE, F(f, f)>>, <<TRUE, F("z", f)>>, <<FALSE, O(f, f, S1(TN))>>}
  ELSE IF Kind(b) = "UNION"
  THEN {<<FALSE, F(f, f)>>, <<TRUE, O(f, f, S1(TN))>>, <<FALSE, O(f, f, S1(F("id", "id")))>>}
       \cup UNION {{<<TRUE, O(f, f, [sels |-> <<>>, frags |-> <<Fr(m, SomeValid(m))>>])>>,
                    <<FALSE, O(f, f, [sels |-> <<>>, frags |-> <<Fr(m, S1(F("nope", "nope")))>>])>>}
                   : m \in {Types[b].members[i] : i \in DOMAIN Types[b].members}}
       \cup {<<TRUE, O(f, f, [sels |-> <<TN>>, frags |-> <<Fr("NotAMember", S1(F("nope", "nope")))>>])>>}
  ELSE {<<FALSE, F(f, f)>>, <<TRUE, O(f, f, SomeValid(b))>>, <<TRUE, O(f, f, S1(TN))>>,
        <<FALSE, O(f, f, S1(F("nope", "nope")))>>, <<FALSE, O(f, f, S1(O("__typename", "__typename", S1(TN))))>>,
        <<TRUE, O(f, f, [sels |-> <<>>, frags |-> <<Fr(b, SomeValid(b))>>])>>}

\* a path of object-valued fields from the query root to each object type (found by search)
RECURSIVE PathTo(_, _, _)
Step(n) == {<<f, BaseOf(Types[n].fields[f])>> : f \in {g \in DOMAIN Types[n].fields : Kind(BaseOf(Types[n].fields[g])) = "OBJECT"}}
PathTo(frontier, seen, target) ==
  \* frontier: set of <<type, path>>
  IF \E p \in frontier : p[1] = target THEN (CHOOSE p \in frontier : p[1] = target)[2]
  ELSE LET nxt == UNION {{<<st[2], Append(p[2], st[1])>> : st \in {s \in Step(p[1]) : s[2] \notin seen}} : p \in frontier} IN
       IF nxt = {} THEN <<"UNREACHABLE">> ELSE PathTo(nxt, seen \cup {p[1] : p \in nxt}, target)
Path(n) == PathTo({<<Schema.query, <<>>>>}, {Schema.query}, n)
RECURSIVE Wrap(_, _)
Wrap(path, ss) == IF path = <<>> THEN ss ELSE S1(O(Head(path), Head(path), Wrap(Tail(path), ss)))

Reachable == {n \in ObjTypes : Path(n) # <<"UNREACHABLE">>}
Cases == UNION {UNION {{[ok |-> w[1], q |-> Wrap(Path(n), S1(w[2]))] : w \in Ways(n, f)} : f \in DOMAIN Types[n].fields} : n \in Reachable}
         \cup UNION {{[ok |-> FALSE, q |-> Wrap(Path(n), S1(F("nope", "nope")))]} : n \in Reachable}

ASSUME ndJsonSerialize(IOEnv.OUT, SetToSeq({c.q : c \in Cases}))
VARIABLE c
Init == c \in Cases
Next == UNCHANGED c
\* the model's own check: Valid classifies every constructed case as intended
ValidAsIntended == ValidQuery(c.q) = c.ok
=============================================================================
