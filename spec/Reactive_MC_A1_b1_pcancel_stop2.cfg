CONSTANTS
  RR = {"R1"}
  Res = {"r1"}
  FSlots = {}
  Dyn <- Dyn8
  Keys = {}
  Prog <- ProgA1
  Body <- NoBody
  AlwaysSpawn <- Inline1
  MaxBump = 1
  MaxFail = 0
  MaxTasks = 12
  StopAllowed = {"R1"}
  MaxStops = 2
  ParentCancelAllowed = {"R1"}
  StopWaits = TRUE
SPECIFICATION Spec
INVARIANTS TaskBound NoOverlap StopFinal FreshAtQuiescence CleanupAtMostOnce NoCleanupWhileLive CleanupExactlyOnceAtQuiescence TrackerExact
PROPERTIES StopFinalAct
