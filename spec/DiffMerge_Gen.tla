---------------------------- MODULE DiffMerge_Gen ----------------------------
(* M5 for C03: enumerate bounded universes of JSON values, check the round-  *)
(* trip theorem of the documented format on every ordered pair, and write    *)
(* the universes out so that the harness pushes every pair through the real  *)
(* diff.Diff / merge.Merge (records are then checked by DiffMerge_Trace).    *)
EXTENDS DiffMerge, Json, IOUtils
CONSTANT Tier

Big == Tier = "thorough"
K(k, x) == Obj([f \in {"__key", "v"} |-> IF f = "__key" THEN JInt(k) ELSE x])

L3 == {Null, JInt(0), Str("a")}
L5 == L3 \cup {JInt(1), JBool(TRUE)}

Mixed ==
  LET arrs == {Arr(s) : s \in SeqsUpTo(L3, 2)}
      objs == ObjsOver({"a", "b"}, IF Big THEN L5 ELSE L3)
      inner == {Arr(<<>>), Arr(<<JInt(0)>>), Arr(<<Null>>), EmptyObj, Obj([a |-> JInt(0)]), Obj([a |-> JInt(1)])}
      nest == {Obj([a |-> x]) : x \in inner} \cup {Arr(<<x>>) : x \in inner}
  IN L5 \cup arrs \cup objs \cup nest

SLists == {Arr(s) : s \in SeqsUpTo(IF Big THEN {JInt(0), JInt(1), JInt(2), Null} ELSE {JInt(0), JInt(1), Null}, 3)}
          \cup (IF Big THEN {Arr(s) : s \in [1..4 -> {JInt(0), JInt(1), JInt(2)}]} ELSE {})

KElems == IF Big THEN {K(1, JInt(0)), K(1, JInt(1)), K(2, JInt(0)), K(3, JInt(0)), Obj([v |-> JInt(0)]), JInt(7)}
          ELSE {K(1, JInt(0)), K(1, JInt(1)), K(2, JInt(0)), Obj([v |-> JInt(0)])}
KLists == {Arr(s) : s \in SeqsUpTo(KElems, 3)}

NVals == {JInt(0), Arr(<<>>), Arr(<<JInt(0)>>), Arr(<<JInt(0), JInt(1)>>), EmptyObj, Obj([c |-> JInt(0)]), K(1, JInt(0))}
         \cup (IF Big THEN {Null, Arr(<<K(1, JInt(0))>>), K(2, JInt(0)), Arr(<<Arr(<<>>)>>)} ELSE {})
Nested == ObjsOver({"a", "b"}, NVals)

Names == <<"mixed", "slists", "klists", "nested">>
USet(name) == CASE name = "mixed" -> Mixed [] name = "slists" -> SLists [] name = "klists" -> KLists [] name = "nested" -> Nested

ASSUME \A i \in DOMAIN Names :
         ndJsonSerialize(IOEnv.OUTDIR \o "/U_" \o Names[i] \o ".ndjson", SetToSeq(USet(Names[i])))

VARIABLES u, o, n
Init == /\ u \in {Names[i] : i \in DOMAIN Names}
        /\ o \in USet(u)
        /\ n \in USet(u)
Next == UNCHANGED <<u, o, n>>

\* theorems about the documented format itself
FormatRoundTrip == RoundTrip(o, n)
FormatSelfEmpty == (o = n) => Diff(o, n) = NoDiff
=============================================================================
