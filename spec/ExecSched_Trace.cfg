SPECIFICATION TSpec
CONSTRAINT HW
INVARIANTS STypeOK ReturnedQuiescent OnceEach WgExact
POSTCONDITION Accepted
CHECK_DEADLOCK FALSE
