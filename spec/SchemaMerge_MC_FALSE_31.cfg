CONSTANTS
  PreCheck = FALSE
  MaxServices = 3
  MaxVersions = 1
  SmallUniverse = FALSE
INIT Init
NEXT Next
INVARIANTS MeetFoldAgrees JoinFoldAgrees ClosedOK ContainsOK Nullability EndToEndOK
CHECK_DEADLOCK FALSE
