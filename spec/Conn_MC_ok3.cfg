CONSTANTS
  Ids <- I2
  Queries <- Q3
  BadQueries = {"qbad"}
  MutQueries = {"qm"}
  Res <- ResOK
  MaxVer = 2
  MaxInst = 4
  MaxSubs = 2
  AllowCtxCancel = FALSE
  CloseSelfOnly = TRUE
SPECIFICATION Spec
INVARIANTS EndsForAReason Converges FirstIsFull NoUpdateAfterUnsub EndsAtMostOnce AllEndAfterClose MapComplete LoggerAlternates LoggerPaired LoggerMatchesMap LimitHolds
CONSTRAINT MsgBound
CHECK_DEADLOCK FALSE
