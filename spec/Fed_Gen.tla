------------------------------ MODULE Fed_Gen ------------------------------
(* M5 for the planner model: emits every (ownership, query) case Fed_MC checks. *)
EXTENDS Fed_MC, Json, IOUtils
RECURSIVE SelJ(_)
SelJ(sels) == [i \in DOMAIN sels |-> [f |-> sels[i].f, sub |-> SelJ(sels[i].sub)]]
Cases == {[owner |-> o, q |-> SelJ(x)] : o \in [Owned -> S2], x \in RootSels}
ASSUME ndJsonSerialize(IOEnv.OUT, SetToSeq(Cases))
=============================================================================
