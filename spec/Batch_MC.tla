------------------------------- MODULE Batch_MC -------------------------------
EXTENDS Batch
C4 == {"c1", "c2", "c3", "c4"}
C3 == {"c1", "c2", "c3"}
Shard2of4 == [c \in C4 |-> IF c \in {"c1", "c2", "c3"} THEN "s1" ELSE "s2"]
Shard1of4 == [c \in C4 |-> "s1"]
Shard1of3 == [c \in C3 |-> "s1"]
Shard2of3 == [c \in C3 |-> IF c = "c3" THEN "s2" ELSE "s1"]
=============================================================================
