CONSTANTS
  Queries <- Q2
  Filter <- F2
  Ids = {"1", "2"}
  Vals = {"1", "2"}
  MaxWrites = 2
  MaxBad = 1
  RegisterFirst = TRUE
  BadInvalidates = FALSE
SPECIFICATION Spec
INVARIANTS Converged PerQuery

CHECK_DEADLOCK FALSE
