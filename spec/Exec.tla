-------------------------------- MODULE Exec --------------------------------
(* Reference semantics of thunder's GraphQL execution (C01, C19, C16, C14).    *)
(*                                                                            *)
(* The schema (types) and the data graph come from the harness' description   *)
(* of the zoo (one source of truth, read from JSON); everything else here is   *)
(* written from the GraphQL execution semantics the property statements list:  *)
(*   - collect fields in order, fragments by type condition, same response key *)
(*     merged (sub-selections concatenated);                                   *)
(*   - resolve each field from the object; lists keep order; a nil object is   *)
(*     null, a nil list is []; unions dispatch on the concrete member;         *)
(*   - __typename; objects with a key field additionally carry it as __key;    *)
(*   - @skip/@include: a node is kept iff every directive on it allows it.     *)
(* Eval is a naive sequential evaluator: no scheduling, no batching.           *)
EXTENDS Integers, Sequences, FiniteSets, TLC, SequencesExt, Json, IOUtils

Zoo == JsonDeserialize(IOEnv.ZOO)
Types == Zoo.types
Objs == Zoo.objs

Null == [k |-> "n"]
Str(s) == [k |-> "s", s |-> s]
Arr(seq) == [k |-> "a", a |-> seq]
Obj(fn) == [k |-> "o", m |-> fn]

\* C19: a node is kept iff every directive on it allows it
Include(dirs) == \A i \in DOMAIN dirs : /\ (dirs[i].name = "skip" => ~dirs[i]["if"])
                                        /\ (dirs[i].name = "include" => dirs[i]["if"])

RECURSIVE Collect(_, _), CollectFrags(_, _, _)
\* the included field selections that apply to an object of concrete type tn, fragments inlined, in order
Collect(ss, tn) == SelectSeq(ss.sels, LAMBDA s : Include(s.dirs)) \o CollectFrags(ss.frags, 1, tn)
CollectFrags(frags, i, tn) ==
  IF i > Len(frags) THEN <<>>
  ELSE (IF Include(frags[i].dirs) /\ frags[i].on = tn THEN Collect(frags[i].sub, tn) ELSE <<>>)
       \o CollectFrags(frags, i + 1, tn)

\* same response key => sub-selections merged
MergedSub(sels, a) ==
  LET idx == SelectSeq([i \in DOMAIN sels |-> i], LAMBDA i : sels[i].alias = a)
  IN [sels |-> FlattenSeq([j \in DOMAIN idx |-> sels[idx[j]].sub.sels]),
      frags |-> FlattenSeq([j \in DOMAIN idx |-> sels[idx[j]].sub.frags])]

RECURSIVE Eval(_, _, _), EvalObj(_, _)
\* the response object for data object o under selection set ss
EvalObj(o, ss) ==
  LET tn == Objs[o].type
      T == Types[tn]
      sels == Collect(ss, tn)
      aliases == {sels[i].alias : i \in DOMAIN sels}
      nameOf(a) == sels[CHOOSE i \in DOMAIN sels : sels[i].alias = a].name
      keyPart == IF T.key # "" THEN {"__key"} ELSE {}
  IN Obj([a \in aliases \cup keyPart |->
            IF a = "__key" /\ a \notin aliases THEN Objs[o].m[T.key]
            ELSE IF nameOf(a) = "__typename" THEN Str(tn)
            ELSE Eval(T.fields[nameOf(a)], Objs[o].m[nameOf(a)], MergedSub(sels, a))])

Eval(tref, v, ss) ==
  IF tref.k = "nn" THEN Eval(tref.of, v, ss)
  ELSE IF tref.k = "list" THEN (IF v.k = "n" THEN Arr(<<>>) ELSE Arr([i \in DOMAIN v.a |-> Eval(tref.of, v.a[i], ss)]))
  ELSE IF Types[tref.name].kind = "SCALAR" THEN v
  ELSE IF v.k = "n" THEN Null
  ELSE EvalObj(v.s, ss)                \* objects and unions: the concrete object decides

Expected(q) == EvalObj(Zoo.root, q)

-----------------------------------------------------------------------------
\* C19: textual deletion of excluded nodes, directives dropped from the rest
RECURSIVE Prune(_)
Prune(ss) ==
  [sels |-> LET kept == SelectSeq(ss.sels, LAMBDA s : Include(s.dirs))
            IN [i \in DOMAIN kept |-> [kept[i] EXCEPT !.dirs = <<>>, !.sub = IF kept[i].hassub THEN Prune(kept[i].sub) ELSE kept[i].sub]],
   frags |-> LET kept == SelectSeq(ss.frags, LAMBDA f : Include(f.dirs))
             IN [i \in DOMAIN kept |-> [kept[i] EXCEPT !.dirs = <<>>, !.sub = Prune(kept[i].sub)]]]
\* theorem of the reference (checked on every generated query): directives = textual deletion
PruneTheorem(q) == Expected(q) = Expected(Prune(q))

-----------------------------------------------------------------------------
\* C16: which (response path, failure key) pairs a sequential evaluation can run into when the
\* resolvers named in F fail.  A failure key is "<object>.<field>".  Sub-trees of a failing field
\* are not evaluated.
RECURSIVE FailIn(_, _, _, _), FailObj(_, _, _, _)
PathStr(p) == p                                            \* paths are built as dotted strings
Dot(p, x) == IF p = "" THEN x ELSE p \o "." \o x
FailObj(o, ss, F, path) ==
  LET tn == Objs[o].type
      T == Types[tn]
      sels == Collect(ss, tn)
      aliases == {sels[i].alias : i \in DOMAIN sels}
      nameOf(a) == sels[CHOOSE i \in DOMAIN sels : sels[i].alias = a].name
  IN UNION {IF nameOf(a) = "__typename" THEN {}
            ELSE IF (o \o "." \o nameOf(a)) \in F THEN {<<Dot(path, a), o \o "." \o nameOf(a)>>}
            ELSE FailIn(T.fields[nameOf(a)], Objs[o].m[nameOf(a)], MergedSub(sels, a), <<F, Dot(path, a)>>)
            : a \in aliases}
FailIn(tref, v, ss, Fp) ==
  IF tref.k = "nn" THEN FailIn(tref.of, v, ss, Fp)
  ELSE IF tref.k = "list"
       THEN (IF v.k = "n" THEN {} ELSE UNION {FailIn(tref.of, v.a[i], ss, <<Fp[1], Dot(Fp[2], ToString(i - 1))>>) : i \in DOMAIN v.a})
  ELSE IF Types[tref.name].kind = "SCALAR" THEN {}
  ELSE IF v.k = "n" THEN {}
  ELSE FailObj(v.s, ss, Fp[1], Fp[2])
\* thunder prefixes the operation name; the harness names every operation Q
Failures(q, F) == FailObj(Zoo.root, q, F, "Q")
=============================================================================
