----------------------------- MODULE Exec_Trace -----------------------------
(* M4 for C01 / C19 / C16: every record is one query (as AST) with the         *)
(* outcomes of running its text through the real Parse/PrepareQuery/Execute    *)
(* under several (execution-mode assignment, work scheduler) configurations.   *)
(* The reference evaluation decides every run.                                 *)
EXTENDS Exec

Recs == ndJsonDeserialize(IOEnv.RECS)

\* strip list indices from a dotted path (a batch resolver fails all its destinations at once,
\* thunder reports the first one)
RECURSIVE NoIdxSeq(_)
IsDigits(s) == s \in {ToString(i) : i \in 0..20}
Split(p) == IF p = "" THEN <<>> ELSE
   LET RECURSIVE go(_, _, _)
       go(i, cur, acc) == IF i > Len(p) THEN Append(acc, cur)
                          ELSE IF SubSeq(p, i, i) = "." THEN go(i + 1, "", Append(acc, cur))
                          ELSE go(i + 1, cur \o SubSeq(p, i, i), acc)
   IN go(1, "", <<>>)
NoIdxSeq(xs) == SelectSeq(xs, LAMBDA x : ~IsDigits(x))
NoIdx(p) == NoIdxSeq(Split(p))

BatchModes == {"batch", "fbOn", "batchPar2"}
\* the logical field a failure key belongs to, e.g. "a1.b" -> "A.b"
FieldOfKey(k) == LET parts == Split(k) IN Objs[parts[1]].type \o "." \o parts[2]

\* why a run does not conform (empty = conforms)
WhyRun(rec, run) ==
  LET F == {rec.failks[i] : i \in DOMAIN rec.failks}
      fs == Failures(rec.q, F) IN
  IF run.outcome \notin {"ok", "error"} THEN {run.outcome}
  ELSE IF fs = {}
  THEN (IF run.outcome # "ok" THEN {"unexpected_error"}
        ELSE IF run.res # Expected(rec.q) THEN {"wrong_result"} ELSE {})
  ELSE \* some resolver fails: no data, and the error is one of the failures, with its path unless sanitised
       IF run.outcome # "error" THEN {"partial_data_or_no_error"}
       ELSE IF run.ekey = "" \/ ~\E f \in fs : f[2] = run.ekey THEN {"error_not_from_a_failing_field"}
       ELSE LET kind == rec.fail[run.ekey]
                sameKey == {f \in fs : f[2] = run.ekey}
                mode == IF FieldOfKey(run.ekey) \in DOMAIN run.modes THEN run.modes[FieldOfKey(run.ekey)] ELSE "plain" IN
            \* what a client is sent for this error (graphql.SanitizeError) carries text that was not marked safe
            (IF run.leak THEN {"client_text_carries_unsafe_error_text"} ELSE {}) \cup
            (IF kind \in {"safe", "wrapped"}
             THEN (IF run.epath # "" THEN {"safe_error_with_path"} ELSE {})
                  \cup (IF run.ekind # kind THEN {"inner_text_leaked_or_wrong_kind"} ELSE {})

             ELSE (IF mode \in BatchModes
                   THEN (IF \E f \in sameKey : NoIdx(f[1]) = NoIdx(run.epath) THEN {} ELSE {"wrong_error_path"})
                   ELSE (IF \E f \in sameKey : f[1] = run.epath THEN {} ELSE {"wrong_error_path"})))

Why(rec) ==
  UNION {WhyRun(rec, rec.runs[i]) : i \in DOMAIN rec.runs}
  \* C19's own oracle: the textually pruned query gives the same result on the real code
  \cup (IF rec.pruned.outcome # "none" /\ DOMAIN rec.failks = {}
        THEN (IF rec.pruned.outcome # "ok" THEN {"pruned_" \o rec.pruned.outcome}
              ELSE IF rec.pruned.res # Expected(rec.q) THEN {"pruned_differs"} ELSE {})
        ELSE {})
  \* theorem of the reference itself
  \cup (IF ~PruneTheorem(rec.q) THEN {"SPEC_prune_theorem"} ELSE {})

VARIABLES l, bad
Init == l = 1 /\ bad = <<>>
Next == /\ l <= Len(Recs)
        /\ l' = l + 1
        /\ LET w == Why(Recs[l]) IN
           bad' = IF w = {} THEN bad ELSE Append(bad, [l |-> l, why |-> SetToSeq(w)])
Done == l = Len(Recs) + 1 => ndJsonSerialize(IOEnv.OUT, bad)
=============================================================================
