-------------------------------- MODULE Parse --------------------------------
(* C15, input part: what thunder may do with untrusted input.                   *)
(*   - the outcome alphabet: a request ends in a result or an error - never a   *)
(*     panic escaping to the caller, never a hang;                              *)
(*   - constructs the server does not support or must refuse end in an error;   *)
(*   - the cost model: validation remembers what it has handled, so the number  *)
(*     of validation steps is bounded by the number of distinct (type, selection *)
(*     set) pairs, i.e. polynomial in the size of the query text - fragment      *)
(*     spreads repeated w times over d levels must not cost w^d;                 *)
(*   - a cancelled request returns and leaves no goroutine behind (the model of  *)
(*     that part is OneShot.tla).                                                *)
EXTENDS Integers, Sequences, FiniteSets, TLC, SequencesExt, Json, IOUtils

Outcomes == {"ok", "error"}
MustBeRefused == {"subscription_op", "two_operations", "type_definition", "undefined_fragment", "duplicate_fragment",
                  "cyclic_fragments", "self_cyclic_fragment", "unused_fragment", "required_with_default", "duplicate_args",
                  "skip_without_if", "skip_if_string", "alias_conflict_name", "alias_conflict_args", "typename_with_args",
                  "typename_with_sub", "empty_query", "panicking_resolver", "mutation_on_query",
                  "fragment_on_two_types_t_u", "fragment_on_two_types_u_t", "fragment_on_two_types_nested",
                  "fragment_on_two_types_twice", "fragment_on_two_types_inner"}
\* generous polynomial ceiling on validation steps for a text of n tokens
StepBound(n) == 4 * n * n + 64
\* what memoised validation of a w-wide, d-deep spread DAG costs, and what re-validating every spread would cost
MemoSteps(w, d) == (w + 1) * (d + 2)
RECURSIVE Pow(_, _)
Pow(w, d) == IF d = 0 THEN 1 ELSE w * Pow(w, d - 1)
NaiveSteps(w, d) == Pow(w, d)

Why(r) ==
  CASE r.kind = "cancel" ->
         (IF ~r.returned THEN {"request_blocks_after_cancellation_at_" \o r.point} ELSE {})
         \cup (IF r.leaked > 0 THEN {"goroutine_left_behind_after_cancellation_at_" \o r.point} ELSE {})
         \cup (IF r.inflight > 0 THEN {"returned_while_its_run_was_in_progress_cancelled_at_" \o r.point} ELSE {})
         \cup (IF r.late > 0 THEN {"response_writer_used_after_return_cancelled_at_" \o r.point} ELSE {})
         \cup (IF r.returned /\ r.outcome \notin Outcomes THEN {"outcome_" \o r.outcome} ELSE {})
    \* a resolver that panics fails its own request with an error, wherever it sits (the process survives)
    [] r.kind = "panic" ->
         (IF r.name = "no_panic_control" THEN (IF r.outcome # "ok" THEN {"control_query_failed"} ELSE {})
          ELSE IF r.outcome = "crash" THEN {"resolver_panic_killed_the_server_at_" \o r.name}
          ELSE IF r.outcome # "error" THEN {"panicking_resolver_did_not_fail_its_request_at_" \o r.name} ELSE {})
    [] r.kind = "construct" ->
         (IF r.outcome \notin Outcomes THEN {"outcome_" \o r.outcome} ELSE {})
         \cup (IF r.name \in MustBeRefused /\ r.outcome = "ok" THEN {"accepted_" \o r.name} ELSE {})
    [] r.kind = "bomb" ->
         (IF r.outcome \notin Outcomes THEN {"outcome_" \o r.outcome} ELSE {})
         \cup (IF r.psteps > StepBound(r.size) THEN {"validation_steps_exceed_polynomial_bound"} ELSE {})
         \cup (IF r.csteps > StepBound(r.size) THEN {"conflict_detection_steps_exceed_polynomial_bound"} ELSE {})
    [] r.kind = "random" ->
         (IF r.outcome \notin Outcomes THEN {"outcome_" \o r.outcome} ELSE {})
=============================================================================
