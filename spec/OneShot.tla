------------------------------- MODULE OneShot -------------------------------
(* C15, cancellation part: a one-shot request (graphql.HTTPHandler.ServeHTTP,   *)
(* federation.ExecuteRequest) runs its query inside a reactive.Rerunner and    *)
(* waits for the first run.  The rerunner never calls the function if its      *)
(* context is already cancelled when the run goroutine gets to look at it, so  *)
(* a handler that waits only for a signal given by the function blocks for     *)
(* ever.  WaitsOnCtx = TRUE is the code as it is now (the wait also ends when  *)
(* the request context is cancelled); FALSE is the original code.              *)
EXTENDS Integers, TLC
CONSTANT WaitsOnCtx

VARIABLES hpc,        \* handler: "new" | "wait" | "stop" | "done"
          rpc,        \* run goroutine: "none" | "wait" | "lock" | "run" | "fin" | "exit"
          cancelled,  \* request context cancelled (client gone, sibling sub-query failed, ...)
          signalled,  \* the function signalled completion (wg.Done / close(done))
          rmu,        \* Rerunner.mu held by the run
          wrote,      \* a response was produced
          stopped     \* Rerunner.stop
vars == <<hpc, rpc, cancelled, signalled, rmu, wrote, stopped>>

Init == hpc = "new" /\ rpc = "none" /\ cancelled \in BOOLEAN /\ signalled = FALSE /\ rmu = FALSE /\ wrote = FALSE /\ stopped = FALSE

NewRerunner == hpc = "new" /\ hpc' = "wait" /\ rpc' = "wait" /\ UNCHANGED <<cancelled, signalled, rmu, wrote, stopped>>
\* Rerunner.run: timer/ctx select, then `if ctx.Err() != nil { return }`
RunCheck == rpc = "wait" /\ rpc' = (IF cancelled THEN "exit" ELSE "lock") /\ UNCHANGED <<hpc, cancelled, signalled, rmu, wrote, stopped>>
\* r.mu.Lock(); if r.stop { return }
RunLock == rpc = "lock" /\ ~rmu /\ (IF stopped THEN rpc' = "exit" /\ UNCHANGED rmu ELSE rmu' = TRUE /\ rpc' = "run")
           /\ UNCHANGED <<hpc, cancelled, signalled, wrote, stopped>>
\* the function executes the query and signals (deferred), whatever the outcome
RunFunc == rpc = "run" /\ signalled' = TRUE /\ wrote' = ~cancelled /\ rpc' = "fin" /\ UNCHANGED <<hpc, cancelled, rmu, stopped>>
RunUnlock == rpc = "fin" /\ rmu' = FALSE /\ rpc' = "exit" /\ UNCHANGED <<hpc, cancelled, signalled, wrote, stopped>>
\* the handler's wait
WaitDone == hpc = "wait" /\ (signalled \/ (WaitsOnCtx /\ cancelled)) /\ hpc' = "stop" /\ UNCHANGED <<rpc, cancelled, signalled, rmu, wrote, stopped>>
\* runner.Stop(): cancel, then take Rerunner.mu (waits for a run in progress)
Stop == hpc = "stop" /\ ~rmu /\ hpc' = "done" /\ cancelled' = TRUE /\ stopped' = TRUE /\ UNCHANGED <<rpc, signalled, rmu, wrote>>
Cancel == ~cancelled /\ cancelled' = TRUE /\ UNCHANGED <<hpc, rpc, signalled, rmu, wrote, stopped>>
Finished == hpc = "done" /\ rpc = "exit" /\ UNCHANGED vars

Next == NewRerunner \/ RunCheck \/ RunLock \/ RunFunc \/ RunUnlock \/ WaitDone \/ Stop \/ Cancel \/ Finished
Spec == Init /\ [][Next]_vars /\ WF_vars(NewRerunner \/ RunCheck \/ RunLock \/ RunFunc \/ RunUnlock \/ WaitDone \/ Stop)

\* the request returns, whatever happens to its context, and leaves no goroutine behind
Returns == <>(hpc = "done" /\ rpc = "exit")
\* once the handler has returned no run is in progress (what the code reads afterwards is stable)
NoRunAfterReturn == hpc = "done" => rpc \in {"exit", "wait", "lock"} /\ ~rmu
=============================================================================
