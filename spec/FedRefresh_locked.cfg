CONSTANTS
  Reqs = {"r1", "r2", "r3"}
  MaxVersion = 3
  MaxSub = 3
  ReadLocked = TRUE
SPECIFICATION Spec
INVARIANTS NoRace MutexOK PlanKnown MapFollows
PROPERTIES PlannerMonotone AllDone
CHECK_DEADLOCK FALSE
