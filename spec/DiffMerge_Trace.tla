---------------------------- MODULE DiffMerge_Trace ----------------------------
(* M4 for C03: every record is one call of the real diff.Diff (delta after a   *)
(* JSON round trip), the real merge.Merge and, when available, the real        *)
(* client/src/merge.ts.  The spec decides each record with its own reference   *)
(* reading of the documented format (ClientMerge, Strip).                      *)
EXTENDS DiffMerge, Json, IOUtils

Names == <<"mixed", "slists", "klists", "nested", "rand">>
U == [nm \in {Names[i] : i \in DOMAIN Names} |-> ndJsonDeserialize(IOEnv.UDIR \o "/U_" \o nm \o ".ndjson")]
Recs == ndJsonDeserialize(IOEnv.RECS)

Old(r) == U[r.u][r.i]
New(r) == U[r.u][r.j]

\* the reasons a record does not conform (empty = conforms)
Why(r) ==
  LET o == Old(r)  n == New(r)  want == Strip(n) IN
  IF r.d.k = "err" THEN {"crash"} ELSE
     (IF r.mut THEN {"mutated"} ELSE {})
  \cup (IF ~r.json THEN {"json"} ELSE {})
  \cup (IF r.json /\ Applied(o, r.d) # want THEN {"client"} ELSE {})
  \cup (IF r.json /\ r.d # NoDiff /\ r.gm # want THEN {"gomerge"} ELSE {})
  \cup (IF o = n /\ r.d # NoDiff THEN {"self"} ELSE {})
  \cup (IF r.jm.k \notin {"none"} /\ r.jm # want THEN {"jsclient"} ELSE {})
  \* the transcription of merge.ts into ClientMerge is itself checked against the real thing
  \cup (IF r.jm.k \notin {"none", "err"} /\ r.json /\ r.d # NoDiff /\ r.jm # Applied(o, r.d) THEN {"transcription"} ELSE {})

\* classifiers of known findings (see known_findings.txt): none for C03.

VARIABLES l, bad
Init == l = 1 /\ bad = <<>>
Next == /\ l <= Len(Recs)
        /\ l' = l + 1
        /\ LET w == Why(Recs[l]) IN
           bad' = IF w = {} THEN bad ELSE Append(bad, [l |-> l, why |-> SetToSeq(w)])
Done == l = Len(Recs) + 1 => ndJsonSerialize(IOEnv.OUT, bad)
=============================================================================
