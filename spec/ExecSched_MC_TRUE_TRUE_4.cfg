SPECIFICATION Spec
CONSTANTS
  Unit = {1,2,3,4}
  N = 4
  AddBeforeSpawn = TRUE
  FirstWins = TRUE
INVARIANTS STypeOK ReturnedQuiescent OnceEach WgExact ReturnComplete Outcome ParentFirst
PROPERTIES ErrStable Terminates
CHECK_DEADLOCK FALSE
