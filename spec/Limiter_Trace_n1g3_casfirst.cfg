CONSTANTS
  N = 1
  NG = 3
  MaxCalls = 3
  SideCalls = 1
  Protocol = "cas_first"
  AllowCancel = TRUE
  AllowNoLimiter = TRUE
SPECIFICATION TSpec
CONSTRAINT HW
INVARIANTS TypeOK AtMostN Conservation NoBlockWhenCancelled
POSTCONDITION Accepted
CHECK_DEADLOCK FALSE
