CONSTANT Tier = "quick"
INIT Init
NEXT Next
INVARIANTS FormatRoundTrip FormatSelfEmpty
CHECK_DEADLOCK FALSE
