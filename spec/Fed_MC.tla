------------------------------- MODULE Fed_MC -------------------------------
(* M1 for the planner/executor model: every ownership of the seven owned fields   *)
(* over two services x every query of a bounded grammar.                          *)
EXTENDS Fed
VARIABLE q
S2 == {"s1", "s2"}
Leaf(f) == [f |-> f, sub |-> <<>>]
DevSels == {<<Leaf("temp")>>, <<Leaf("id"), Leaf("temp")>>, <<Leaf("isOn")>>,
            <<Leaf("temp"), [f |-> "owner", sub |-> <<Leaf("name"), Leaf("secret")>>]>>}
UserSels == {<<Leaf("id")>>, <<Leaf("secret")>>, <<Leaf("name"), Leaf("secret")>>}
            \cup {<<Leaf("id"), [f |-> "device", sub |-> d]>> : d \in DevSels}
            \cup {<<Leaf("secret"), [f |-> "device", sub |-> d]>> : d \in DevSels}
RootSels == {<<[f |-> "users", sub |-> u]>> : u \in UserSels}
            \cup {<<[f |-> "user1", sub |-> u], [f |-> "nobody", sub |-> v]>> : u \in UserSels, v \in {<<Leaf("secret")>>, <<Leaf("id"), [f |-> "device", sub |-> <<Leaf("temp")>>]>>}}
            \cup {<<[f |-> "users", sub |-> u], [f |-> "user1", sub |-> <<Leaf("secret")>>]>> : u \in UserSels}
Init == Owner \in [Owned -> S2] /\ q \in RootSels
Next == UNCHANGED <<Owner, q>>
TransparentOK == Transparent(q)
OnlyExposedOK == OnlyExposed(q)
HopsOKInv == HopsOK(RootPlan(q))
=============================================================================
