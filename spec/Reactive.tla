------------------------------- MODULE Reactive -------------------------------
(* thunder's reactive package: the invalidation / release graph (graph.go),   *)
(* the Rerunner and the computation cache (rerunner.go).  Properties C04 and  *)
(* C08; the abstraction of it is reused by Conn.tla and LiveSql.tla.          *)
(*                                                                            *)
(* One action per critical section of the Go code.  Goroutines are stacks of *)
(* frames kept in a bag (there is no goroutine identity in the code either).  *)
(* Steps that touch no shared variable are fused into the preceding step.     *)
(*                                                                            *)
(* Usage contract modelled (the one livesql and the harness follow): a        *)
(* compute function first registers a dependency and only then reads the data *)
(* the dependency stands for.  A long-lived resource is strobed when its data *)
(* changes; a per-run ("fresh") resource is registered in a tracker and       *)
(* permanently invalidated when its data changes.                             *)
EXTENDS Integers, Sequences, FiniteSets, TLC

CONSTANTS RR,           \* set of rerunner ids
          Res,          \* long-lived resources (each is also the name of the data slot it guards)
          FSlots,       \* data slots guarded by per-run resources
          Dyn,          \* sequence of node ids available for computations / children / per-run resources
          Keys,         \* cache keys
          Prog,         \* [RR -> Seq(item)]   compute function of each rerunner
          Body,         \* [Keys -> Seq(item)] compute function behind each cache key
          AlwaysSpawn,  \* [RR -> BOOLEAN]     rerunner option alwaysSpawnGoroutine
          MaxBump, MaxFail, MaxTasks,
          StopAllowed,  \* SUBSET RR
          MaxStops,     \* how many times Stop is called on a rerunner of StopAllowed (callers may overlap)
          ParentCancelAllowed, \* SUBSET RR: the context the rerunner was created from may be cancelled by its owner
          StopWaits     \* design switch. TRUE = the code: Stop always takes r.mu. FALSE: Stop returns at once when
                        \* the context is already cancelled ("already stopped") - StopFinal must then fail

None == "none"
Slot == Res \cup FSlots
DynSet == {Dyn[i] : i \in DOMAIN Dyn}
Node == Res \cup DynSet

\* program items
Dep(r) == [op |-> "dep", x |-> r]          \* AddDependency(long-lived r); read slot r
Fresh(s) == [op |-> "fresh", x |-> s]      \* r := NewResource(); Cleanup; AddDependency(r); track; read slot s
Cached(k) == [op |-> "cache", x |-> k]     \* reactive.Cache(ctx, k, Body[k])
Purge == [op |-> "purge", x |-> None]      \* reactive.PurgeCache(ctx)

VARIABLES
  inv, rel,        \* [Node -> BOOLEAN]   node.invalidated / node.released
  out,             \* [Node -> SUBSET Node]
  ins,             \* [Node -> Seq(Node)]  node.in (a slice: duplicates possible, walked in order)
  hInv,            \* [Node -> RR \cup {None}]  afterInvalidate = "rerun r"
  cleanups,        \* [Node -> Nat]  how often the Cleanup callback of a resource ran
  hasCb,           \* [Node -> BOOLEAN]  afterRelease set (Resource.Cleanup was called)
  tracker,         \* [FSlots -> SUBSET Node]  per-run resources currently registered for a slot
  cache,           \* [RR -> [Keys -> Node \cup {None}]]
  tasks,           \* bag of goroutine stacks: [stack -> count]
  rmu,             \* [RR -> BOOLEAN]  Rerunner.mu held
  comp,            \* [RR -> Node \cup {None}]  Rerunner.computation
  stop, cancelled, \* [RR -> BOOLEAN]
  stopStarted, stopReturned, failed,
  version,         \* [Slot -> Nat]  the data
  val,             \* [Node -> SUBSET (Slot \X Nat)]  versions a computation's value was computed from
  used,            \* SUBSET DynSet  allocated node ids
  running,         \* [RR -> Nat]  compute functions currently executing
  runs,            \* [RR -> Nat]  compute functions started (history)
  bumps, fails
vars == <<inv, rel, out, ins, hInv, cleanups, hasCb, tracker, cache, tasks, rmu, comp, stop, cancelled,
          stopStarted, stopReturned, failed, version, val, used, running, runs, bumps, fails>>

gvars == <<inv, rel, out, ins, hInv, cleanups, hasCb, tracker>>               \* graph
rvars == <<cache, rmu, comp, stop, cancelled, stopStarted, stopReturned, failed, running, runs, fails>>  \* rerunner
evars == <<version, val, used, bumps>>                                  \* environment / ghost

-----------------------------------------------------------------------------
\* frames and the bag of goroutines
Fr(k, n, r, c, s, todo, key) == [k |-> k, n |-> n, r |-> r, c |-> c, s |-> s, todo |-> todo, key |-> key]
FInv(n) == Fr("inv", n, None, None, {}, <<>>, None)
FRel(n) == <<FInv(n), Fr("rel2", n, None, None, {}, <<>>, None)>>       \* node.release(): invalidate, then mark
FStrobe(n) == Fr("strobe", n, None, None, {}, <<>>, None)
FWait(r) == Fr("wait", None, r, None, {}, <<>>, None)                    \* Rerunner.run() entry
FStop(r) == Fr("stopc", None, r, None, {}, <<>>, None)

BAdd(b, x) == IF x \in DOMAIN b THEN [b EXCEPT ![x] = @ + 1] ELSE b @@ (x :> 1)
BRem(b, x) == IF b[x] = 1 THEN [y \in DOMAIN b \ {x} |-> b[y]] ELSE [b EXCEPT ![x] = @ - 1]
RECURSIVE BAddAll(_, _)
BAddAll(b, xs) == IF xs = <<>> THEN b ELSE BAddAll(BAdd(b, Head(xs)), Tail(xs))
RECURSIVE BSize(_)
BSize(b) == IF DOMAIN b = {} THEN 0
            ELSE LET x == CHOOSE y \in DOMAIN b : TRUE IN b[x] + BSize([y \in DOMAIN b \ {x} |-> b[y]])
EmptyBag == <<>>

\* goroutine st becomes newst (<<>> = it ends) and spawns the goroutines in spawned
Upd(st, newst, spawned) ==
  tasks' = BAddAll(BRem(tasks, st), (IF newst = <<>> THEN <<>> ELSE <<newst>>) \o spawned)

Top(st) == Head(st)
Perms(S) == {f \in [1..Cardinality(S) -> S] : \A i, j \in 1..Cardinality(S) : i # j => f[i] # f[j]}
NextFree == LET free == {i \in DOMAIN Dyn : Dyn[i] \notin used} IN
            IF free = {} THEN {} ELSE {Dyn[CHOOSE i \in free : \A j \in free : i <= j]}

Init ==
  /\ inv = [n \in Node |-> FALSE] /\ rel = [n \in Node |-> FALSE]
  /\ out = [n \in Node |-> {}] /\ ins = [n \in Node |-> <<>>]
  /\ hInv = [n \in Node |-> None] /\ cleanups = [n \in Node |-> 0]
  /\ hasCb = [n \in Node |-> n \in Res]       \* the owner of a long-lived resource registers Cleanup up front
  /\ tracker = [s \in FSlots |-> {}]
  /\ cache = [r \in RR |-> [k \in Keys |-> None]]
  /\ tasks = BAddAll(EmptyBag, [i \in 1..Cardinality(RR) |-> <<FWait((CHOOSE f \in Perms(RR) : TRUE)[i])>>])
  /\ rmu = [r \in RR |-> FALSE] /\ comp = [r \in RR |-> None]
  /\ stop = [r \in RR |-> FALSE] /\ cancelled = [r \in RR |-> FALSE]
  /\ stopStarted = [r \in RR |-> 0] /\ stopReturned = [r \in RR |-> FALSE] /\ failed = [r \in RR |-> FALSE]
  /\ version = [s \in Slot |-> 0]
  /\ val = [n \in Node |-> {}]
  /\ used = {}
  /\ running = [r \in RR |-> 0] /\ runs = [r \in RR |-> 0]
  /\ bumps = 0 /\ fails = 0

-----------------------------------------------------------------------------
\* graph.go

\* node.invalidate(), first critical section
InvMark(st) ==
  /\ Top(st).k = "inv"
  /\ LET n == Top(st).n IN
     IF inv[n] THEN /\ Upd(st, Tail(st), <<>>) /\ UNCHANGED inv
     ELSE /\ inv' = [inv EXCEPT ![n] = TRUE]
          /\ Upd(st, <<Fr("invh", n, None, None, out[n], <<>>, None)>> \o Tail(st), <<>>)
  /\ UNCHANGED <<rel, out, ins, hInv, cleanups, hasCb, tracker>> /\ UNCHANGED rvars /\ UNCHANGED evars

\* afterInvalidate is read OUTSIDE the node lock; then the snapshot of out is invalidated recursively
InvHandler(st) ==
  /\ Top(st).k = "invh"
  /\ LET n == Top(st).n
         r == hInv[n] IN
     \E order \in Perms(Top(st).s) :
       LET kids == [i \in DOMAIN order |-> FInv(order[i])] IN
       IF r # None /\ ~AlwaysSpawn[r] THEN Upd(st, <<FWait(r)>> \o kids \o Tail(st), <<>>)   \* r.run() on this goroutine
       ELSE IF r # None THEN Upd(st, kids \o Tail(st), << <<FWait(r)>> >>)                    \* go r.run()
       ELSE Upd(st, kids \o Tail(st), <<>>)
  /\ UNCHANGED gvars /\ UNCHANGED rvars /\ UNCHANGED evars

\* node.strobe(): snapshot out under the lock, then invalidate each
StrobeSnap(st) ==
  /\ Top(st).k = "strobe"
  /\ \E order \in Perms(out[Top(st).n]) :
       Upd(st, [i \in DOMAIN order |-> FInv(order[i])] \o Tail(st), <<>>)
  /\ UNCHANGED gvars /\ UNCHANGED rvars /\ UNCHANGED evars

\* node.release() after its invalidate(): mark released under the node lock
ReluFrames(n) == IF ins[n] = <<>> THEN <<>> ELSE <<Fr("relu", n, None, None, {}, ins[n], None)>>
RelMark(st) ==
  /\ Top(st).k = "rel2"
  /\ LET n == Top(st).n IN
     IF rel[n] THEN /\ Upd(st, Tail(st), <<>>) /\ UNCHANGED rel
     ELSE /\ rel' = [rel EXCEPT ![n] = TRUE]
          /\ Upd(st, (IF hasCb[n] THEN <<Fr("relcb", n, None, None, {}, <<>>, None)>> ELSE ReluFrames(n)) \o Tail(st), <<>>)
  /\ UNCHANGED <<inv, out, ins, hInv, cleanups, hasCb, tracker>> /\ UNCHANGED rvars /\ UNCHANGED evars

\* afterRelease(): the Cleanup callback runs outside the lock; it un-registers a per-run resource
RelCallback(st) ==
  /\ Top(st).k = "relcb"
  /\ LET n == Top(st).n IN
     /\ cleanups' = [cleanups EXCEPT ![n] = @ + 1]
     /\ tracker' = [s \in FSlots |-> tracker[s] \ {n}]
     /\ Upd(st, ReluFrames(n) \o Tail(st), <<>>)
  /\ UNCHANGED <<inv, rel, out, ins, hInv, hasCb>> /\ UNCHANGED rvars /\ UNCHANGED evars

\* for _, from := range n.in { lock from; delete(from.out, n); shouldRelease := len(from.out) == 0; unlock }
RelUnlink(st) ==
  /\ Top(st).k = "relu"
  /\ LET n == Top(st).n
         from == Head(Top(st).todo)
         more == Tail(Top(st).todo)
         o2 == out[from] \ {n}
         rest == IF more = <<>> THEN <<>> ELSE <<Fr("relu", n, None, None, {}, more, None)>> IN
     /\ out' = [out EXCEPT ![from] = o2]
     /\ Upd(st, (IF o2 = {} THEN FRel(from) ELSE <<>>) \o rest \o Tail(st), <<>>)
  /\ UNCHANGED <<inv, rel, ins, hInv, cleanups, hasCb, tracker>> /\ UNCHANGED rvars /\ UNCHANGED evars

\* n.addOut(to), atomic under both node locks.  Result: new out, new ins, goroutines to spawn.
AddOutOut(n, to) == IF ~rel[to] THEN [out EXCEPT ![n] = @ \cup {to}] ELSE out
AddOutIns(n, to) == IF ~rel[to] THEN [ins EXCEPT ![to] = Append(@, n)] ELSE ins
AddOutSpawn(n, to) == (IF inv[n] /\ ~inv[to] THEN << <<FInv(to)>> >> ELSE <<>>)
                      \o (IF AddOutOut(n, to)[n] = {} THEN <<FRel(n)>> ELSE <<>>)

\* reactive.AddDependency(ctx, r) with a context that has no rerunner: n.addOut(&node{released: true}). No edge is
\* added; the resource is released only if nothing depends on it (a resource somebody else still depends on must be
\* left alone).  Not part of Next (the model checker's environment does not do it); trace validation uses it.
ForeignTouch(n) ==
  /\ tasks' = BAddAll(tasks, IF out[n] = {} THEN << FRel(n) >> ELSE <<>>)
  /\ UNCHANGED gvars /\ UNCHANGED rvars /\ UNCHANGED evars

-----------------------------------------------------------------------------
\* rerunner.go

\* Rerunner.run(): timer / ctx select
RunWait(st) ==
  /\ Top(st).k = "wait"
  /\ LET r == Top(st).r IN
     IF cancelled[r] THEN Upd(st, Tail(st), <<>>)
     ELSE Upd(st, <<Fr("lock", None, r, None, {}, <<>>, None)>> \o Tail(st), <<>>)
  /\ UNCHANGED gvars /\ UNCHANGED rvars /\ UNCHANGED evars

\* r.mu.Lock(); if r.stop { return }
RunLock(st) ==
  /\ Top(st).k = "lock"
  /\ LET r == Top(st).r IN
     /\ ~rmu[r]
     /\ IF stop[r] THEN /\ Upd(st, Tail(st), <<>>) /\ UNCHANGED rmu
        ELSE /\ rmu' = [rmu EXCEPT ![r] = TRUE]
             /\ Upd(st, <<[Top(st) EXCEPT !.k = "clean", !.s = {k \in Keys : cache[r][k] # None}]>> \o Tail(st), <<>>)
  /\ UNCHANGED gvars /\ UNCHANGED evars
  /\ UNCHANGED <<cache, comp, stop, cancelled, stopStarted, stopReturned, failed, running, runs, fails>>

\* cache.cleanInvalidated(): every cached computation is looked at once (each look is its own
\* critical section on that node), invalidated ones are dropped
RunCleanKey(st, key) ==
  /\ Top(st).k = "clean" /\ key \in Top(st).s
  /\ LET r == Top(st).r IN
     /\ cache' = [cache EXCEPT ![r][key] = IF inv[@] THEN None ELSE @]
     /\ Upd(st, <<[Top(st) EXCEPT !.s = @ \ {key}]>> \o Tail(st), <<>>)
  /\ UNCHANGED gvars /\ UNCHANGED evars
  /\ UNCHANGED <<rmu, comp, stop, cancelled, stopStarted, stopReturned, failed, running, runs, fails>>

\* then the compute function starts on a new computation c
RunClean(st, c) ==
  /\ Top(st).k = "clean" /\ Top(st).s = {}
  /\ c \in DynSet \ used
  /\ LET r == Top(st).r IN
     /\ UNCHANGED cache
     /\ running' = [running EXCEPT ![r] = @ + 1]
     /\ runs' = [runs EXCEPT ![r] = @ + 1]
     /\ used' = used \cup {c}
     /\ val' = [val EXCEPT ![c] = {}]
     /\ Upd(st, <<Fr("body", None, r, c, {}, Prog[r], None)>> \o Tail(st), <<>>)
  /\ UNCHANGED gvars /\ UNCHANGED <<rmu, comp, stop, cancelled, stopStarted, stopReturned, failed, fails, version, bumps>>

\* one step of a compute function (top level: key = None; behind a cache key otherwise)
BodyDep(st) ==
  /\ Top(st).k = "body" /\ Top(st).todo # <<>> /\ Head(Top(st).todo).op = "dep"
  /\ LET f == Top(st)  n == Head(f.todo).x IN
     /\ out' = AddOutOut(n, f.c) /\ ins' = AddOutIns(n, f.c)
     /\ Upd(st, <<[f EXCEPT !.k = "read", !.n = n, !.todo = Tail(f.todo)]>> \o Tail(st), AddOutSpawn(n, f.c))
  /\ UNCHANGED <<inv, rel, hInv, cleanups, hasCb, tracker>> /\ UNCHANGED rvars /\ UNCHANGED evars

\* r := NewResource(); r.Cleanup(untrack); AddDependency(ctx, r) ...
BodyFresh(st, n) ==
  /\ Top(st).k = "body" /\ Top(st).todo # <<>> /\ Head(Top(st).todo).op = "fresh"
  /\ n \in DynSet \ used
  /\ LET f == Top(st)  s == Head(f.todo).x IN
     /\ used' = used \cup {n}
     /\ hasCb' = [hasCb EXCEPT ![n] = TRUE]
     /\ out' = AddOutOut(n, f.c) /\ ins' = AddOutIns(n, f.c)
     /\ Upd(st, <<[f EXCEPT !.k = "track", !.n = n]>> \o Tail(st), AddOutSpawn(n, f.c))
  /\ UNCHANGED <<inv, rel, hInv, cleanups, tracker>> /\ UNCHANGED rvars /\ UNCHANGED <<version, val, bumps>>

\* ... then the resource is registered with whoever invalidates it when the data changes
BodyTrack(st) ==
  /\ Top(st).k = "track"
  /\ LET f == Top(st)  s == Head(f.todo).x IN
     /\ tracker' = [tracker EXCEPT ![s] = @ \cup {f.n}]
     /\ Upd(st, <<[f EXCEPT !.k = "read", !.n = s, !.todo = Tail(f.todo)]>> \o Tail(st), <<>>)
  /\ UNCHANGED <<inv, rel, out, ins, hInv, cleanups, hasCb>> /\ UNCHANGED rvars /\ UNCHANGED evars

\* the compute function reads the data AFTER registering the dependency
BodyRead(st) ==
  /\ Top(st).k = "read"
  /\ LET f == Top(st) IN
     /\ val' = [val EXCEPT ![f.c] = @ \cup {<<f.n, version[f.n]>>}]
     /\ Upd(st, <<[f EXCEPT !.k = "body", !.n = None]>> \o Tail(st), <<>>)
  /\ UNCHANGED gvars /\ UNCHANGED rvars /\ UNCHANGED <<version, used, bumps>>

\* reactive.Cache(ctx, key, f): hit
CacheHit(st) ==
  /\ Top(st).k = "body" /\ Top(st).todo # <<>> /\ Head(Top(st).todo).op = "cache"
  /\ LET f == Top(st)  key == Head(f.todo).x  child == cache[f.r][key] IN
     /\ child # None
     /\ out' = AddOutOut(child, f.c) /\ ins' = AddOutIns(child, f.c)
     /\ val' = [val EXCEPT ![f.c] = @ \cup val[child]]
     /\ Upd(st, <<[f EXCEPT !.todo = Tail(f.todo)]>> \o Tail(st), AddOutSpawn(child, f.c))
  /\ UNCHANGED <<inv, rel, hInv, cleanups, hasCb, tracker>> /\ UNCHANGED rvars /\ UNCHANGED <<version, used, bumps>>

\* miss: run f on a new child computation
CacheMiss(st, c) ==
  /\ Top(st).k = "body" /\ Top(st).todo # <<>> /\ Head(Top(st).todo).op = "cache"
  /\ c \in DynSet \ used
  /\ LET f == Top(st)  key == Head(f.todo).x IN
     /\ cache[f.r][key] = None
     /\ used' = used \cup {c}
     /\ val' = [val EXCEPT ![c] = {}]
     /\ Upd(st, <<Fr("body", None, f.r, c, {}, Body[key], key), [f EXCEPT !.todo = Tail(f.todo)]>> \o Tail(st), <<>>)
  /\ UNCHANGED gvars /\ UNCHANGED rvars /\ UNCHANGED <<version, bumps>>

\* f returned: cache.set(key, child) (only if absent), child.addOut(parent)
ChildDone(st) ==
  /\ Top(st).k = "body" /\ Top(st).todo = <<>> /\ Top(st).key # None
  /\ LET f == Top(st)  parent == st[2] IN
     /\ cache' = [cache EXCEPT ![f.r][f.key] = IF @ = None THEN f.c ELSE @]
     /\ out' = AddOutOut(f.c, parent.c) /\ ins' = AddOutIns(f.c, parent.c)
     /\ val' = [val EXCEPT ![parent.c] = @ \cup val[f.c]]
     /\ Upd(st, Tail(st), AddOutSpawn(f.c, parent.c))
  /\ UNCHANGED <<inv, rel, hInv, cleanups, hasCb, tracker>>
  /\ UNCHANGED <<rmu, comp, stop, cancelled, stopStarted, stopReturned, failed, running, runs, fails, version, used, bumps>>

BodyPurge(st) ==
  /\ Top(st).k = "body" /\ Top(st).todo # <<>> /\ Head(Top(st).todo).op = "purge"
  /\ LET f == Top(st) IN
     /\ cache' = [cache EXCEPT ![f.r] = [k \in Keys |-> None]]
     /\ Upd(st, <<[f EXCEPT !.todo = Tail(f.todo)]>> \o Tail(st), <<>>)
  /\ UNCHANGED gvars /\ UNCHANGED evars
  /\ UNCHANGED <<rmu, comp, stop, cancelled, stopStarted, stopReturned, failed, running, runs, fails>>

\* the compute function returned nil error: release the old computation, publish the new one
RunDone(st) ==
  /\ Top(st).k = "body" /\ Top(st).todo = <<>> /\ Top(st).key = None
  /\ LET f == Top(st)  old == comp[f.r] IN
     /\ comp' = [comp EXCEPT ![f.r] = f.c]
     /\ running' = [running EXCEPT ![f.r] = @ - 1]
     /\ Upd(st, <<[f EXCEPT !.k = "arm"]>> \o Tail(st), IF old # None THEN <<FRel(old)>> ELSE <<>>)
  /\ UNCHANGED gvars /\ UNCHANGED evars
  /\ UNCHANGED <<cache, rmu, stop, cancelled, stopStarted, stopReturned, failed, runs, fails>>

\* node.handleInvalidate(rerun) under the node lock, then the deferred r.mu.Unlock()
RunArm(st) ==
  /\ Top(st).k = "arm"
  /\ LET f == Top(st) IN
     /\ IF inv[f.c] THEN /\ Upd(st, Tail(st), << <<FWait(f.r)>> >>) /\ UNCHANGED hInv      \* go f()
        ELSE /\ hInv' = [hInv EXCEPT ![f.c] = f.r] /\ Upd(st, Tail(st), <<>>)
     /\ rmu' = [rmu EXCEPT ![f.r] = FALSE]
  /\ UNCHANGED <<inv, rel, out, ins, cleanups, hasCb, tracker>> /\ UNCHANGED evars
  /\ UNCHANGED <<cache, comp, stop, cancelled, stopStarted, stopReturned, failed, running, runs, fails>>

\* the compute function returns an error: run() releases the new computation right away ...
\*   mode "retry" / "fatal": the function itself fails (bounded by MaxFail);
\*   mode "ctx": reactive.Cache takes its per-key lock with the run's context, so once Stop has
\*   cancelled it the call may return ctx.Err(), a non-sentinel error
CompFail(st, mode) ==
  /\ Top(st).k = "body" /\ Top(st).key = None
  /\ LET f == Top(st) IN
     /\ IF mode = "ctx"
        THEN f.todo # <<>> /\ Head(f.todo).op = "cache" /\ cancelled[f.r] /\ UNCHANGED fails
        ELSE f.todo = <<>> /\ fails < MaxFail /\ fails' = fails + 1
     /\ Upd(st, <<[f EXCEPT !.k = "failed", !.n = mode]>> \o Tail(st), <<FRel(f.c)>>)
  /\ UNCHANGED gvars /\ UNCHANGED evars
  /\ UNCHANGED <<cache, rmu, comp, stop, cancelled, stopStarted, stopReturned, failed, running, runs>>

\* ... then Rerunner.run: a sentinel error purges the cache and schedules a retry, any other
\* error stops the rerunner for good; r.mu is released
RunFail(st) ==
  /\ Top(st).k = "failed"
  /\ LET f == Top(st)  retry == f.n = "retry" IN
     /\ running' = [running EXCEPT ![f.r] = @ - 1]
     /\ rmu' = [rmu EXCEPT ![f.r] = FALSE]
     /\ IF retry THEN /\ cache' = [cache EXCEPT ![f.r] = [k \in Keys |-> None]] /\ UNCHANGED failed
        ELSE /\ failed' = [failed EXCEPT ![f.r] = TRUE] /\ UNCHANGED cache
     /\ Upd(st, Tail(st), IF retry THEN << <<FWait(f.r)>> >> ELSE <<>>)
  /\ UNCHANGED gvars /\ UNCHANGED evars
  /\ UNCHANGED <<comp, stop, cancelled, stopStarted, stopReturned, runs, fails>>

\* Rerunner.Stop(): cancelCtx() ...
StopCancel(st) ==
  /\ Top(st).k = "stopc"
  /\ LET r == Top(st).r IN
     /\ cancelled' = [cancelled EXCEPT ![r] = TRUE]
     /\ IF ~StopWaits /\ cancelled[r]
        THEN /\ Upd(st, Tail(st), <<>>)                      \* the tempting shortcut: "already stopped"
             /\ stopReturned' = [stopReturned EXCEPT ![r] = TRUE]
        ELSE /\ Upd(st, <<[Top(st) EXCEPT !.k = "stopl"]>> \o Tail(st), <<>>)
             /\ UNCHANGED stopReturned
  /\ UNCHANGED gvars /\ UNCHANGED evars
  /\ UNCHANGED <<cache, rmu, comp, stop, stopStarted, failed, running, runs, fails>>

\* the owner of the context NewRerunner was given cancels it (a connection closing, a request gone): the
\* rerunner will not start another run, a run in progress goes on, nothing is released until Stop
ParentCancel(r) ==
  /\ r \in ParentCancelAllowed /\ ~cancelled[r]
  /\ cancelled' = [cancelled EXCEPT ![r] = TRUE]
  /\ UNCHANGED tasks /\ UNCHANGED gvars /\ UNCHANGED evars
  /\ UNCHANGED <<cache, rmu, comp, stop, stopStarted, stopReturned, failed, running, runs, fails>>

\* ... r.mu.Lock(); r.stop = true; release the computation; r.mu.Unlock()
StopLock(st) ==
  /\ Top(st).k = "stopl"
  /\ LET r == Top(st).r IN
     /\ ~rmu[r]
     /\ stop' = [stop EXCEPT ![r] = TRUE]
     /\ stopReturned' = [stopReturned EXCEPT ![r] = TRUE]
     /\ comp' = [comp EXCEPT ![r] = None]
     /\ Upd(st, Tail(st), IF comp[r] # None THEN <<FRel(comp[r])>> ELSE <<>>)
  /\ UNCHANGED gvars /\ UNCHANGED evars
  /\ UNCHANGED <<cache, rmu, cancelled, stopStarted, failed, running, runs, fails>>

-----------------------------------------------------------------------------
\* environment

\* the data of slot s changes; its long-lived resource is strobed, its per-run resources are invalidated
Bump(s) ==
  /\ bumps < MaxBump /\ bumps' = bumps + 1
  /\ version' = [version EXCEPT ![s] = @ + 1]
  /\ \E order \in Perms(IF s \in FSlots THEN tracker[s] ELSE {}) :
       tasks' = BAddAll(tasks, (IF s \in Res THEN << <<FStrobe(s)>> >> ELSE <<>>)
                               \o [i \in DOMAIN order |-> <<FInv(order[i])>>])
  /\ UNCHANGED gvars /\ UNCHANGED rvars /\ UNCHANGED <<val, used>>

StartStop(r) ==
  /\ r \in StopAllowed /\ stopStarted[r] < MaxStops
  /\ stopStarted' = [stopStarted EXCEPT ![r] = @ + 1]
  /\ tasks' = BAdd(tasks, <<FStop(r)>>)
  /\ UNCHANGED gvars /\ UNCHANGED evars
  /\ UNCHANGED <<cache, rmu, comp, stop, cancelled, stopReturned, failed, running, runs, fails>>

Step(st) == \/ InvMark(st) \/ InvHandler(st) \/ StrobeSnap(st) \/ RelMark(st) \/ RelCallback(st) \/ RelUnlink(st)
            \/ RunWait(st) \/ RunLock(st) \/ (\E k \in Keys : RunCleanKey(st, k)) \/ (\E c \in NextFree : RunClean(st, c))
            \/ BodyDep(st) \/ (\E n \in NextFree : BodyFresh(st, n)) \/ BodyTrack(st) \/ BodyRead(st)
            \/ CacheHit(st) \/ (\E c \in NextFree : CacheMiss(st, c)) \/ ChildDone(st) \/ BodyPurge(st)
            \/ RunDone(st) \/ RunArm(st) \/ (\E m \in {"retry", "fatal", "ctx"} : CompFail(st, m)) \/ RunFail(st)
            \/ StopCancel(st) \/ StopLock(st)

Idle == DOMAIN tasks = {}
EnvDone == bumps = MaxBump /\ \A r \in StopAllowed : stopStarted[r] = MaxStops
Terminated == Idle /\ UNCHANGED vars

Next == (\E st \in DOMAIN tasks : Step(st)) \/ (\E s \in Slot : Bump(s)) \/ (\E r \in RR : StartStop(r) \/ ParentCancel(r)) \/ Terminated
Spec == Init /\ [][Next]_vars
FairSpec == Spec /\ WF_vars(\E st \in DOMAIN tasks : Step(st))

-----------------------------------------------------------------------------
\* properties

TaskBound == BSize(tasks) <= MaxTasks        \* used as a state constraint witness: must never bind

\* C04: runs of one rerunner never overlap
NoOverlap == \A r \in RR : running[r] <= 1

InCompute(r) == \E st \in DOMAIN tasks : \E i \in DOMAIN st : st[i].k \in {"clean", "body", "track", "read", "arm", "failed"} /\ st[i].r = r
\* C04: once Stop has returned no run is in progress ...
StopFinal == \A r \in RR : stopReturned[r] => running[r] = 0 /\ ~InCompute(r)
\* ... and none ever starts
StopFinalAct == [][\A r \in RR : stopReturned[r] => runs'[r] = runs[r]]_vars

\* C04 + C08: once everything has settled the published computation of every rerunner that was
\* neither stopped nor failed was computed from the current version of everything it read,
\* directly or through cached sub-computations
FreshAtQuiescence ==
  Idle => \A r \in RR : stop[r] \/ failed[r] \/ cancelled[r]      \* cancelled by its owner: it does not run again
                        \/ (comp[r] # None /\ \A p \in val[comp[r]] : p[2] = version[p[1]])

\* C08: cleanup callbacks
RECURSIVE ReachFrom(_, _)
ReachFrom(S, seen) == LET nxt == UNION {{ins[c][i] : i \in DOMAIN ins[c]} : c \in S} \ seen IN
                      IF nxt = {} THEN seen ELSE ReachFrom(nxt, seen \cup nxt)
LiveNodes == LET roots == {comp[r] : r \in RR} \ {None} IN ReachFrom(roots, roots)
Registered(n) == \E c \in Node : \E i \in DOMAIN ins[c] : ins[c][i] = n      \* some addOut(n, _) took effect
CleanupAtMostOnce == \A n \in Node : cleanups[n] <= 1
NoCleanupWhileLive == \A n \in Node : cleanups[n] >= 1 => n \notin LiveNodes
CleanupExactlyOnceAtQuiescence ==
  Idle => \A n \in Node : hasCb[n] /\ (Registered(n) \/ rel[n]) => ((cleanups[n] = 1) <=> (n \notin LiveNodes))
\* a per-run resource stays tracked exactly as long as it has not been cleaned up
TrackerExact == Idle => \A s \in FSlots : \A n \in tracker[s] : ~rel[n]

\* liveness (FairSpec, small configurations only)
Settles == <>[]Idle
=============================================================================
