CONSTANTS
  Callers <- C3
  ShardOf <- Shard2of3
  MaxSize = 0
  Outcomes = {"ok","error","panic","short"}
  AllowCancel = TRUE
SPECIFICATION Spec
INVARIANTS SizeBound NoShardMix AtMostOnce ExactlyOnceUnlessCancelled OwnResult ManyGetsAll
PROPERTIES NoJoinAfterRemove 
