------------------------------ MODULE Pagination ------------------------------
(* C11: thunder-managed pagination of a list with unique keys.                   *)
(* Reference: text filter -> stable sort -> cursors (= keys) -> Relay slicing    *)
(* (after, before, then first | last) -> pageInfo.  Written from the property    *)
(* statement and the Relay connection rules, not from pagination.go.             *)
EXTENDS Integers, Sequences, FiniteSets, TLC, SequencesExt

None == "none"            \* absent string argument
NoInt == -1               \* absent first/last

\* an item is [key |-> string, name |-> lower-case string, rank |-> Int]
HasSub(s, t) == \E i \in 1..(Len(s) - Len(t) + 1) : SubSeq(s, i, i + Len(t) - 1) = t
\* the default text filter: the (single, lower-case) token is a substring of a selected filter field
Matches(it, a) == a.filter = None \/ a.filter = "" \/ HasSub(it.name, a.filter)

\* lexicographic order on lower-case words
Ord(c) == CHOOSE i \in 1..26 : SubSeq("abcdefghijklmnopqrstuvwxyz", i, i) = c
RECURSIVE StrLess(_, _)
StrLess(a, b) == IF a = "" THEN b # ""
                 ELSE IF b = "" THEN FALSE
                 ELSE IF SubSeq(a, 1, 1) = SubSeq(b, 1, 1) THEN StrLess(SubSeq(a, 2, Len(a)), SubSeq(b, 2, Len(b)))
                 ELSE Ord(SubSeq(a, 1, 1)) < Ord(SubSeq(b, 1, 1))
\* does x sort strictly before y under arguments a
Less(x, y, a) == IF a.sortBy = "rank"
                 THEN (IF a.desc THEN x.rank > y.rank ELSE x.rank < y.rank)
                 ELSE (IF a.desc THEN StrLess(y.name, x.name) ELSE StrLess(x.name, y.name))
\* insertion AFTER all elements that are not greater: stable (ties keep their original order)
RECURSIVE InsertBy(_, _, _), SortBy(_, _)
InsertBy(x, s, a) ==
  IF s = <<>> THEN <<x>>
  ELSE IF Less(x, Head(s), a) THEN <<x>> \o s ELSE <<Head(s)>> \o InsertBy(x, Tail(s), a)
SortBy(s, a) == IF s = <<>> THEN <<>> ELSE InsertBy(s[Len(s)], SortBy(SubSeq(s, 1, Len(s) - 1), a), a)
Sorted(s, a) == IF a.sortBy = None THEN s ELSE SortBy(s, a)

IndexOf(s, key) == IF \E i \in DOMAIN s : s[i].key = key THEN CHOOSE i \in DOMAIN s : s[i].key = key ELSE 0

\* the connection thunder must return for list l and arguments a
\*   a = [first, last (NoInt = absent), after, before (None = absent), filter, sortBy, desc]
Page(l, a) ==
  LET f == SelectSeq(l, LAMBDA it : Matches(it, a))
      s == Sorted(f, a)
      ai == IF a.after = None THEN 0 ELSE IndexOf(s, a.after)
      s1 == IF ai > 0 THEN SubSeq(s, ai + 1, Len(s)) ELSE s
      bi1 == IF a.before = None THEN 0 ELSE IndexOf(s1, a.before)     \* position within what is left after `after`
      bi == IF a.before = None THEN 0 ELSE IndexOf(s, a.before)       \* position in the whole (filtered, sorted) list
      s2 == IF bi1 > 0 THEN SubSeq(s1, 1, bi1 - 1) ELSE s1
      cutFirst == a.first # NoInt /\ Len(s2) > a.first
      cutLast == a.last # NoInt /\ Len(s2) > a.last
      s3 == IF cutFirst THEN SubSeq(s2, 1, a.first)
            ELSE IF cutLast THEN SubSeq(s2, Len(s2) - a.last + 1, Len(s2)) ELSE s2
  IN [keys |-> [i \in DOMAIN s3 |-> s3[i].key],
      totalCount |-> Len(s),
      \* cut short by first, or elements exist beyond the element named by before
      hasNext |-> cutFirst \/ (bi1 > 0 /\ bi < Len(s)),
      \* cut short by last, or elements exist before the element named by after
      hasPrev |-> cutLast \/ (ai > 1),
      start |-> IF s3 = <<>> THEN "" ELSE s3[1].key,
      end |-> IF s3 = <<>> THEN "" ELSE s3[Len(s3)].key,
      \* before names an element that `after` has already removed: the statement does not say what hasNextPage is
      dontCareNext |-> a.before # None /\ bi > 0 /\ bi1 = 0]

NoArgs == [first |-> NoInt, last |-> NoInt, after |-> None, before |-> None, filter |-> None, sortBy |-> None, desc |-> FALSE]

\* walking forward with first/after from the returned cursors
RECURSIVE Forward(_, _, _, _)
Forward(l, a, cursor, fuel) ==
  LET p == Page(l, [a EXCEPT !.after = cursor]) IN
  IF fuel = 0 THEN <<"DIVERGES">>
  ELSE IF p.hasNext /\ p.keys # <<>> THEN p.keys \o Forward(l, a, p.end, fuel - 1) ELSE p.keys
RECURSIVE Backward(_, _, _, _)
Backward(l, a, cursor, fuel) ==
  LET p == Page(l, [a EXCEPT !.before = cursor]) IN
  IF fuel = 0 THEN <<"DIVERGES">>
  ELSE IF p.hasPrev /\ p.keys # <<>> THEN Backward(l, a, p.start, fuel - 1) \o p.keys ELSE p.keys
Expected(l, a) == LET s == Sorted(SelectSeq(l, LAMBDA it : Matches(it, a)), a) IN [i \in DOMAIN s |-> s[i].key]
\* theorems of the reference itself: pages are complete, ordered and disjoint
ForwardComplete(l, a, n) == Forward(l, [a EXCEPT !.first = n, !.last = NoInt, !.before = None], None, Len(l) + 2) = Expected(l, a)
BackwardComplete(l, a, n) == Backward(l, [a EXCEPT !.last = n, !.first = NoInt, !.after = None], None, Len(l) + 2) = Expected(l, a)
=============================================================================
