CONSTANTS
  PreCheck = TRUE
  MaxServices = 2
  MaxVersions = 2
  SmallUniverse = TRUE
INIT Init
NEXT Next
INVARIANTS MeetFoldAgrees JoinFoldAgrees ClosedOK ContainsOK Nullability EndToEndOK
CHECK_DEADLOCK FALSE
