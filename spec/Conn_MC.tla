------------------------------- MODULE Conn_MC -------------------------------
EXTENDS Conn
I2 == {"1", "2"}
I1 == {"1"}
Q3 == {"qa", "qbad", "qm"}
K(k, x) == Obj([f \in {"__key", "v"} |-> IF f = "__key" THEN JInt(k) ELSE JInt(x)])
\* results of qa over data versions: a keyed list that reorders, grows, shrinks; a field appearing; a failure
V0 == Obj([f \in {"items", "n"} |-> IF f = "n" THEN JInt(0) ELSE Arr(<<K(1, 0), K(2, 0)>>)])
V1 == Obj([f \in {"items", "n"} |-> IF f = "n" THEN JInt(0) ELSE Arr(<<K(2, 0), K(1, 1)>>)])
V2 == Obj([f \in {"items", "u"} |-> IF f = "u" THEN Null ELSE Arr(<<K(3, 0)>>)])
ResOK == [q \in Q3 |-> [v \in 0..2 |-> IF q = "qm" THEN EmptyObj ELSE CASE v = 0 -> V0 [] v = 1 -> V1 [] v = 2 -> V2]]
\* the resolver fails at version 1 (initially failing subscriptions, retries)
ResFail1 == [q \in Q3 |-> [v \in 0..2 |-> IF q = "qm" THEN EmptyObj ELSE CASE v = 0 -> V0 [] v = 1 -> Fail [] v = 2 -> V2]]
ResFail0 == [q \in Q3 |-> [v \in 0..2 |-> IF q = "qm" THEN EmptyObj ELSE CASE v = 0 -> Fail [] v = 1 -> V1 [] v = 2 -> V1]]
=============================================================================
