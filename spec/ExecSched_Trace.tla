-------------------------- MODULE ExecSched_Trace --------------------------
(* M2 for the executor's scheduling (part of C01 and C16): traces recorded from the real executor - the
   stock immediateGoroutineScheduler, or one of the harness schedulers, wrapped so that every resolver(u)
   call logs `start` before and `finish` (with the units it returned) after, plus the errorRecorder hooks
   `err.first` / `err.record` and the outcome of Execute - are checked against ExecSched.tla.  One line is
   one action; units are numbered per run in the order the tracer first sees them; runs are concatenated
   with `reset`.  The spec's wait group decides when `return` is allowed, so a Run that returns early, a
   unit run twice or never, a unit handed over twice, an error recorded outside a running unit, a later
   error replacing the first, and an Execute whose error is not the recorded one are all rejections. *)
EXTENDS Integers, Sequences, FiniteSets, TLC, Json, IOUtils

Trace == ndJsonDeserialize(IOEnv.TRACE)
MaxU == atoi(IOEnv.MAXU)
TU == 1..MaxU

VARIABLES st, wg, err, phase, nstart, l
S == INSTANCE ExecSched WITH Unit <- TU, AddBeforeSpawn <- TRUE, FirstWins <- TRUE

sv == <<st, wg, err, phase, nstart>>
tvars == <<st, wg, err, phase, nstart, l>>
Ev == Trace[l]
ToSet(s) == {s[i] : i \in 1..Len(s)}
IsEv(e) == l <= Len(Trace) /\ Ev.ev = e /\ l' = l + 1

TInit == S!SInit /\ l = 1 /\ TLCSet(1, 0)

TReset == /\ IsEv("reset")
          /\ st' = [u \in TU |-> "absent"] /\ wg' = 0 /\ err' = 0 /\ phase' = "idle"
          /\ nstart' = [u \in TU |-> 0]

TRun == IsEv("run") /\ Len(Ev.us) = Cardinality(ToSet(Ev.us)) /\ S!Run(ToSet(Ev.us))
TStart == IsEv("start") /\ S!Start(Ev.u)
TFinish == IsEv("finish") /\ Len(Ev.kids) = Cardinality(ToSet(Ev.kids)) /\ S!Finish(Ev.u, ToSet(Ev.kids))
TReturn == IsEv("return") /\ S!Return
\* sync.Once ran its function: nothing was recorded before, and this error is the one kept
TErrFirst == IsEv("errfirst") /\ err = 0 /\ S!RecordErr(Ev.e) /\ err' = Ev.e
\* record() returned: an error is recorded, and it is not changed by this call
TErrRec == IsEv("errrec") /\ err # 0 /\ (\E u \in TU : st[u] = "running") /\ UNCHANGED sv
\* Execute returned: after the scheduler has, with the recorded error or data if there is none
TOutcome == /\ IsEv("outcome")
            /\ \/ phase = "returned" /\ Ev.e = err
               \/ phase = "idle" /\ Ev.e = 999      \* refused before anything was scheduled
            /\ \A u \in TU : st[u] \in {"absent", "done"}
            /\ UNCHANGED sv
\* events of a run that arrived after its Execute had returned
TLate == IsEv("late") /\ Ev.n = 0 /\ UNCHANGED sv

TNext == TReset \/ TRun \/ TStart \/ TFinish \/ TReturn \/ TErrFirst \/ TErrRec \/ TOutcome \/ TLate
TSpec == TInit /\ [][TNext]_tvars

HW == TLCSet(1, IF TLCGet(1) < l THEN l ELSE TLCGet(1))
Accepted == IF TLCGet(1) = Len(Trace) + 1 THEN TRUE
            ELSE PrintT(<<"REJECTED_AT_LINE", TLCGet(1)>>) /\ FALSE

STypeOK == S!STypeOK
ReturnedQuiescent == S!ReturnedQuiescent
OnceEach == S!OnceEach
WgExact == S!WgExact
=============================================================================
