-------------------------------- MODULE Batch --------------------------------
(* batch.Func.Invoke (C05): concurrent callers are combined into groups, one   *)
(* per Func shard; the caller that creates a group (its leader) waits for a    *)
(* timer / MaxSize / cancellation, takes the group out of the pending map and  *)
(* runs Func.Many once for everybody.  One action per critical section of      *)
(* batch.go; the leader waking up (select) and taking the mutex again are      *)
(* separate steps - joiners can still arrive in between.                       *)
EXTENDS Integers, Sequences, FiniteSets, TLC

CONSTANTS Callers,      \* set of caller ids; each caller's argument is its own id
          ShardOf,      \* [Callers -> shard]
          MaxSize,      \* 0 = unlimited
          Outcomes,     \* what Func.Many may do: SUBSET {"ok","error","panic","short"}
          AllowCancel   \* contexts may be cancelled at any moment

None == "none"
NoG == 0                                 \* "no group"
Groups == 1..Cardinality(Callers)      \* a group id is allocated per leader

VARIABLES pending,     \* [shard -> Groups \cup {None}]   bctx.pendingBatchGroups
          gargs,       \* [Groups -> Seq(Callers)]        batchGroup.args
          gclosed,     \* [Groups -> BOOLEAN]             maxSizeCh closed
          gdone,       \* [Groups -> {"no","ok","error","panic","short","ctx"}]  doneCh closed, with what
          gremoved,    \* [Groups -> BOOLEAN]             leader went through its second mutex section
          pc,          \* [Callers -> {"start","lsel","lrem","lrun","jwait","ret","done"}]
          grp,         \* [Callers -> Groups \cup {0}]
          idx,         \* [Callers -> Nat]                index into args/result (1-based)
          cancelled,   \* [Callers -> BOOLEAN]
          ret,         \* [Callers -> result]
          many,        \* Seq([g |-> group, args |-> Seq(Callers)])   calls of Func.Many (history)
          nextG
vars == <<pending, gargs, gclosed, gdone, gremoved, pc, grp, idx, cancelled, ret, many, nextG>>

Shards == {ShardOf[c] : c \in Callers}

Init ==
  /\ pending = [s \in Shards |-> NoG]
  /\ gargs = [g \in Groups |-> <<>>]
  /\ gclosed = [g \in Groups |-> FALSE]
  /\ gdone = [g \in Groups |-> "no"]
  /\ gremoved = [g \in Groups |-> FALSE]
  /\ pc = [c \in Callers |-> "start"]
  /\ grp = [c \in Callers |-> 0]
  /\ idx = [c \in Callers |-> 0]
  /\ cancelled = [c \in Callers |-> FALSE]
  /\ ret = [c \in Callers |-> <<"none", "none">>]
  /\ many = <<>>
  /\ nextG = 1

\* first critical section: find or create the group, append the argument, close on MaxSize
Join(c) ==
  /\ pc[c] = "start"
  /\ LET s == ShardOf[c]
         existed == pending[s] # NoG
         g == IF existed THEN pending[s] ELSE nextG
         args2 == Append(gargs[g], c)
         full == MaxSize > 0 /\ Len(args2) = MaxSize IN
     /\ gargs' = [gargs EXCEPT ![g] = args2]
     /\ idx' = [idx EXCEPT ![c] = Len(args2)]
     /\ grp' = [grp EXCEPT ![c] = g]
     /\ gclosed' = [gclosed EXCEPT ![g] = @ \/ full]
     /\ pending' = [pending EXCEPT ![s] = IF full THEN NoG ELSE g]
     /\ nextG' = IF existed THEN nextG ELSE nextG + 1
     /\ pc' = [pc EXCEPT ![c] = IF existed THEN "jwait" ELSE "lsel"]
  /\ UNCHANGED <<gdone, gremoved, cancelled, ret, many>>

\* the leader's select returns: a timer fired (always possible), ctx cancelled, or MaxSize reached
LeaderWake(c) ==
  /\ pc[c] = "lsel"
  /\ pc' = [pc EXCEPT ![c] = "lrem"]
  /\ UNCHANGED <<pending, gargs, gclosed, gdone, gremoved, grp, idx, cancelled, ret, many, nextG>>

\* second critical section: nobody may join any more
LeaderRemove(c) ==
  /\ pc[c] = "lrem"
  /\ LET g == grp[c]  s == ShardOf[c] IN
     /\ pending' = [pending EXCEPT ![s] = IF @ = g THEN NoG ELSE @]
     /\ gremoved' = [gremoved EXCEPT ![g] = TRUE]
  /\ pc' = [pc EXCEPT ![c] = "lrun"]
  /\ UNCHANGED <<gargs, gclosed, gdone, grp, idx, cancelled, ret, many, nextG>>

\* Func.Many runs (or is skipped because the leader's context is cancelled), doneCh is closed
LeaderRun(c, o) ==
  /\ pc[c] = "lrun"
  /\ LET g == grp[c] IN
     IF cancelled[c] /\ o = "ctx"
     THEN /\ gdone' = [gdone EXCEPT ![g] = "ctx"] /\ UNCHANGED many
     ELSE /\ o \in Outcomes
          /\ gdone' = [gdone EXCEPT ![g] = o]
          /\ many' = Append(many, [g |-> g, args |-> gargs[g]])
  /\ pc' = [pc EXCEPT ![c] = "ret"]
  /\ UNCHANGED <<pending, gargs, gclosed, gremoved, grp, idx, cancelled, ret, nextG>>

JoinerWake(c) ==
  /\ pc[c] = "jwait" /\ gdone[grp[c]] # "no"
  /\ pc' = [pc EXCEPT ![c] = "ret"]
  /\ UNCHANGED <<pending, gargs, gclosed, gdone, gremoved, grp, idx, cancelled, ret, many, nextG>>

\* what Invoke must return to caller c given how its group ended: its own element or the error
Expected(c) == LET o == gdone[grp[c]] IN IF o = "ok" THEN <<"val", c>> ELSE <<"err", o>>
Return(c) ==
  /\ pc[c] = "ret"
  /\ ret' = [ret EXCEPT ![c] = Expected(c)]
  /\ pc' = [pc EXCEPT ![c] = "done"]
  /\ UNCHANGED <<pending, gargs, gclosed, gdone, gremoved, grp, idx, cancelled, many, nextG>>

Cancel(c) ==
  /\ AllowCancel /\ ~cancelled[c] /\ pc[c] # "done"
  /\ cancelled' = [cancelled EXCEPT ![c] = TRUE]
  /\ UNCHANGED <<pending, gargs, gclosed, gdone, gremoved, pc, grp, idx, ret, many, nextG>>

AllDone == \A c \in Callers : pc[c] = "done"
Next == \/ \E c \in Callers : Join(c) \/ LeaderWake(c) \/ LeaderRemove(c) \/ JoinerWake(c) \/ Return(c) \/ Cancel(c)
                              \/ \E o \in Outcomes \cup {"ctx"} : LeaderRun(c, o)
        \/ (AllDone /\ UNCHANGED vars)
Spec == Init /\ [][Next]_vars
FairSpec == Spec /\ \A c \in Callers : WF_vars(Join(c) \/ LeaderWake(c) \/ LeaderRemove(c) \/ JoinerWake(c) \/ Return(c)
                                               \/ \E o \in Outcomes \cup {"ctx"} : LeaderRun(c, o))

-----------------------------------------------------------------------------
SizeBound == \A g \in Groups : MaxSize > 0 => Len(gargs[g]) <= MaxSize
NoShardMix == \A g \in Groups : \A i, j \in DOMAIN gargs[g] : ShardOf[gargs[g][i]] = ShardOf[gargs[g][j]]
\* every argument is handed to Func.Many at most once, at the position its caller remembers
Occurrences(c) == {<<k, i>> \in (DOMAIN many) \X (1..Cardinality(Callers)) : i \in DOMAIN many[k].args /\ many[k].args[i] = c}
AtMostOnce == \A c \in Callers : /\ Cardinality(Occurrences(c)) <= 1
                                 /\ \A p \in Occurrences(c) : p[2] = idx[c] /\ many[p[1]].g = grp[c]
\* exactly once unless the (leader's) context was cancelled first
ExactlyOnceUnlessCancelled ==
  \A c \in Callers : pc[c] \in {"ret", "done"} => (Cardinality(Occurrences(c)) = 1 \/ gdone[grp[c]] = "ctx")
\* each call returns the element of the batch result that belongs to its own argument, or the batch's error
OwnResult == \A c \in Callers : pc[c] = "done" => ret[c] = Expected(c)
\* once the leader is past its second critical section the group is closed for joiners
NoJoinAfterRemove == [][\A g \in Groups : gremoved[g] => gargs'[g] = gargs[g]]_vars
\* Many sees the complete group
ManyGetsAll == \A k \in DOMAIN many : many[k].args = gargs[many[k].g]
\* every call returns (FairSpec)
AllReturn == <>AllDone
=============================================================================
