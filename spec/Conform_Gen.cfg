INIT Init
NEXT Next
INVARIANT ValidAsIntended
CHECK_DEADLOCK FALSE
