----------------------------- MODULE Reactive_MC -----------------------------
(* Model-checking instances of Reactive.tla: the dependency shapes C04/C08    *)
(* quantify over, each as a small program for the compute functions.          *)
EXTENDS Reactive

Dyn8 == <<"n1", "n2", "n3", "n4", "n5", "n6", "n7", "n8">>
Dyn12 == <<"n1", "n2", "n3", "n4", "n5", "n6", "n7", "n8", "n9", "n10", "n11", "n12">>
Dyn16 == <<"n1", "n2", "n3", "n4", "n5", "n6", "n7", "n8", "n9", "n10", "n11", "n12", "n13", "n14", "n15", "n16">>
NoBody == [k \in {} |-> <<>>]
Spawn1 == [r \in {"R1"} |-> TRUE]
Inline1 == [r \in {"R1"} |-> FALSE]
Inline2 == [r \in {"R1", "R2"} |-> FALSE]

\* A: one rerunner reading two long-lived (strobed) resources directly
ProgA == [r \in {"R1"} |-> <<Dep("r1"), Dep("r2")>>]
\* A1: one resource
ProgA1 == [r \in {"R1"} |-> <<Dep("r1")>>]
\* B: two rerunners sharing one resource
ProgB == [r \in {"R1", "R2"} |-> <<Dep("r1")>>]
\* C: two cached sub-computations, each registering a per-run resource (the livesql shape)
ProgC == [r \in {"R1"} |-> <<Cached("k1"), Cached("k2")>>]
BodyC == [k \in {"k1", "k2"} |-> IF k = "k1" THEN <<Fresh("s1")>> ELSE <<Fresh("s2")>>]
\* C1: one cached sub-computation over a per-run resource
ProgC1 == [r \in {"R1"} |-> <<Cached("k1")>>]
BodyC1 == [k \in {"k1"} |-> <<Fresh("s1")>>]
\* D: parent reads r1 directly and a cached child that reads r1 (shared) and r2
ProgD == [r \in {"R1"} |-> <<Dep("r1"), Cached("k1")>>]
BodyD == [k \in {"k1"} |-> <<Dep("r1"), Dep("r2")>>]
\* E: cache purged in the middle of the compute function
ProgE == [r \in {"R1"} |-> <<Cached("k1"), Purge, Cached("k1")>>]
\* F: a direct per-run resource (InvalidateAfter shape: the slot is the timer)
ProgF == [r \in {"R1"} |-> <<Fresh("s1"), Dep("r1")>>]
=============================================================================
