------------------------------- MODULE SqlLimit -------------------------------
(* C12: a shard-limited DB handle can never read or write outside its shard.    *)
(*                                                                            *)
(* What "confined" means for a statement (shared by the model and by the trace  *)
(* judge, which applies it to the statements the fake driver really received):  *)
(*   read   (SELECT / COUNT): there is a WHERE and EVERY disjunct pins every     *)
(*          limit column to the limit value (`c = v` or `c IN (v, ..)` with      *)
(*          nothing but v);                                                      *)
(*   insert / upsert: every written row has every limit column = limit value;    *)
(*   update: the statement carries the limit values (SET or WHERE);              *)
(*   delete: the WHERE pins every limit column.                                  *)
(* and what the headline means for the table: rows whose limit columns differ    *)
(* from the limit are neither returned nor changed, and none is created.         *)
EXTENDS Integers, Sequences, FiniteSets, TLC

Rng(s) == {s[i] : i \in DOMAIN s}

\* ---- statements: [kind, hasw, where : Seq(Seq([col, op, vals : Seq])), rows : Seq(col -> val)]
Pins(conj, c, v) == \E i \in DOMAIN conj : conj[i].col = c /\ conj[i].op \in {"eq", "in"} /\ Rng(conj[i].vals) = {v}
WherePins(st, L) == st.hasw /\ st.where # <<>> /\ \A d \in DOMAIN st.where : \A c \in DOMAIN L : Pins(st.where[d], c, L[c])
RowsCarry(st, L) == \A i \in DOMAIN st.rows : \A c \in DOMAIN L : c \in DOMAIN st.rows[i] /\ st.rows[i][c] = L[c]
Confined(st, L) ==
  CASE st.kind \in {"select", "count"} -> WherePins(st, L)
    [] st.kind \in {"insert", "upsert"} -> st.rows # <<>> /\ RowsCarry(st, L)
    [] st.kind = "update" -> (st.rows # <<>> /\ RowsCarry(st, L)) \/ WherePins(st, L)
    [] st.kind = "delete" -> WherePins(st, L)
    [] OTHER -> FALSE

\* ---- tables: sets of rows (records); InShard by the limit columns
InShard(r, L) == \A c \in DOMAIN L : r[c] = L[c]
Outside(T, L) == {r \in T : ~InShard(r, L)}
\* rows outside the shard are neither changed nor created
OutsideUntouched(before, after, L) == Outside(before, L) = Outside(after, L)
=============================================================================
