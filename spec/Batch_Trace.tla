------------------------------ MODULE Batch_Trace ------------------------------
(* M2 for C05: validates traces of the real batch.Func.Invoke against Batch.tla. *)
(* Every event names the caller and the group and carries what the code saw     *)
(* under bctx.mu (index, existed, length, still pending), what Func.Many was    *)
(* given, how the group ended and what Invoke returned.                          *)
EXTENDS Batch, Json, IOUtils

Trace == ndJsonDeserialize(IOEnv.TRACE)
C6 == {"c1", "c2", "c3", "c4", "c5", "c6"}
Shard6 == [c \in C6 |-> IF c \in {"c4", "c5"} THEN "s2" ELSE "s1"]
\* "-1": the caller wrote "no limit" as the largest int (any number no batch reaches will do here)
MaxSizeEnv == IF IOEnv.MAXSIZE = "-1" THEN 1000000 ELSE CHOOSE n \in 0..9 : ToString(n) = IOEnv.MAXSIZE

VARIABLE l
tvars == <<vars, l>>
Ev == Trace[l]
IsEv(e) == l <= Len(Trace) /\ Ev.ev = e /\ l' = l + 1

TInit == Init /\ l = 1 /\ TLCSet(1, 0)
TReset ==
  /\ IsEv("reset")
  /\ pending' = [s \in Shards |-> NoG]
  /\ gargs' = [g \in Groups |-> <<>>]
  /\ gclosed' = [g \in Groups |-> FALSE]
  /\ gdone' = [g \in Groups |-> "no"]
  /\ gremoved' = [g \in Groups |-> FALSE]
  /\ pc' = [c \in Callers |-> "start"]
  /\ grp' = [c \in Callers |-> 0]
  /\ idx' = [c \in Callers |-> 0]
  /\ cancelled' = [c \in Callers |-> FALSE]
  /\ ret' = [c \in Callers |-> <<"none", "none">>]
  /\ many' = <<>>
  /\ nextG' = 1

TJoin == /\ IsEv("join") /\ Join(Ev.c) /\ ~gremoved[Ev.g]       \* never into a group its leader has closed
         /\ grp'[Ev.c] = Ev.g /\ idx'[Ev.c] = Ev.idx /\ Len(gargs'[Ev.g]) = Ev.len
         /\ (pc'[Ev.c] = "jwait") = Ev.existed
         /\ (pending'[ShardOf[Ev.c]] = Ev.g) = Ev.pend
TWoke == IsEv("woke") /\ LeaderWake(Ev.c) /\ grp[Ev.c] = Ev.g
TRemoved == IsEv("removed") /\ LeaderRemove(Ev.c) /\ grp[Ev.c] = Ev.g
TDone == /\ IsEv("done") /\ grp[Ev.c] = Ev.g
         /\ IF Ev.kind = "many"
            THEN /\ LeaderRun(Ev.c, Ev.o) /\ Ev.o # "ctx"
                 /\ many'[Len(many')].args = Ev.args          \* Func.Many was handed exactly the group's arguments
            ELSE LeaderRun(Ev.c, "ctx") /\ Ev.o = "ctx" /\ cancelled[Ev.c]
\* Invoke returns: for a joiner this includes waking up on doneCh
TRet == /\ IsEv("ret")
        /\ LET c == Ev.c IN
           /\ pc[c] \in {"ret", "jwait"}
           /\ pc[c] = "jwait" => gdone[grp[c]] # "no"
           /\ Expected(c) = <<Ev.kind, Ev.v>>
           /\ ret' = [ret EXCEPT ![c] = Expected(c)]
           /\ pc' = [pc EXCEPT ![c] = "done"]
           /\ UNCHANGED <<pending, gargs, gclosed, gdone, gremoved, grp, idx, cancelled, many, nextG>>
TCancel == IsEv("cancel") /\ (IF cancelled[Ev.c] \/ pc[Ev.c] = "done" THEN UNCHANGED vars ELSE Cancel(Ev.c))
\* every caller that started has returned
TEnd == IsEv("end") /\ (\A c \in Callers : pc[c] \in {"start", "done"}) /\ UNCHANGED vars

TNext == TReset \/ TJoin \/ TWoke \/ TRemoved \/ TDone \/ TRet \/ TCancel \/ TEnd
TSpec == TInit /\ [][TNext]_tvars
HW == TLCSet(1, IF TLCGet(1) < l THEN l ELSE TLCGet(1))
Accepted == IF TLCGet(1) = Len(Trace) + 1 THEN TRUE
            ELSE PrintT(<<"REJECTED_AT_LINE", TLCGet(1)>>) /\ FALSE
=============================================================================
