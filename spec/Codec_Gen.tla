------------------------------ MODULE Codec_Gen ------------------------------
(* M5 for C13: the full (column, value class, source form) matrix. *)
EXTENDS Codec
ASSUME ndJsonSerialize(IOEnv.OUT, SetToSeq(Cases))
VARIABLE c
Init == c \in Cases
Next == UNCHANGED c
\* every column is exercised with at least two value classes and its native form
WellFormed == \A i \in DOMAIN Cols : Cardinality(Rng(Cols[i].vals)) >= 2 /\ "native" \in Rng(Cols[i].forms)
=============================================================================
