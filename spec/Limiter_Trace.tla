---------------------------- MODULE Limiter_Trace ----------------------------
(* M2 for C20: validates traces recorded from the real concurrencylimiter      *)
(* package (driven one protocol step at a time by harness/drv/c20) against     *)
(* Limiter.tla.  Every line is one step of one goroutine; the line names the   *)
(* point the goroutine reached, which determines the spec action, and carries  *)
(* the real len(ch) and the real holder.status, which must equal the spec's.   *)
(* All invariants of Limiter.tla are evaluated on the validated states.        *)
EXTENDS Limiter, Json, IOUtils

Trace == ndJsonDeserialize(IOEnv.TRACE)
VARIABLE l
tvars == <<vars, l>>
Ev == Trace[l]

StCode(s) == CASE s = "none" -> -1 [] s = "acq" -> 0 [] s = "blk" -> 1 [] s = "rel" -> 2

TInit ==
  /\ l = 1 /\ TLCSet(1, 0)
  /\ ch = 0
  /\ status = [g \in G |-> "none"]
  /\ hasH = [g \in G |-> FALSE]
  /\ noLim = [g \in G |-> FALSE]
  /\ cancelled = [g \in G |-> FALSE]
  /\ stk = [g \in G |-> <<Frame("base", "start", FALSE)>>]
  /\ calls = [g \in G |-> 0]
  /\ side = [g \in G |-> "idle"]
  /\ scalls = [g \in G |-> 0]

IsEv(e, t, cmd) == l <= Len(Trace) /\ Ev.ev = e /\ Ev.t = t /\ Ev.cmd = cmd /\ l' = l + 1
\* the logged real state must be the spec's state after the step
Post(g) == ch' = Ev.chlen /\ StCode(status'[g]) = Ev.st
TopIs(g, k, pc) == stk'[g][1].k = k /\ stk'[g][1].pc = pc

TReset ==
  /\ l <= Len(Trace) /\ Ev.ev = "reset" /\ l' = l + 1
  /\ ch' = 0
  /\ status' = [g \in G |-> "none"]
  /\ hasH' = [g \in G |-> FALSE]
  /\ noLim' = [g \in G |-> Ev.nolim[g]]
  /\ cancelled' = [g \in G |-> FALSE]
  /\ stk' = [g \in G |-> <<Frame("base", "start", FALSE)>>]
  /\ calls' = [g \in G |-> 0]
  /\ side' = [g \in G |-> "idle"]
  /\ scalls' = [g \in G |-> 0]

TCancel == l <= Len(Trace) /\ Ev.ev = "cancel" /\ l' = l + 1 /\ Cancel(Ev.g) /\ ~cancelled[Ev.g]
TEnd == l <= Len(Trace) /\ Ev.ev = "end" /\ l' = l + 1 /\ AllDone /\ ch = Ev.chlen /\ UNCHANGED vars

TMain(g) ==
  \/ IsEv("acquire.try", "m", "acquire") /\ CallAcquire(g) /\ TopIs(g, "base", "try") /\ Post(g)
  \/ IsEv("ret.acquire", "m", "acquire") /\ CallAcquire(g) /\ TopIs(g, "base", "top") /\ ~Ev.got /\ Post(g)
  \/ IsEv("ret.acquire", "m", "") /\ Ev.got /\ AcqSend(g) /\ Post(g)
  \/ IsEv("ret.acquire", "m", "") /\ ~Ev.got /\ AcqCancelled(g) /\ Post(g)
  \/ IsEv("release.swapped", "m", "release") /\ RelSwap(g) /\ TopIs(g, "rel", "recv") /\ Post(g)
  \/ IsEv("ret.release", "m", "release") /\ RelSwap(g) /\ stk'[g] = stk[g] /\ Post(g)
  \/ IsEv("ret.release", "m", "") /\ RelRecv(g) /\ Post(g)
  \/ IsEv("block.cas", "m", "tr") /\ BlkCas(g) /\ TopIs(g, "tr", "recv") /\ Post(g)
  \/ IsEv("f.enter", "m", "tr") /\ BlkCas(g) /\ TopIs(g, "tr", "inF") /\ Post(g)
  \/ IsEv("f.enter", "m", "") /\ BlkRecv(g) /\ Post(g)
  \/ IsEv("ret.tr", "m", "fret") /\ ReturnF(g) /\ Len(stk'[g]) < Len(stk[g]) /\ Post(g)
  \/ IsEv("unblock.cas", "m", "fret") /\ Protocol = "cas_first" /\ ReturnF(g) /\ TopIs(g, "tr", "usend") /\ Post(g)
  \/ IsEv("unblock.send", "m", "fret") /\ Protocol = "send_first" /\ ReturnF(g) /\ TopIs(g, "tr", "usend") /\ Post(g)
  \/ IsEv("ret.tr", "m", "") /\ Protocol = "cas_first" /\ UnblkSend(g) /\ Post(g)
  \/ IsEv("unblock.sent", "m", "") /\ Protocol = "send_first" /\ UnblkSend(g) /\ Post(g)
  \/ IsEv("ret.tr", "m", "") /\ UnblkCas(g) /\ Len(stk'[g]) < Len(stk[g]) /\ Post(g)
  \/ IsEv("unblock.giveback", "m", "") /\ UnblkCas(g) /\ TopIs(g, "tr", "ugive") /\ Post(g)
  \/ IsEv("ret.tr", "m", "") /\ UnblkGive(g) /\ Post(g)
  \/ IsEv("finished", "m", "finish") /\ Finish(g) /\ Post(g)

TSide(g) ==
  \/ IsEv("release.swapped", "s", "release") /\ SideRelSwap(g) /\ side'[g] = "recv" /\ Post(g)
  \/ IsEv("ret.release", "s", "release") /\ SideRelSwap(g) /\ side'[g] = "idle" /\ Post(g)
  \/ IsEv("ret.release", "s", "") /\ SideRelRecv(g) /\ Post(g)

\* the driver resumed a goroutine whose next step is a send on the full channel and it stayed blocked for 15 ms:
\* the specification agrees that every spot is taken and that no step of that goroutine is enabled
TProbe == /\ l <= Len(Trace) /\ Ev.ev = "probe.blocked" /\ l' = l + 1
          /\ ch = N /\ ch = Ev.chlen
          /\ ~ENABLED MainStep(Ev.g)
          /\ UNCHANGED vars

TNext == TReset \/ TCancel \/ TEnd \/ TProbe
         \/ (l <= Len(Trace) /\ Ev.ev \notin {"reset", "cancel", "end", "probe.blocked"} /\ (TMain(Ev.g) \/ TSide(Ev.g)))
TSpec == TInit /\ [][TNext]_tvars

HW == TLCSet(1, IF TLCGet(1) < l THEN l ELSE TLCGet(1))
Accepted == IF TLCGet(1) = Len(Trace) + 1 THEN TRUE
            ELSE PrintT(<<"REJECTED_AT_LINE", TLCGet(1)>>) /\ FALSE
=============================================================================
