CONSTANTS
  RR = {"R1","R2"}
  Res = {"r1"}
  FSlots = {}
  Dyn <- Dyn40
  Keys = {}
  Prog <- ProgB
  Body <- NoBody
  AlwaysSpawn <- SpawnFromEnv
  MaxBump = 1000
  MaxFail = 1000
  MaxTasks = 1000
  StopAllowed = {"R1","R2"}
  MaxStops = 3
  ParentCancelAllowed = {"R1","R2"}
  StopWaits = TRUE
SPECIFICATION TSpec
CONSTRAINT HW
INVARIANTS NoOverlap StopFinal FreshAtQuiescence CleanupAtMostOnce NoCleanupWhileLive CleanupExactlyOnceAtQuiescence TrackerExact
POSTCONDITION Accepted
CHECK_DEADLOCK FALSE
