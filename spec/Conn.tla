--------------------------------- MODULE Conn ---------------------------------
(* One websocket connection of thunder's live-query server (graphql/server.go): *)
(* properties C02 (subscriptions converge) and C17 (connection lifecycle), and   *)
(* the websocket half of C16.                                                    *)
(*                                                                               *)
(* Every accepted subscribe/mutate message creates an INSTANCE with its own      *)
(* rerunner.  The rerunner is abstracted to what reactive guarantees (C04): an   *)
(* instance is scheduled / running / idle; a data change after it read the data  *)
(* makes it run again; Stop waits for a running computation and is final.        *)
(* The steps of server.go are kept separate where they interleave: the reader    *)
(* handling a message under c.mu, a run reading the data, a run finishing        *)
(* (diff against previous, write, previous := current), the asynchronous         *)
(* `go c.closeSubscription(id)` a failing or finished run leaves behind, and     *)
(* closeSubscriptions when the socket closes.                                    *)
EXTENDS DiffMerge

CONSTANTS Ids,          \* subscription ids a client may use
          Queries,      \* query texts (abstract names)
          BadQueries,   \* subset of Queries that fail to parse / validate
          MutQueries,   \* subset of Queries that are mutations: running one changes the data
          Res,          \* [Queries -> [0..MaxVer -> value | "FAIL"]]  result of a query at a data version
          MaxVer, MaxInst, MaxSubs,
          AllowCtxCancel, \* the environment may cancel the connection's context (model-checking scope switch)
          CloseSelfOnly \* TRUE: an instance's asynchronous close only ever closes that instance (current code)
                        \* FALSE: it closes whatever is registered under the id by then (the original code)

Fail == [k |-> "FAIL"]
Nil == [k |-> "nil"]                 \* Go nil `previous`: the first diff is a full replacement
Nothing == [k |-> "u"]               \* the client's state before the first update (JavaScript undefined)
Inst == 1..MaxInst

VARIABLES
  subs,       \* [Ids -> 0..MaxInst]  c.subscriptions (0 = no entry)
  ist,        \* [Inst -> {"unused","sched","run","idle","ended"}]
  iid, ikind, iq,   \* id, "sub" | "mut", query of an instance
  iinit,      \* [Inst -> BOOLEAN]  the `initial` flag of the closure
  iprev,      \* [Inst -> value]    the `previous` variable of the closure
  iread,      \* [Inst -> -1..MaxVer]  data version the current/last run read (-1: not yet)
  ipend,      \* [Inst -> BOOLEAN]  data changed after the read of the current run
  data,       \* 0..MaxVer  current data version
  client,     \* [Ids -> value]  what a client that folds every update of the id holds
  gotFirst,   \* [Ids -> BOOLEAN] client has received an update since its (latest) subscribe
  closeQ,     \* bag of pending asynchronous closes: [<<id, inst>> -> count]
  logq,       \* Seq(<<"sub"|"unsub", id, kind>>)  calls of the SubscriptionLogger; kind (ghost) = what the
              \* closed instance was: a mutation's close also calls Unsubscribe although it never subscribed
  closed,     \* socket closed and closeSubscriptions done
  ended,      \* [Inst -> Nat]  how often the instance was ended (ghost)
  unsubbed,   \* [Ids -> BOOLEAN]  an unsubscribe for the id was processed and no subscribe accepted since (ghost)
  lateWrite,  \* an update was written for an id in state unsubbed (ghost)
  believes,   \* [Ids -> BOOLEAN]  the client has every reason to believe it is subscribed under this id: its
              \* subscribe was accepted and it has neither unsubscribed nor been sent an error for the id (ghost)
  ctxc,       \* the connection's context has been cancelled: no computation completes normally any more (ghost/env)
  cause,      \* [Inst -> why the instance ended: "unsub" | "self" | "close" | "stale" | "none"] (ghost)
  nextInst, msgs
vars == <<subs, ist, iid, ikind, iq, iinit, iprev, iread, ipend, data, client, gotFirst, closeQ, logq, closed,
          ended, unsubbed, lateWrite, believes, cause, nextInst, msgs, ctxc>>

BAdd(b, x) == IF x \in DOMAIN b THEN [b EXCEPT ![x] = @ + 1] ELSE b @@ (x :> 1)
BRem(b, x) == IF b[x] = 1 THEN [y \in DOMAIN b \ {x} |-> b[y]] ELSE [b EXCEPT ![x] = @ - 1]

Init ==
  /\ subs = [i \in Ids |-> 0]
  /\ ist = [i \in Inst |-> "unused"] /\ iid = [i \in Inst |-> "none"] /\ ikind = [i \in Inst |-> "sub"]
  /\ iq = [i \in Inst |-> "none"] /\ iinit = [i \in Inst |-> TRUE] /\ iprev = [i \in Inst |-> Nil]
  /\ iread = [i \in Inst |-> -1] /\ ipend = [i \in Inst |-> FALSE]
  /\ data = 0
  /\ client = [i \in Ids |-> Nothing] /\ gotFirst = [i \in Ids |-> FALSE]
  /\ closeQ = <<>> /\ logq = <<>> /\ closed = FALSE
  /\ ended = [i \in Inst |-> 0] /\ unsubbed = [i \in Ids |-> FALSE] /\ lateWrite = FALSE
  /\ believes = [i \in Ids |-> FALSE] /\ cause = [i \in Inst |-> "none"]
  /\ nextInst = 1 /\ msgs = 0 /\ ctxc = FALSE

Live(i) == ist[i] \in {"sched", "run", "idle"}
NumSubs == Cardinality({id \in Ids : subs[id] # 0})

\* rerunner.Stop() under c.mu: waits for a running computation, then the instance is over
CanStop(i) == ist[i] # "run"
StopInst(i, why) == /\ ist' = [ist EXCEPT ![i] = "ended"]
                    /\ ended' = [ended EXCEPT ![i] = IF Live(i) THEN @ + 1 ELSE @]
                    /\ cause' = [cause EXCEPT ![i] = IF Live(i) THEN why ELSE @]

-----------------------------------------------------------------------------
\* the reader goroutine: one inbound message at a time

\* subscribe accepted: logger.Subscribe, new rerunner registered under the id
RecvSubscribe(id, q) ==
  /\ ~closed /\ subs[id] = 0 /\ NumSubs + 1 <= MaxSubs /\ q \notin BadQueries /\ q \notin MutQueries
  /\ nextInst <= MaxInst
  /\ LET i == nextInst IN
     /\ subs' = [subs EXCEPT ![id] = i]
     /\ ist' = [ist EXCEPT ![i] = "sched"] /\ iid' = [iid EXCEPT ![i] = id] /\ ikind' = [ikind EXCEPT ![i] = "sub"]
     /\ iq' = [iq EXCEPT ![i] = q]
     /\ nextInst' = i + 1
  /\ logq' = Append(logq, <<"sub", id, "sub">>)
  /\ client' = [client EXCEPT ![id] = Nothing] /\ gotFirst' = [gotFirst EXCEPT ![id] = FALSE]
  /\ unsubbed' = [unsubbed EXCEPT ![id] = FALSE]
  /\ believes' = [believes EXCEPT ![id] = TRUE]
  /\ msgs' = msgs + 1
  /\ UNCHANGED <<iinit, iprev, iread, ipend, data, closeQ, closed, ended, lateWrite, cause, ctxc>>

\* subscribe rejected (duplicate id, too many subscriptions, bad query): one error envelope, nothing else changes
RecvSubscribeRejected(id, q) ==
  /\ ~closed /\ (subs[id] # 0 \/ NumSubs + 1 > MaxSubs \/ q \in BadQueries)
  /\ msgs' = msgs + 1
  /\ UNCHANGED <<subs, ist, iid, ikind, iq, iinit, iprev, iread, ipend, data, client, gotFirst, closeQ, logq, closed,
                 ended, unsubbed, lateWrite, believes, cause, nextInst, ctxc>>

\* unsubscribe: closeSubscription(id) on the reader goroutine
RecvUnsubscribe(id) ==
  /\ ~closed
  /\ IF subs[id] = 0 THEN UNCHANGED <<subs, ist, ended, logq, cause>>
     ELSE /\ CanStop(subs[id]) /\ StopInst(subs[id], "unsub")
          /\ subs' = [subs EXCEPT ![id] = 0]
          /\ logq' = Append(logq, <<"unsub", id, ikind[subs[id]]>>)
  /\ unsubbed' = [unsubbed EXCEPT ![id] = TRUE]
  /\ believes' = [believes EXCEPT ![id] = FALSE]
  /\ msgs' = msgs + 1
  /\ UNCHANGED <<iid, ikind, iq, iinit, iprev, iread, ipend, data, client, gotFirst, closeQ, closed, lateWrite, nextInst, ctxc>>

\* mutate accepted: a one-shot rerunner registered under the id (duplicate ids are rejected like for subscribe)
RecvMutate(id, q) ==
  /\ ~closed /\ subs[id] = 0 /\ q \in MutQueries /\ q \notin BadQueries
  /\ nextInst <= MaxInst
  /\ LET i == nextInst IN
     /\ subs' = [subs EXCEPT ![id] = i]
     /\ ist' = [ist EXCEPT ![i] = "sched"] /\ iid' = [iid EXCEPT ![i] = id] /\ ikind' = [ikind EXCEPT ![i] = "mut"]
     /\ iq' = [iq EXCEPT ![i] = q]
     /\ nextInst' = i + 1
  /\ msgs' = msgs + 1
  /\ UNCHANGED <<iinit, iprev, iread, ipend, data, client, gotFirst, closeQ, logq, closed, ended, unsubbed, lateWrite, believes, cause, ctxc>>

RecvMutateRejected(id, q) ==
  /\ ~closed /\ q \in MutQueries /\ (subs[id] # 0 \/ q \in BadQueries)
  /\ msgs' = msgs + 1
  /\ UNCHANGED <<subs, ist, iid, ikind, iq, iinit, iprev, iread, ipend, data, client, gotFirst, closeQ, logq, closed,
                 ended, unsubbed, lateWrite, believes, cause, nextInst, ctxc>>

\* the socket fails / the client goes away: closeSubscriptions stops and un-logs everything registered
SocketClose ==
  /\ ~closed
  /\ \A id \in Ids : subs[id] # 0 => CanStop(subs[id])
  /\ LET live == {subs[id] : id \in {x \in Ids : subs[x] # 0}} IN
     /\ ist' = [i \in Inst |-> IF i \in live THEN "ended" ELSE ist[i]]
     /\ ended' = [i \in Inst |-> IF i \in live /\ Live(i) THEN ended[i] + 1 ELSE ended[i]]
     /\ cause' = [i \in Inst |-> IF i \in live /\ Live(i) THEN "close" ELSE cause[i]]
     /\ logq' = logq \o SetToSeq({<<"unsub", id, ikind[subs[id]]>> : id \in {x \in Ids : subs[x] # 0}})
  /\ subs' = [id \in Ids |-> 0]
  /\ closed' = TRUE
  /\ believes' = [id \in Ids |-> FALSE]
  /\ UNCHANGED <<iid, ikind, iq, iinit, iprev, iread, ipend, data, client, gotFirst, closeQ, unsubbed, lateWrite, nextInst, msgs, ctxc>>

-----------------------------------------------------------------------------
\* the rerunner goroutines

RunStart(i) ==
  /\ ist[i] = "sched"
  /\ ist' = [ist EXCEPT ![i] = "run"]
  /\ iread' = [iread EXCEPT ![i] = -1] /\ ipend' = [ipend EXCEPT ![i] = FALSE]
  /\ UNCHANGED <<subs, iid, ikind, iq, iinit, iprev, data, client, gotFirst, closeQ, logq, closed, ended, unsubbed, lateWrite, believes, cause, nextInst, msgs, ctxc>>

\* the resolvers register their dependencies and read the data
RunRead(i) ==
  /\ ist[i] = "run" /\ ikind[i] = "sub" /\ iread[i] = -1
  /\ iread' = [iread EXCEPT ![i] = data]
  /\ UNCHANGED <<subs, ist, iid, ikind, iq, iinit, iprev, ipend, data, client, gotFirst, closeQ, logq, closed, ended, unsubbed, lateWrite, believes, cause, nextInst, msgs, ctxc>>

\* what the client of id holds after delta d
Apply(id, d) == IF d = NoDiff THEN client[id] ELSE Norm(ClientMerge(client[id], d))

\* a subscription run succeeds: diff against previous, write the update, previous := current
SubRunOK(i) ==
  /\ ist[i] = "run" /\ ikind[i] = "sub" /\ iread[i] >= 0
  /\ LET id == iid[i]
         cur == Res[iq[i]][iread[i]]
         d == Diff(iprev[i], cur)
         wrote == d # NoDiff \/ iinit[i] IN
     /\ cur # Fail
     /\ client' = [client EXCEPT ![id] = IF d # NoDiff THEN Apply(id, d) ELSE IF iinit[i] /\ client[id] = Nothing THEN EmptyObj ELSE @]
     /\ gotFirst' = [gotFirst EXCEPT ![id] = @ \/ wrote]
     /\ lateWrite' = (lateWrite \/ (wrote /\ unsubbed[id]))
     /\ iprev' = [iprev EXCEPT ![i] = cur]
     /\ iinit' = [iinit EXCEPT ![i] = FALSE]
     /\ ist' = [ist EXCEPT ![i] = IF ipend[i] THEN "sched" ELSE "idle"]
  /\ UNCHANGED <<subs, iid, ikind, iq, iread, ipend, data, closeQ, logq, closed, ended, unsubbed, believes, cause, nextInst, msgs, ctxc>>

\* a subscription run fails: the first run reports the error once and closes itself asynchronously;
\* a later run is retried silently (the client keeps its last value)
SubRunFail(i) ==
  /\ ist[i] = "run" /\ ikind[i] = "sub" /\ iread[i] >= 0
  /\ Res[iq[i]][iread[i]] = Fail
  /\ IF iinit[i]
     THEN /\ ist' = [ist EXCEPT ![i] = "ended"]
          /\ ended' = [ended EXCEPT ![i] = @ + 1]
          /\ cause' = [cause EXCEPT ![i] = "self"]
          /\ closeQ' = BAdd(closeQ, <<iid[i], i>>)
          /\ believes' = [believes EXCEPT ![iid[i]] = IF subs[iid[i]] = i THEN FALSE ELSE @]     \* the error envelope
     ELSE /\ ist' = [ist EXCEPT ![i] = "sched"]           \* RetrySentinelError: run again later
          /\ UNCHANGED <<ended, closeQ, believes, cause>>
  /\ UNCHANGED <<subs, iid, ikind, iq, iinit, iprev, iread, ipend, data, client, gotFirst, logq, closed, unsubbed, lateWrite, nextInst, msgs, ctxc>>

\* a run fails with a cancelled-context error because the connection's context was cancelled while a
\* resolver was at work: nothing is written, the instance is over and closes itself asynchronously.
\* (A resolver that returns a cancelled-context error of its own while the connection is fine is outside the
\* model: thunder ends such a subscription without telling the client.)
SubRunCancelled(i) ==
  /\ ist[i] = "run" /\ ikind[i] = "sub" /\ ctxc
  /\ ist' = [ist EXCEPT ![i] = "ended"]
  /\ ended' = [ended EXCEPT ![i] = @ + 1]
  /\ cause' = [cause EXCEPT ![i] = "self"]
  /\ closeQ' = BAdd(closeQ, <<iid[i], i>>)
  /\ UNCHANGED <<subs, iid, ikind, iq, iinit, iprev, iread, ipend, data, client, gotFirst, logq, closed, unsubbed, lateWrite, believes, nextInst, msgs, ctxc>>

\* the connection's context is cancelled (the server is shutting the connection down; the socket is still open)
CtxCancel ==
  /\ AllowCtxCancel /\ ~ctxc /\ ctxc' = TRUE
  /\ UNCHANGED <<subs, ist, iid, ikind, iq, iinit, iprev, iread, ipend, data, client, gotFirst, closeQ, logq, closed,
                 ended, unsubbed, lateWrite, believes, cause, nextInst, msgs>>

\* a mutation runs once: its resolver changes the data ...
MutApply(i) ==
  /\ ist[i] = "run" /\ ikind[i] = "mut" /\ iread[i] = -1
  /\ data < MaxVer
  /\ data' = data + 1
  /\ iread' = [iread EXCEPT ![i] = data + 1]
  /\ ipend' = [j \in Inst |-> IF ist[j] = "run" /\ iread[j] >= 0 /\ j # i THEN TRUE ELSE ipend[j]]
  /\ UNCHANGED <<subs, ist, iid, ikind, iq, iinit, iprev, client, gotFirst, closeQ, logq, closed, ended, unsubbed, lateWrite, believes, cause, nextInst, msgs, ctxc>>

\* ... the result (or error) is written and it closes itself asynchronously
MutDone(i) ==
  /\ ist[i] = "run" /\ ikind[i] = "mut"
  /\ ist' = [ist EXCEPT ![i] = "ended"]
  /\ ended' = [ended EXCEPT ![i] = @ + 1]
  /\ cause' = [cause EXCEPT ![i] = "self"]
  /\ closeQ' = BAdd(closeQ, <<iid[i], i>>)
  /\ UNCHANGED <<subs, iid, ikind, iq, iinit, iprev, iread, ipend, data, client, gotFirst, logq, closed, unsubbed, lateWrite, believes, nextInst, msgs, ctxc>>

\* the asynchronous `go c.closeSubscription(id)` of instance i
AsyncClose(id, i) ==
  /\ <<id, i>> \in DOMAIN closeQ
  /\ closeQ' = BRem(closeQ, <<id, i>>)
  /\ LET cur == subs[id]
         hit == cur # 0 /\ (~CloseSelfOnly \/ cur = i) IN
     IF hit
     THEN /\ CanStop(cur) /\ StopInst(cur, IF cur = i THEN "self" ELSE "stale")
          /\ subs' = [subs EXCEPT ![id] = 0]
          /\ logq' = Append(logq, <<"unsub", id, ikind[cur]>>)
     ELSE UNCHANGED <<subs, ist, ended, logq, cause>>
  /\ UNCHANGED <<iid, ikind, iq, iinit, iprev, iread, ipend, data, client, gotFirst, closed, unsubbed, lateWrite, believes, nextInst, msgs, ctxc>>

-----------------------------------------------------------------------------
\* environment

\* the data changes outside of mutations; idle subscriptions are invalidated, running ones that
\* have already read are marked to run again (what reactive guarantees, C04)
DataChange ==
  /\ data < MaxVer
  /\ data' = data + 1
  /\ ipend' = [j \in Inst |-> IF ist[j] = "run" /\ iread[j] >= 0 THEN TRUE ELSE ipend[j]]
  /\ UNCHANGED <<subs, ist, iid, ikind, iq, iinit, iprev, iread, client, gotFirst, closeQ, logq, closed, ended, unsubbed, lateWrite, believes, cause, nextInst, msgs, ctxc>>

\* an idle instance whose last read is stale gets scheduled
Invalidate(i) ==
  /\ ist[i] = "idle" /\ iread[i] # data
  /\ ist' = [ist EXCEPT ![i] = "sched"]
  /\ UNCHANGED <<subs, iid, ikind, iq, iinit, iprev, iread, ipend, data, client, gotFirst, closeQ, logq, closed, ended, unsubbed, lateWrite, believes, cause, nextInst, msgs, ctxc>>

Next ==
  \/ \E id \in Ids, q \in Queries : RecvSubscribe(id, q) \/ RecvSubscribeRejected(id, q) \/ RecvMutate(id, q) \/ RecvMutateRejected(id, q)
  \/ \E id \in Ids : RecvUnsubscribe(id)
  \/ SocketClose \/ DataChange \/ CtxCancel
  \/ \E i \in Inst : RunStart(i) \/ RunRead(i) \/ SubRunOK(i) \/ SubRunFail(i) \/ SubRunCancelled(i) \/ MutApply(i) \/ MutDone(i) \/ Invalidate(i)
  \/ \E p \in DOMAIN closeQ : AsyncClose(p[1], p[2])
Spec == Init /\ [][Next]_vars

-----------------------------------------------------------------------------
\* properties

\* (once the connection's context is cancelled, scheduled and stale instances simply never run again)
Quiescent == /\ \A i \in Inst : \/ ist[i] \in {"unused", "ended"}
                               \/ (ist[i] = "idle" /\ (iread[i] = data \/ ctxc))
                               \/ (ist[i] = "sched" /\ ctxc)
             /\ DOMAIN closeQ = {}
\* a retrying subscription (failing at the current data) is exempt, like a failed computation in C04
Retrying(i) == Res[iq[i]][data] = Fail

\* C02: once the data has stopped changing every live subscription's client holds the current result
Converges ==
  Quiescent /\ ~ctxc => \A id \in Ids : believes[id] =>
                 /\ subs[id] # 0 /\ ikind[subs[id]] = "sub"                 \* the subscription has not been ended behind its back
                 /\ ist[subs[id]] = "idle" /\ client[id] = Strip(Res[iq[subs[id]]][data])
\* C02: the first update of an accepted subscription is a full one: folding it into nothing gives the whole result
FirstIsFull ==
  \A i \in Inst : ist[i] \in {"idle", "sched", "run"} /\ ikind[i] = "sub" /\ ~iinit[i] /\ subs[iid[i]] = i =>
     client[iid[i]] = Strip(iprev[i])
\* C02: no update for an id after its unsubscribe has been processed (until it is subscribed again)
NoUpdateAfterUnsub == ~lateWrite

\* C17: every accepted instance ends at most once; by the time everything has settled after the socket
\* closed, every instance has ended exactly once and nothing is left running
EndsAtMostOnce == \A i \in Inst : ended[i] <= 1
\* ... and only by its unsubscribe, by its own failure/completion, or by the connection closing
EndsForAReason == \A i \in Inst : cause[i] # "stale"
AllEndAfterClose == closed /\ Quiescent => \A i \in Inst : ist[i] # "unused" => ended[i] = 1 /\ ist[i] = "ended"
\* C17: the map always knows every live rerunner (otherwise closeSubscriptions cannot stop it)
MapComplete == \A i \in Inst : Live(i) => subs[iid[i]] = i
\* C17: the logger sees sub/unsub strictly alternating per id, and paired once the connection is closed
RECURSIVE Balance(_, _)
Balance(s, id) == IF s = <<>> THEN 0
                  ELSE Balance(SubSeq(s, 1, Len(s) - 1), id)
                       + (IF s[Len(s)][2] # id \/ s[Len(s)][3] # "sub" THEN 0 ELSE IF s[Len(s)][1] = "sub" THEN 1 ELSE -1)
LoggerAlternates == \A id \in Ids : \A n \in 0..Len(logq) : Balance(SubSeq(logq, 1, n), id) \in {0, 1}
LoggerPaired == closed /\ Quiescent => \A id \in Ids : Balance(logq, id) = 0
\* C17: the logger's view is the map's view
LoggerMatchesMap == \A id \in Ids : Balance(logq, id) = (IF subs[id] # 0 /\ ikind[subs[id]] = "sub" THEN 1 ELSE 0)
\* C17: limit and duplicate-id rule
\* (mutations in flight occupy map entries and count towards the check a subscribe makes, but are not themselves limited)
LimitHolds == Cardinality({id \in Ids : subs[id] # 0 /\ ikind[subs[id]] = "sub"}) <= MaxSubs
MsgBound == msgs <= 5
=============================================================================
