CONSTANTS
  Callers <- C6
  ShardOf <- Shard6
  MaxSize <- MaxSizeEnv
  Outcomes = {"ok", "error", "panic", "short"}
  AllowCancel = TRUE
SPECIFICATION TSpec
CONSTRAINT HW
INVARIANTS SizeBound NoShardMix AtMostOnce ExactlyOnceUnlessCancelled OwnResult ManyGetsAll
POSTCONDITION Accepted
CHECK_DEADLOCK FALSE
