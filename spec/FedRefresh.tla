----------------------------- MODULE FedRefresh -----------------------------
(* C06, "whether the gateway is refreshing its schema in the background at     *)
(* that moment": the federation Executor's shared state while requests run      *)
(* concurrently with the schema poller (federation/executor.go).               *)
(*                                                                            *)
(*   poll:       FetchPlannerAndSchema; setPlanner = Lock; planner := p;        *)
(*               Executors[introspection] := client (a Go map write, not       *)
(*               atomic: WriteBegin .. WriteEnd); Unlock                        *)
(*   request:    getPlanner (RLock; read; RUnlock), then one runOnService per   *)
(*               sub-query, each reading Executors[service]                     *)
(*                                                                            *)
(* A Go map read that overlaps a map write is a data race (the runtime aborts   *)
(* the process with "concurrent map read and map write"), so the request        *)
(* would not be answered like a single server answers it.  ReadLocked says     *)
(* whether runOnService reads the map under plannerMu.RLock (the design the     *)
(* invariant needs); with FALSE TLC shows the race (vacuity guard).            *)
EXTENDS Integers, FiniteSets, TLC

CONSTANTS Reqs, MaxVersion, MaxSub, ReadLocked

VARIABLES mu, planner, emapw, emapv, ppc, pnew, rpc, rplan, rleft, race
vars == <<mu, planner, emapw, emapv, ppc, pnew, rpc, rplan, rleft, race>>

Init ==
  /\ mu = [w |-> FALSE, r |-> 0]
  /\ planner = 1 /\ emapw = FALSE /\ emapv = 1
  /\ ppc = "idle" /\ pnew = 1
  /\ rpc = [r \in Reqs |-> "start"]
  /\ rplan = [r \in Reqs |-> 0]
  /\ rleft = [r \in Reqs |-> 0]
  /\ race = FALSE

\* ---- the poller
Fetch == /\ ppc = "idle" /\ planner < MaxVersion
         /\ ppc' = "fetched" /\ pnew' = planner + 1
         /\ UNCHANGED <<mu, planner, emapw, emapv, rpc, rplan, rleft, race>>
PLock == /\ ppc = "fetched" /\ ~mu.w /\ mu.r = 0
         /\ mu' = [mu EXCEPT !.w = TRUE] /\ ppc' = "locked"
         /\ UNCHANGED <<planner, emapw, emapv, pnew, rpc, rplan, rleft, race>>
WriteBegin == /\ ppc = "locked"
              /\ planner' = pnew /\ emapw' = TRUE /\ ppc' = "writing"
              /\ UNCHANGED <<mu, emapv, pnew, rpc, rplan, rleft, race>>
WriteEnd == /\ ppc = "writing"
            /\ emapw' = FALSE /\ emapv' = pnew /\ ppc' = "written"
            /\ UNCHANGED <<mu, planner, pnew, rpc, rplan, rleft, race>>
PUnlock == /\ ppc = "written"
           /\ mu' = [mu EXCEPT !.w = FALSE] /\ ppc' = "idle"
           /\ UNCHANGED <<planner, emapw, emapv, pnew, rpc, rplan, rleft, race>>

\* ---- a request
GetPlanner(r) ==
  /\ rpc[r] = "start" /\ ~mu.w                      \* RLock; read; RUnlock in one step
  /\ rplan' = [rplan EXCEPT ![r] = planner]
  /\ \E n \in 1..MaxSub : rleft' = [rleft EXCEPT ![r] = n]
  /\ rpc' = [rpc EXCEPT ![r] = "planned"]
  /\ UNCHANGED <<mu, planner, emapw, emapv, ppc, pnew, race>>
RLock(r) ==
  /\ ReadLocked /\ rpc[r] = "planned" /\ ~mu.w
  /\ mu' = [mu EXCEPT !.r = @ + 1]
  /\ rpc' = [rpc EXCEPT ![r] = "rlocked"]
  /\ UNCHANGED <<planner, emapw, emapv, ppc, pnew, rplan, rleft, race>>
Read(r) ==
  /\ rpc[r] = (IF ReadLocked THEN "rlocked" ELSE "planned")
  /\ race' = (race \/ emapw)
  /\ rpc' = [rpc EXCEPT ![r] = IF ReadLocked THEN "read" ELSE (IF rleft[r] = 1 THEN "done" ELSE "planned")]
  /\ rleft' = [rleft EXCEPT ![r] = @ - 1]
  /\ UNCHANGED <<mu, planner, emapw, emapv, ppc, pnew, rplan>>
RUnlock(r) ==
  /\ rpc[r] = "read"
  /\ mu' = [mu EXCEPT !.r = @ - 1]
  /\ rpc' = [rpc EXCEPT ![r] = IF rleft[r] = 0 THEN "done" ELSE "planned"]
  /\ UNCHANGED <<planner, emapw, emapv, ppc, pnew, rplan, rleft, race>>

Next == Fetch \/ PLock \/ WriteBegin \/ WriteEnd \/ PUnlock
        \/ \E r \in Reqs : GetPlanner(r) \/ RLock(r) \/ Read(r) \/ RUnlock(r)
Spec == Init /\ [][Next]_vars /\ WF_vars(Next)

\* ---- properties
NoRace == ~race
MutexOK == /\ (mu.w => mu.r = 0)
           /\ (emapw => mu.w)
           /\ mu.r = Cardinality({r \in Reqs : rpc[r] \in {"rlocked", "read"}})
PlanKnown == \A r \in Reqs : rpc[r] # "start" => rplan[r] \in 1..planner
PlannerMonotone == [][planner' >= planner /\ emapv' >= emapv]_vars
\* the map never runs ahead of or more than one write behind the planner
MapFollows == emapv \in {planner, planner - 1} /\ (emapv # planner => ppc = "writing")
AllDone == <>(\A r \in Reqs : rpc[r] = "done")
=============================================================================
