-------------------------- MODULE FedRefresh_Trace --------------------------
(* M2 for C06 (refresh part): the events the real Executor emits from the      *)
(* hooks at its map write (executors.write.begin / .end, both under            *)
(* plannerMu) and at its map read in runOnService (executors.read) must be a    *)
(* behaviour of FedRefresh with ReadLocked = TRUE.  Lock steps, the planner     *)
(* fetch and getPlanner are not logged: they are silent steps of the trace      *)
(* specification.  A read logged between write.begin and write.end has no       *)
(* explanation (RLock is not enabled while the writer holds the mutex), so the  *)
(* trace is rejected at that line.                                              *)
EXTENDS FedRefresh, Json, IOUtils, Sequences

Trace == ndJsonDeserialize(IOEnv.TRACE)
R3 == {"r1", "r2"}

VARIABLE l
tvars == <<vars, l>>
Ev == Trace[l]
IsEv(e) == l <= Len(Trace) /\ Ev.ev = e /\ l' = l + 1
Silent(A) == A /\ UNCHANGED l

TInit == Init /\ l = 1 /\ TLCSet(1, 0)
TReset == /\ IsEv("reset")
          /\ mu' = [w |-> FALSE, r |-> 0] /\ planner' = 1 /\ emapw' = FALSE /\ emapv' = 1
          /\ ppc' = "idle" /\ pnew' = 1
          /\ rpc' = [r \in Reqs |-> "start"] /\ rplan' = [r \in Reqs |-> 0] /\ rleft' = [r \in Reqs |-> 0]
          /\ race' = FALSE
TWriteBegin == IsEv("write.begin") /\ WriteBegin
TWriteEnd == IsEv("write.end") /\ WriteEnd
TRead == IsEv("read") /\ \E r \in Reqs : Read(r)
\* driver-side markers: the driver releases the parked poller / saw its requests return
TRelease == IsEv("release") /\ ppc = "writing" /\ UNCHANGED vars
TReqDone == IsEv("request.done") /\ (\E r \in Reqs : rpc[r] = "done") /\ UNCHANGED vars

TNext == \/ TReset \/ TWriteBegin \/ TWriteEnd \/ TRead \/ TRelease \/ TReqDone
         \/ Silent(Fetch) \/ Silent(PLock) \/ Silent(PUnlock)
         \/ \E r \in Reqs : Silent(GetPlanner(r)) \/ Silent(RLock(r)) \/ Silent(RUnlock(r))
TSpec == TInit /\ [][TNext]_tvars
HW == TLCSet(1, IF TLCGet(1) < l THEN l ELSE TLCGet(1))
Accepted == IF TLCGet(1) = Len(Trace) + 1 THEN TRUE
            ELSE PrintT(<<"REJECTED_AT_LINE", TLCGet(1)>>) /\ FALSE
=============================================================================
