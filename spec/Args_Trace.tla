----------------------------- MODULE Args_Trace -----------------------------
(* M4 for C18: each record is one request sending value j for echo field f by  *)
(* one transport; the spec decides what must have arrived.                     *)
EXTENDS Args, SequencesExt
Recs == ndJsonDeserialize(IOEnv.RECS)
Why(r) ==
  LET want == Canon(ArgTypes[r.f], r.j) IN
  IF want = Reject
  THEN (IF r.outcome # "client_error" THEN {"not_rejected_as_client_error:" \o r.outcome} ELSE {})
       \cup (IF r.runs # 0 THEN {"resolver_ran_on_rejected_request"} ELSE {})
  ELSE (IF r.outcome # "ok" THEN {"rejected_but_valid:" \o r.outcome}
        ELSE (IF r.echo # want THEN {"arrived_differently"} ELSE {}) \cup (IF r.runs # 1 THEN {"resolver_runs_not_1"} ELSE {}))
VARIABLES l, bad
Init == l = 1 /\ bad = <<>>
Next == /\ l <= Len(Recs)
        /\ l' = l + 1
        /\ LET w == Why(Recs[l]) IN
           bad' = IF w = {} THEN bad ELSE Append(bad, [l |-> l, why |-> SetToSeq(w)])
Done == l = Len(Recs) + 1 => ndJsonSerialize(IOEnv.OUT, bad)
=============================================================================
