---------------------------- MODULE ExecSched ----------------------------
(* The batch executor's work scheduling (graphql/batch_executor.go, batch_scheduler.go, writer.go).

   Execute turns the top-level selections into work units and hands them to a WorkScheduler; running a
   unit (executeWorkUnit) resolves its field for all its sources and returns the units of the next level;
   the stock scheduler (immediateGoroutineScheduler) runs every unit in its own goroutine, counted by a
   wait group: Add(1) BEFORE the goroutine is created, Done after the unit's children have been enqueued;
   Run returns when the counter is zero.  A failing resolver records its error in the query's
   errorRecorder - a sync.Once: the first error is kept, later ones are dropped - and Execute returns that
   error instead of data when the scheduler has returned.

   One action per critical section:
     Run(us)          Execute -> scheduler.Run(initial units)
     Start(u)         the goroutine of u begins to run resolver(u)
     RecordErr(e)     outputNode.Fail -> errorRecorder.record inside some running unit
     Finish(u, kids)  resolver(u) has returned kids; they are enqueued; then Done
     Return           wg.Wait() returns

   The two design switches are the code as it is (TRUE) and the two classic mistakes (FALSE), used as
   vacuity guards: AddBeforeSpawn = FALSE counts a unit only when its goroutine starts (Run may return
   while units are still to run); FirstWins = FALSE lets a later error overwrite the recorded one. *)
EXTENDS Naturals, FiniteSets

CONSTANTS Unit, AddBeforeSpawn, FirstWins

VARIABLES st,      \* Unit -> "absent" | "spawned" | "running" | "done"
          wg,      \* wait group counter
          err,     \* 0: none recorded; otherwise the identity of the recorded error
          phase,   \* "idle" | "running" | "returned"
          nstart   \* history: how often each unit was started

svars == <<st, wg, err, phase, nstart>>

SInit == /\ st = [u \in Unit |-> "absent"]
         /\ wg = 0
         /\ err = 0
         /\ phase = "idle"
         /\ nstart = [u \in Unit |-> 0]

Counted(n) == IF AddBeforeSpawn THEN n ELSE 0

Run(us) == /\ phase = "idle"
           /\ us \subseteq Unit
           /\ st' = [u \in Unit |-> IF u \in us THEN "spawned" ELSE st[u]]
           /\ wg' = wg + Counted(Cardinality(us))
           /\ phase' = "running"
           /\ UNCHANGED <<err, nstart>>

Start(u) == /\ phase # "idle"            \* a goroutine does not know that Run has returned
            /\ st[u] = "spawned"
            /\ st' = [st EXCEPT ![u] = "running"]
            /\ wg' = IF AddBeforeSpawn THEN wg ELSE wg + 1
            /\ nstart' = [nstart EXCEPT ![u] = @ + 1]
            /\ UNCHANGED <<err, phase>>

RecordErr(e) == /\ e # 0
                /\ \E u \in Unit : st[u] = "running"
                /\ err' = IF err = 0 \/ ~FirstWins THEN e ELSE err
                /\ UNCHANGED <<st, wg, phase, nstart>>

Finish(u, kids) == /\ st[u] = "running"
                   /\ kids \subseteq Unit
                   /\ \A k \in kids : st[k] = "absent"      \* a unit is handed to the scheduler once
                   /\ st' = [x \in Unit |-> IF x = u THEN "done" ELSE IF x \in kids THEN "spawned" ELSE st[x]]
                   /\ wg' = (wg + Counted(Cardinality(kids))) - 1
                   /\ UNCHANGED <<err, phase, nstart>>

Return == /\ phase = "running"
          /\ wg = 0
          /\ phase' = "returned"
          /\ UNCHANGED <<st, wg, err, nstart>>

----------------------------------------------------------------------------
(* what must hold whatever the tree of units is *)

STypeOK == /\ st \in [Unit -> {"absent", "spawned", "running", "done"}]
           /\ wg \in Nat
           /\ phase \in {"idle", "running", "returned"}

Live(u) == st[u] \in {"spawned", "running"}

\* Run does not return while a unit is still to run or running
ReturnedQuiescent == phase = "returned" => \A u \in Unit : ~Live(u)

\* no unit is run twice
OnceEach == \A u \in Unit : nstart[u] <= 1

\* the wait group counts exactly the units handed over and not finished
WgExact == phase = "running" /\ AddBeforeSpawn => wg = Cardinality({u \in Unit : Live(u)})

\* the recorded error never changes once set
ErrStable == [][err # 0 => err' = err]_svars
=============================================================================
