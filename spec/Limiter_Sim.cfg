CONSTANTS
  N = 1
  NG = 3
  MaxCalls = 3
  SideCalls = 1
  Protocol = "send_first"
  AllowCancel = TRUE
  AllowNoLimiter = TRUE
SPECIFICATION SSpec
INVARIANT Emit
CHECK_DEADLOCK FALSE
