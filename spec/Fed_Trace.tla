------------------------------ MODULE Fed_Trace ------------------------------
(* M4 for C06: every record is one query (as AST) executed through the real    *)
(* federation gateway over one partition of the fields over services s1..s3     *)
(* (runs[1]) and on the single server that implements everything (runs[2]),     *)
(* plus the sub-queries each service received and what each service exposes.    *)
(*                                                                            *)
(* The reference evaluation of Exec.tla knows nothing about partitions: that    *)
(* is the property (the gateway answers like one combined server).              *)
EXTENDS Exec

Recs == ndJsonDeserialize(IOEnv.RECS)

\* ---- the recorded deviation (known_findings.txt, key union_member_typename_added):
\* the planner adds __typename to every union selection to dispatch on it and the executor never
\* removes it, so every union member object carries "__typename" whether or not it was asked for.
\* EvalKF is Eval with exactly that difference and nothing else.
RECURSIVE EvalKF(_, _, _, _), EvalObjKF(_, _, _)
EvalObjKF(o, ss, viaUnion) ==
  LET tn == Objs[o].type
      T == Types[tn]
      sels == Collect(ss, tn)
      aliases == {sels[i].alias : i \in DOMAIN sels}
      nameOf(a) == sels[CHOOSE i \in DOMAIN sels : sels[i].alias = a].name
      keyPart == IF T.key # "" THEN {"__key"} ELSE {}
      tnPart == IF viaUnion THEN {"__typename"} ELSE {}
  IN Obj([a \in aliases \cup keyPart \cup tnPart |->
            IF a = "__key" /\ a \notin aliases THEN Objs[o].m[T.key]
            ELSE IF a = "__typename" /\ a \notin aliases THEN Str(tn)
            ELSE IF nameOf(a) = "__typename" THEN Str(tn)
            ELSE EvalKF(T.fields[nameOf(a)], Objs[o].m[nameOf(a)], MergedSub(sels, a), FALSE)])
EvalKF(tref, v, ss, u) ==
  IF tref.k = "nn" THEN EvalKF(tref.of, v, ss, u)
  ELSE IF tref.k = "list" THEN (IF v.k = "n" THEN Arr(<<>>) ELSE Arr([i \in DOMAIN v.a |-> EvalKF(tref.of, v.a[i], ss, u)]))
  ELSE IF Types[tref.name].kind = "SCALAR" THEN v
  ELSE IF v.k = "n" THEN Null
  ELSE EvalObjKF(v.s, ss, Types[tref.name].kind = "UNION")
ExpectedKF(q) == EvalObjKF(Zoo.root, q, FALSE)


\* each sub-query only uses fields that the service it was sent to exposes
SubWhy(rec) ==
  UNION {IF rec.subs[i].svc \notin DOMAIN rec.exposes THEN {"subquery_to_unknown_service"}
         ELSE IF Range(rec.subs[i].fields) \subseteq Range(rec.exposes[rec.subs[i].svc]) THEN {}
         ELSE {"subquery_uses_field_the_service_does_not_expose"} : i \in DOMAIN rec.subs}

Why(rec) ==
  LET gw == rec.runs[1]
      mono == rec.runs[2]
      want == Expected(rec.q) IN
  \* calibration of the reference itself: the single server is the other side of the property
  (IF mono.outcome # "ok" \/ mono.res # want THEN {"SPEC_monolith_differs_from_reference"} ELSE {})
  \cup (IF gw.outcome # "ok" THEN {"gateway_" \o gw.outcome}
        ELSE IF gw.res = want THEN {}
        ELSE IF gw.res = ExpectedKF(rec.q) THEN {"KF_union_member_typename_added"}
        ELSE {"gateway_result_differs"})
  \cup SubWhy(rec)

VARIABLES l, bad
Init == l = 1 /\ bad = <<>>
Next == /\ l <= Len(Recs)
        /\ l' = l + 1
        /\ LET w == Why(Recs[l]) IN
           bad' = IF w = {} THEN bad ELSE Append(bad, [l |-> l, why |-> SetToSeq(w)])
Done == l = Len(Recs) + 1 => ndJsonSerialize(IOEnv.OUT, bad)
=============================================================================
