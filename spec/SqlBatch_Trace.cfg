CONSTANTS
  Cols <- ZCols
  RowType <- ZRowType
  NormalisedMatcher = TRUE
  NilStandalone = TRUE
INIT Init
NEXT Next
INVARIANT Done
CHECK_DEADLOCK FALSE
