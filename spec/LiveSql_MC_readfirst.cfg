CONSTANTS
  Queries <- Q3
  Filter <- F2
  Ids = {"1", "2"}
  Vals = {"1", "2"}
  MaxWrites = 2
  MaxBad = 0
  RegisterFirst = FALSE
  BadInvalidates = TRUE
SPECIFICATION Spec
CONSTRAINT Bounded
INVARIANTS Converged PerQuery CurWhileHeld

CHECK_DEADLOCK FALSE
