CONSTANTS
  Queries <- Q2
  Filter <- F2
  Ids = {"1", "2"}
  Vals = {"1", "2"}
  MaxWrites = 2
  MaxBad = 0
  RegisterFirst = FALSE
  BadInvalidates = TRUE
SPECIFICATION Spec
INVARIANTS Converged PerQuery

CHECK_DEADLOCK FALSE
