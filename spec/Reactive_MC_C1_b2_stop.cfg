CONSTANTS
  RR = {"R1"}
  Res = {}
  FSlots = {"s1"}
  Dyn <- Dyn12
  Keys = {"k1"}
  Prog <- ProgC1
  Body <- BodyC1
  AlwaysSpawn <- Inline1
  MaxBump = 2
  MaxFail = 0
  MaxTasks = 14
  StopAllowed = {"R1"}
  MaxStops = 1
  ParentCancelAllowed = {}
  StopWaits = TRUE
SPECIFICATION Spec
INVARIANTS TaskBound NoOverlap StopFinal FreshAtQuiescence CleanupAtMostOnce NoCleanupWhileLive CleanupExactlyOnceAtQuiescence TrackerExact
PROPERTIES StopFinalAct
