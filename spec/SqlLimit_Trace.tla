---------------------------- MODULE SqlLimit_Trace ----------------------------
(* M4 for C12: each record is one operation (or one batch of concurrent reads)   *)
(* on a limited sqlgen.DB over the fake MySQL driver: what was asked, the error   *)
(* class of every call, the parsed statements that reached the driver, the table  *)
(* before and after.                                                              *)
EXTENDS SqlLimit, Json, IOUtils, SequencesExt

Recs == ndJsonDeserialize(IOEnv.RECS)
Reads == {"query", "queryrow", "count"}

\* does the call comply with the limit: does it pin every limit column to the limit VALUE?  (sqlgen is
\* stricter - it wants the very Go value of the limit, so org = int(1) or a pointer to 1 are refused too;
\* refusing a complying call is not a violation, letting a non-complying one through is.)
FilterComplies(f, L) == \A c \in DOMAIN L : c \in DOMAIN f /\ f[c].v = L[c]
RowComplies(r, L) == \A c \in DOMAIN L : r[c] = L[c]

Why(rec) ==
  LET L == rec.limit
      op == rec.op
      before == Rng(rec.before)
      after == Rng(rec.after)
      inshard == {r.id : r \in {x \in before : InShard(x, L)}} IN
  \* every statement that reached the database is confined to the shard
  (IF \E i \in DOMAIN rec.stmts : ~Confined(rec.stmts[i], L) THEN {"unconfined_statement_reached_the_database"} ELSE {})
  \* a call that does not comply returns the limit error, and when no call complies nothing reaches the database
  \cup (IF op.kind \in Reads
        THEN (IF \E k \in DOMAIN op.filters : ~FilterComplies(op.filters[k], L) /\ rec.errs[k] # "limit"
              THEN {"noncomplying_read_not_rejected"} ELSE {})
             \cup (IF (\A k \in DOMAIN op.filters : rec.errs[k] = "limit") /\ rec.stmts # <<>>
                   THEN {"rejected_call_touched_the_database"} ELSE {})
             \* nothing from outside the shard is returned
             \cup (IF op.kind # "count" /\ \E k \in DOMAIN rec.got : ~(Rng(rec.got[k]) \subseteq inshard)
                   THEN {"returned_a_row_outside_the_shard"} ELSE {})
        ELSE LET ok == IF op.kind = "delete" THEN FALSE      \* the limit column is not part of the primary key
                       ELSE \A k \in DOMAIN op.rows : RowComplies(op.rows[k], L) IN
             \* (InsertRows / UpsertRows work chunk by chunk: an earlier chunk may fail for another reason
             \*  before the offending row's chunk is checked - then any error will do)
             (IF ~ok /\ (IF op.kind \in {"insertrows", "upsertrows"} THEN rec.errs[1] = "" ELSE rec.errs[1] # "limit")
              THEN {"noncomplying_write_not_rejected"} ELSE {})
             \cup (IF op.kind \in {"insert", "upsert", "update", "delete"} /\ rec.errs[1] = "limit" /\ rec.stmts # <<>>
                   THEN {"rejected_call_touched_the_database"} ELSE {}))
  \* the table outside the shard is as it was
  \cup (IF OutsideUntouched(before, after, L) THEN {}
        ELSE IF op.kind \in {"upsert", "upsertrows"} THEN {"KF_upsert_overwrites_row_of_another_shard"}
        ELSE {"row_outside_the_shard_changed"})

VARIABLES l, bad
Init == l = 1 /\ bad = <<>>
Next == /\ l <= Len(Recs)
        /\ l' = l + 1
        /\ LET w == Why(Recs[l]) IN
           bad' = IF w = {} THEN bad ELSE Append(bad, [l |-> l, why |-> SetToSeq(w)])
Done == l = Len(Recs) + 1 => ndJsonSerialize(IOEnv.OUT, bad)
=============================================================================
