---------------------------- MODULE SqlBatch_Trace ----------------------------
(* M4 for C10: each record is one scenario on the real sqlgen.DB over the fake   *)
(* MySQL driver: table contents, the filters of the concurrent calls (abstract   *)
(* value + Go representation), what every call returned on its own and what it   *)
(* returned with batching.                                                       *)
EXTENDS SqlBatch, Json, IOUtils, Sequences, SequencesExt

Recs == ndJsonDeserialize(IOEnv.RECS)
ZCols == {"id", "org", "name", "age", "nick", "kind", "small", "flag", "note", "blob"}
ZRowType == [c \in ZCols |-> CASE c \in {"id", "org", "age"} -> "int64" [] c = "name" -> "string" [] c = "nick" -> "label"
                                [] c = "kind" -> "named" [] c = "small" -> "int32" [] c = "flag" -> "bool" [] c = "blob" -> "bytes" [] OTHER -> "string"]
Rng(s) == {s[i] : i \in DOMAIN s}

\* what a call has to return, given the rows that belong to it
Outcome(kind, ids) ==
  IF kind = "query" THEN [ok |-> TRUE, ids |-> ids, err |-> ""]
  ELSE IF Cardinality(ids) = 0 THEN [ok |-> FALSE, ids |-> {}, err |-> "norows"]
  ELSE IF Cardinality(ids) = 1 THEN [ok |-> TRUE, ids |-> ids, err |-> ""]
  ELSE [ok |-> FALSE, ids |-> {}, err |-> "many"]
Got(o) == [ok |-> o.ok, ids |-> Rng(o.ids), err |-> o.err]

Why(rec) ==
  LET T == Rng(rec.rows) IN
  UNION {
    LET call == rec.calls[i]
        want == Outcome(call.kind, {r.id : r \in Rows(T, call.filter)}) IN
    \* calibration: the model of a query on its own is what the real code returns on its own
    (IF Got(call.plain) # want THEN {"SPEC_plain_differs_from_Rows"} ELSE {})
    \* the property
    \cup (IF Got(call.batched) # Got(call.plain) THEN {"batched_call_differs_from_the_same_call_on_its_own"} ELSE {})
    : i \in DOMAIN rec.calls}
  \cup (IF rec.selects_batched > rec.selects_plain THEN {"batching_sent_more_selects"} ELSE {})

VARIABLES l, bad
Init == l = 1 /\ bad = <<>>
Next == /\ l <= Len(Recs)
        /\ l' = l + 1
        /\ LET w == Why(Recs[l]) IN
           bad' = IF w = {} THEN bad ELSE Append(bad, [l |-> l, why |-> SetToSeq(w)])
Done == l = Len(Recs) + 1 => ndJsonSerialize(IOEnv.OUT, bad)
=============================================================================
