---------------------------- MODULE Pagination_Gen ----------------------------
(* M5 for C11: every (list, arguments) case of a bounded universe with the       *)
(* connection the reference demands; the walking theorems are checked on every   *)
(* list/filter/sort combination.                                                  *)
EXTENDS Pagination, Json, IOUtils
CONSTANT Tier
Big == Tier = "thorough"

It(k, n, r) == [key |-> k, name |-> n, rank |-> r]
\* a pool of items: names share substrings ("an"), ranks have ties
Pool == <<It("k1", "can", 2), It("k2", "man", 1), It("k3", "cot", 2), It("k4", "soban", 0), It("k5", "bell", 1)>>
\* lists: every prefix of the pool and a few shuffles
Lists == {SubSeq(Pool, 1, n) : n \in 0..5}
         \cup {<<Pool[3], Pool[1], Pool[2]>>, <<Pool[5], Pool[4], Pool[2], Pool[1]>>, <<Pool[2], Pool[5], Pool[3], Pool[1], Pool[4]>>}
Keys(l) == {l[i].key : i \in DOMAIN l}
Cursors(l) == Keys(l) \cup {None, "unknown"}
Sorts == {<<None, FALSE>>, <<"rank", FALSE>>, <<"rank", TRUE>>, <<"name", FALSE>>, <<"name", TRUE>>}
Filters == {None, "an", "zz", ""}
Counts == IF Big THEN {NoInt, 0, 1, 2, 3} ELSE {NoInt, 1, 2}

Cases ==
  UNION {{[l |-> l, a |-> [first |-> fl[1], last |-> fl[2], after |-> af, before |-> be, filter |-> fi, sortBy |-> so[1], desc |-> so[2]]]
          : fl \in ({<<n, NoInt>> : n \in Counts} \cup {<<NoInt, n>> : n \in Counts}),
            af \in (IF Big THEN Cursors(l) ELSE {None, "unknown"} \cup {l[i].key : i \in {j \in DOMAIN l : j <= 2}}),
            be \in (IF Big THEN Cursors(l) ELSE {None} \cup {l[i].key : i \in {j \in DOMAIN l : j >= Len(l) - 1}}),
            fi \in (IF Big THEN Filters ELSE {None, "an"}),
            so \in (IF Big THEN Sorts ELSE {<<None, FALSE>>, <<"rank", TRUE>>, <<"name", FALSE>>})}
         : l \in Lists}

ASSUME ndJsonSerialize(IOEnv.OUT, SetToSeq({[l |-> c.l, a |-> c.a, want |-> Page(c.l, c.a)] : c \in Cases}))

VARIABLE c
Init == c \in Cases
Next == UNCHANGED c
\* theorems of the reference (for every list, filter, sort and page size 1..3)
WalkForward == \A n \in 1..3 : ForwardComplete(c.l, c.a, n)
WalkBackward == \A n \in 1..3 : BackwardComplete(c.l, c.a, n)
\* totalCount is the filtered count; a page never exceeds first/last; start/end are the first/last edge
PageShape == LET p == Page(c.l, c.a) IN
             /\ (c.a.first # NoInt => Len(p.keys) <= c.a.first)
             /\ (c.a.last # NoInt => Len(p.keys) <= c.a.last)
             /\ p.totalCount = Len(Expected(c.l, c.a))
=============================================================================
