CONSTANTS
  Callers <- C4
  ShardOf <- Shard2of4
  MaxSize = 1
  Outcomes = {"ok"}
  AllowCancel = TRUE
SPECIFICATION Spec
INVARIANTS SizeBound NoShardMix AtMostOnce ExactlyOnceUnlessCancelled OwnResult ManyGetsAll
PROPERTIES NoJoinAfterRemove 
