CONSTANTS
  Cols <- MCCols
  RowType <- MCRowType
  NormalisedMatcher = FALSE
  NilStandalone = FALSE
INIT Init
NEXT Next
INVARIANTS TransparentOK FewerSelects
CHECK_DEADLOCK FALSE
