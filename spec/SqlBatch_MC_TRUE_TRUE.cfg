CONSTANTS
  Cols <- MCCols
  RowType <- MCRowType
  NormalisedMatcher = TRUE
  NilStandalone = TRUE
INIT Init
NEXT Next
INVARIANTS TransparentOK FewerSelects
CHECK_DEADLOCK FALSE
