--------------------------- MODULE ExecSchedInd ---------------------------
(* Unbounded-depth safety of ExecSched.tla by an inductive invariant (Apalache): whatever units a resolver
   returns (any set of units not handed over before) and whatever the interleaving, the stock scheduler's
   wait group counts exactly the units handed over and not finished, so Run cannot return while a unit is
   still to run or running, and no unit is started twice.  Checked as  Init => IndInv  and
   IndInv /\ Next => IndInv'  for 6 units; the variables and actions are those of ExecSched.tla with
   AddBeforeSpawn = TRUE and FirstWins = TRUE (ExecSched.tla itself stays untyped for TLC). *)
EXTENDS Integers, FiniteSets

Unit == 1..6

VARIABLES
  \* @type: Int -> Str;
  st,
  \* @type: Int;
  wg,
  \* @type: Int;
  err,
  \* @type: Str;
  phase,
  \* @type: Int -> Int;
  nstart

Live(u) == st[u] \in {"spawned", "running"}

Init == /\ st = [u \in Unit |-> "absent"]
        /\ wg = 0
        /\ err = 0
        /\ phase = "idle"
        /\ nstart = [u \in Unit |-> 0]

Run(us) == /\ phase = "idle"
           /\ st' = [u \in Unit |-> IF u \in us THEN "spawned" ELSE st[u]]
           /\ wg' = wg + Cardinality(us)
           /\ phase' = "running"
           /\ UNCHANGED <<err, nstart>>

Start(u) == /\ phase # "idle"
            /\ st[u] = "spawned"
            /\ st' = [st EXCEPT ![u] = "running"]
            /\ nstart' = [nstart EXCEPT ![u] = @ + 1]
            /\ UNCHANGED <<wg, err, phase>>

RecordErr(e) == /\ e # 0
                /\ \E u \in Unit : st[u] = "running"
                /\ err' = IF err = 0 THEN e ELSE err
                /\ UNCHANGED <<st, wg, phase, nstart>>

Finish(u, kids) == /\ st[u] = "running"
                   /\ \A k \in kids : st[k] = "absent"
                   /\ st' = [x \in Unit |-> IF x = u THEN "done" ELSE IF x \in kids THEN "spawned" ELSE st[x]]
                   /\ wg' = (wg + Cardinality(kids)) - 1
                   /\ UNCHANGED <<err, phase, nstart>>

Return == /\ phase = "running"
          /\ wg = 0
          /\ phase' = "returned"
          /\ UNCHANGED <<st, wg, err, nstart>>

Next == \/ \E us \in SUBSET Unit : Run(us)
        \/ \E u \in Unit : Start(u)
        \/ \E e \in Unit : RecordErr(e)
        \/ \E u \in Unit : \E kids \in SUBSET Unit : Finish(u, kids)
        \/ Return

TypeOK == /\ st \in [Unit -> {"absent", "spawned", "running", "done"}]
          /\ wg \in 0..6
          /\ err \in 0..6
          /\ phase \in {"idle", "running", "returned"}
          /\ nstart \in [Unit -> 0..1]

\* the inductive invariant
IndInv == /\ TypeOK
          /\ phase = "idle" => (\A u \in Unit : st[u] = "absent") /\ wg = 0
          /\ phase # "idle" => wg = Cardinality({u \in Unit : Live(u)})
          /\ \A u \in Unit : nstart[u] = (IF st[u] \in {"running", "done"} THEN 1 ELSE 0)
          /\ phase = "returned" => \A u \in Unit : ~Live(u)

IndInit == IndInv

\* what it implies (the invariants of ExecSched.tla)
ReturnedQuiescent == phase = "returned" => \A u \in Unit : ~Live(u)
OnceEach == \A u \in Unit : nstart[u] <= 1
Safety == ReturnedQuiescent /\ OnceEach
=============================================================================
