SPECIFICATION Spec
CONSTANTS
  Unit = {1,2,3,4,5}
  N = 5
  AddBeforeSpawn = TRUE
  FirstWins = FALSE
INVARIANTS STypeOK ReturnedQuiescent OnceEach WgExact ReturnComplete Outcome ParentFirst
PROPERTIES ErrStable Terminates
CHECK_DEADLOCK FALSE
