------------------------------ MODULE Exec_Gen ------------------------------
(* M5 for C01 / C19: TLC enumerates every query AST of a bounded grammar over  *)
(* the zoo (aliases, duplicate response keys with different sub-selections,    *)
(* inline fragments, several fragments on one union member, __typename at      *)
(* every level, lists, nil objects, key fields; optionally one or two          *)
(* @skip/@include directives at every position), checks the reference's own   *)
(* theorem that directives equal textual deletion, and writes the queries out. *)
(* The harness renders each to text and runs it under every execution mode and *)
(* scheduler; Exec_Trace judges the outcomes.                                  *)
EXTENDS Exec
CONSTANT Tier, WithDirs

E == [sels |-> <<>>, frags |-> <<>>]
F(name) == [alias |-> name, name |-> name, dirs |-> <<>>, hassub |-> FALSE, sub |-> E]
FA(alias, name) == [alias |-> alias, name |-> name, dirs |-> <<>>, hassub |-> FALSE, sub |-> E]
O(name, sub) == [alias |-> name, name |-> name, dirs |-> <<>>, hassub |-> TRUE, sub |-> sub]
OA(alias, name, sub) == [alias |-> alias, name |-> name, dirs |-> <<>>, hassub |-> TRUE, sub |-> sub]
Fr(on, sub) == [on |-> on, dirs |-> <<>>, sub |-> sub]
SSet(sels, frags) == [sels |-> sels, frags |-> frags]
Seqs12(S) == {<<x>> : x \in S} \cup {<<x, y>> : x \in S, y \in S}
Big == Tier = "thorough"

TN == F("__typename")
SA0 == {SSet(s, <<>>) : s \in Seqs12({F("x"), FA("zx", "x"), TN})}
SB0 == {SSet(s, <<>>) : s \in Seqs12({F("y"), TN})}
SA0small == {SSet(<<F("x")>>, <<>>), SSet(<<FA("zx", "x")>>, <<>>), SSet(<<F("x"), TN>>, <<>>)}
\* selection sets on the union
SU0 == {SSet(<<TN>>, <<>>),
        SSet(<<>>, <<Fr("A", SSet(<<F("x")>>, <<>>))>>),
        SSet(<<>>, <<Fr("B", SSet(<<F("y")>>, <<>>))>>),
        SSet(<<>>, <<Fr("A", SSet(<<F("x")>>, <<>>)), Fr("A", SSet(<<FA("zx", "x")>>, <<>>))>>),
        SSet(<<>>, <<Fr("A", SSet(<<F("x")>>, <<>>)), Fr("B", SSet(<<F("y")>>, <<>>))>>),
        SSet(<<TN>>, <<Fr("B", SSet(<<F("y")>>, <<>>))>>)}
\* items of a selection set on A, one level deep
ItemsA1 == {<<"s", F("x")>>, <<"s", FA("zx", "x")>>, <<"s", TN>>, <<"s", F("sq")>>}
           \cup {<<"s", O("b", s)>> : s \in SB0}
           \cup {<<"s", O("bs", SSet(<<F("y")>>, <<>>))>>, <<"s", OA("zbs", "bs", SSet(<<F("tag")>>, <<>>))>>}
           \cup {<<"f", Fr("A", s)>> : s \in SA0small}
           \cup {<<"s", O("u", s)>> : s \in SU0}
Build(items) == SSet(SelectSeq(items, LAMBDA it : it[1] = "s"), SelectSeq(items, LAMBDA it : it[1] = "f"))
Untag(ss) == SSet([i \in DOMAIN ss.sels |-> ss.sels[i][2]], [i \in DOMAIN ss.frags |-> ss.frags[i][2]])
SA1 == {Untag(Build(s)) : s \in Seqs12(ItemsA1)}
\* a smaller family of A-selections for use under lists / unions
SA1small == {Untag(Build(s)) : s \in Seqs12({<<"s", F("x")>>, <<"s", O("b", SSet(<<F("y")>>, <<>>))>>,
                                              <<"s", O("b", SSet(<<TN>>, <<>>))>>, <<"f", Fr("A", SSet(<<F("sq")>>, <<>>))>>})}
SU1 == {SSet(<<>>, <<Fr("A", s)>>) : s \in SA1small}
       \cup {SSet(<<>>, <<Fr("A", s), Fr("A", t)>>) : s \in SA0small, t \in SA1small}
       \cup {SSet(<<TN>>, <<Fr("B", SSet(<<O("a", s)>>, <<>>))>>) : s \in SA0small}

Top(name, S) == {SSet(<<O(name, s)>>, <<>>) : s \in S}
Plain ==
  Top("a1", IF Big THEN SA1 ELSE SA1small \cup SA0) \cup Top("as", SA1small) \cup Top("aNil", SA0small)
  \cup Top("u1", SU1) \cup Top("u2", SU0) \cup Top("us", IF Big THEN SU1 ELSE SU0) \cup Top("uNil", SU0)
  \cup {SSet(<<O("a1", s), OA("a1", "a1", t)>>, <<>>) : s \in SA0small, t \in SA1small}     \* same response key twice
  \cup {SSet(<<F("n"), TN>>, <<>>)}

\* --- directives: one or two directives on one node of a query ---
D(name, b) == [name |-> name, if |-> b]
DirSets == {<<D("skip", TRUE)>>, <<D("skip", FALSE)>>, <<D("include", TRUE)>>, <<D("include", FALSE)>>,
            <<D("skip", FALSE), D("include", FALSE)>>, <<D("include", TRUE), D("skip", TRUE)>>,
            <<D("skip", FALSE), D("include", TRUE)>>}
RECURSIVE WithDir(_, _)
\* all variants of ss with the directive list ds placed on exactly one node
WithDir(ss, ds) ==
  {[ss EXCEPT !.sels[i].dirs = ds] : i \in {j \in DOMAIN ss.sels : ss.sels[j].name # "__typename"}}
  \cup {[ss EXCEPT !.frags[i].dirs = ds] : i \in DOMAIN ss.frags}
  \cup UNION {{[ss EXCEPT !.sels[i].sub = v] : v \in WithDir(ss.sels[i].sub, ds)} : i \in {j \in DOMAIN ss.sels : ss.sels[j].hassub}}
  \cup UNION {{[ss EXCEPT !.frags[i].sub = v] : v \in WithDir(ss.frags[i].sub, ds)} : i \in DOMAIN ss.frags}
DirBase == Top("a1", SA1small) \cup Top("u1", SU0) \cup Top("us", SU0)
           \cup {SSet(<<O("a1", s), OA("a1", "a1", t)>>, <<>>) : s \in SA0small, t \in {SSet(<<F("sq")>>, <<>>), SSet(<<O("b", SSet(<<F("y")>>, <<>>))>>, <<>>)}}
           \cup {SSet(<<F("n"), F("n")>>, <<>>)}
Directed == UNION {UNION {WithDir(q, ds) : ds \in DirSets} : q \in DirBase}

Queries == IF WithDirs THEN Directed ELSE Plain
ASSUME ndJsonSerialize(IOEnv.OUT, SetToSeq(Queries))

VARIABLE q
Init == q \in Queries
Next == UNCHANGED q
\* theorem of the reference semantics: evaluating with directives = evaluating the textually pruned query
DirectivesAreDeletion == PruneTheorem(q)
=============================================================================
