CONSTANTS
  Ids <- I3
  Queries <- Q5
  BadQueries = {"qbad"}
  MutQueries = {"qm"}
  Res <- ResFromFile
  MaxVer = 9
  MaxInst = 24
  MaxSubs <- MaxSubsEnv
  AllowCtxCancel = TRUE
  CloseSelfOnly = TRUE
SPECIFICATION TSpec
CONSTRAINT HW
INVARIANTS EndsForAReason Converges FirstIsFull NoUpdateAfterUnsub EndsAtMostOnce AllEndAfterClose MapComplete LoggerAlternates LoggerPaired LoggerMatchesMap LimitHolds
POSTCONDITION Accepted
CHECK_DEADLOCK FALSE
