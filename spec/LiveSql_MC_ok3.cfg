CONSTANTS
  Queries <- Q3
  Filter <- F3
  Ids = {"1", "2"}
  Vals = {"1", "2"}
  MaxWrites = 3
  MaxBad = 1
  RegisterFirst = TRUE
  BadInvalidates = TRUE
SPECIFICATION Spec
INVARIANTS Converged PerQuery

CHECK_DEADLOCK FALSE
