--------------------------------- MODULE Fed ---------------------------------
(* The federation planner and executor as a design model (C06; beyond the        *)
(* listed property: how a query is cut into per-service sub-queries and how      *)
(* their results are stitched back).                                             *)
(*                                                                            *)
(* A fixed logical schema  Query{users:[User], user1:User, nobody:User}         *)
(*   User{id, name, secret, device:Device}   Device{id, isOn, temp, owner:User}  *)
(* id / name / isOn are shared (every service that knows the type serves them),  *)
(* the other fields are owned by exactly one service (Owner).  A query is a      *)
(* flattened selection tree (federation/normalize.go has already run).           *)
(*                                                                            *)
(*   Plan(t, sels, s)  federation/planner.go planObject: selections the current  *)
(*        service serves stay local (recursively planned, sub-plans of children   *)
(*        are lifted with the child's name prepended to their path); the others   *)
(*        are grouped by owning service into sub-plans on the same object, and    *)
(*        the local part then also selects the federation key.                    *)
(*   Run(p, objs)      federation/executor.go execute: the service evaluates the  *)
(*        local selections for every object; for every sub-plan the targets are   *)
(*        found by walking its path through the results (skipping nulls, in list  *)
(*        order), the sub-plan runs once with all their keys, and result i is     *)
(*        merged into target i.                                                  *)
(* Theorems (checked by TLC for every ownership and every query of the bounded    *)
(* grammar): Transparent (the stitched result is the reference evaluation),       *)
(* OnlyExposed (a service is only asked for fields it serves), OneHopPerService.  *)
EXTENDS Integers, Sequences, FiniteSets, TLC, SequencesExt

VARIABLE Owner                     \* owned field "Type.field" -> service (chosen once, never changes)
CONSTANTS LiftPaths,               \* a child's sub-plans get the child's name prepended to their path (FALSE: forgotten)
          InOrder                  \* sub-plan result i is merged into target i (FALSE: into target n+1-i)

Owned == {"Query.users", "Query.user1", "Query.nobody", "User.secret", "User.device", "Device.temp", "Device.owner"}
FieldType == [x \in {"Query.users", "Query.user1", "Query.nobody", "Device.owner"} |-> "User"] @@ [x \in {"User.device"} |-> "Device"]
IsObj(t, f) == (t \o "." \o f) \in DOMAIN FieldType
IsList(t, f) == t = "Query" /\ f = "users"
Serves(s, t, f) == IF (t \o "." \o f) \in Owned THEN Owner[t \o "." \o f] = s ELSE TRUE

\* ---- data: object id -> [type, fields]
NULL == "NULL"
Data == [u1 |-> [t |-> "User", id |-> "1", name |-> "ann", secret |-> "s1", device |-> "d7"],
         u2 |-> [t |-> "User", id |-> "2", name |-> "bob", secret |-> "s2", device |-> NULL],
         d7 |-> [t |-> "Device", id |-> "7", isOn |-> "on", temp |-> "67", owner |-> "u2"],
         q  |-> [t |-> "Query", users |-> <<"u2", "u1">>, user1 |-> "u1", nobody |-> NULL]]

\* ---- values (tagged, as in Exec.tla): Null, Str(s), Arr(seq), Obj(field -> value)
Null == [k |-> "n"]
Str(x) == [k |-> "s", s |-> x]
Arr(x) == [k |-> "a", a |-> x]
Obj(x) == [k |-> "o", m |-> x]

\* ---- reference: what a single server returns (every object carries its key)
RECURSIVE Ref(_, _)
Ref(o, sels) ==
  Obj([k \in {sels[i].f : i \in DOMAIN sels} \cup {"__key"} |->
     IF k = "__key" THEN Str(o)
     ELSE LET s == sels[CHOOSE i \in DOMAIN sels : sels[i].f = k]
              t == Data[o].t IN
          IF ~IsObj(t, k) THEN Str(Data[o][k])
          ELSE IF IsList(t, k) THEN Arr([j \in DOMAIN Data[o][k] |-> Ref(Data[o][k][j], s.sub)])
          ELSE IF Data[o][k] = NULL THEN Null ELSE Ref(Data[o][k], s.sub)])

SvcOrder == <<"s1", "s2", "s3">>                       \* thunder sorts service names
Pos(x) == CHOOSE i \in DOMAIN SvcOrder : SvcOrder[i] = x
\* ---- the planner
\* a plan: [svc, t, local : Seq([f, sub]), after : Seq([path : Seq(field), plan])]
RECURSIVE Plan(_, _, _), LocalOf(_, _, _), AfterOf(_, _, _)
Mine(t, sels, s) == SelectSeq(sels, LAMBDA x : Serves(s, t, x.f))
OtherServices(t, sels, s) == {Owner[t \o "." \o sels[i].f] : i \in {j \in DOMAIN sels : ~Serves(s, t, sels[j].f)}}
LocalOf(t, mine, s) ==
  [i \in DOMAIN mine |->
     IF IsObj(t, mine[i].f) THEN [f |-> mine[i].f, sub |-> Plan(FieldType[t \o "." \o mine[i].f], mine[i].sub, s).local]
     ELSE [f |-> mine[i].f, sub |-> <<>>]]
\* sub-plans of the children, their paths extended by the child's name
AfterOf(t, mine, s) ==
  FlattenSeq([i \in DOMAIN mine |->
     IF IsObj(t, mine[i].f)
     THEN LET cp == Plan(FieldType[t \o "." \o mine[i].f], mine[i].sub, s) IN
          [j \in DOMAIN cp.after |-> [path |-> (IF LiftPaths THEN <<mine[i].f>> ELSE <<>>) \o cp.after[j].path, plan |-> cp.after[j].plan]]
     ELSE <<>>])
Plan(t, sels, s) ==
  LET mine == Mine(t, sels, s)
      others == SetToSortSeq(OtherServices(t, sels, s), LAMBDA a, b : Pos(a) < Pos(b))
      hops == [k \in DOMAIN others |->
                 [path |-> <<>>, plan |-> Plan(t, SelectSeq(sels, LAMBDA x : ~Serves(s, t, x.f) /\ Owner[t \o "." \o x.f] = others[k]), others[k])]]
  IN [svc |-> s, t |-> t,
      local |-> LocalOf(t, mine, s) \o (IF hops # <<>> THEN <<[f |-> "_federation", sub |-> <<>>]>> ELSE <<>>),
      after |-> AfterOf(t, mine, s) \o hops]
\* the root plan belongs to the gateway itself: it serves nothing
Coordinator == "gateway"
RootPlan(sels) == Plan("Query", sels, Coordinator)      \* every root field is owned, so all of it is handed on

\* ---- the executor
\* what service s returns for object o and local selections (it only knows its own fields)
RECURSIVE Eval(_, _, _)
Eval(s, o, local) ==
  Obj([k \in {local[i].f : i \in DOMAIN local} \cup {"__key"} |->
     IF k \in {"__key", "_federation"} THEN Str(o)
     ELSE LET x == local[CHOOSE i \in DOMAIN local : local[i].f = k]
              t == Data[o].t IN
          IF ~Serves(s, t, k) THEN Str("FIELD-NOT-EXPOSED")
          ELSE IF ~IsObj(t, k) THEN Str(Data[o][k])
          ELSE IF IsList(t, k) THEN Arr([j \in DOMAIN Data[o][k] |-> Eval(s, Data[o][k][j], x.sub)])
          ELSE IF Data[o][k] = NULL THEN Null ELSE Eval(s, Data[o][k], x.sub)])

\* the keys of the objects a path leads to, in order; nulls are skipped
RECURSIVE Targets(_, _)
Targets(v, path) ==
  IF v.k = "n" THEN <<>>
  ELSE IF v.k = "a" THEN FlattenSeq([j \in DOMAIN v.a |-> Targets(v.a[j], path)])
  ELSE IF path = <<>> THEN <<v.m["__key"].s>>
  ELSE Targets(v.m[Head(path)], Tail(path))
\* merge results (one per target, in Targets order) into v; returns the new v
RECURSIVE Stitch(_, _, _)
Stitch(v, path, res) ==
  IF v.k = "n" THEN v
  ELSE IF v.k = "a"
       THEN Arr([j \in DOMAIN v.a |->
               LET before == Len(FlattenSeq([i \in 1..(j - 1) |-> Targets(v.a[i], path)]))
                   mine == Len(Targets(v.a[j], path)) IN
               Stitch(v.a[j], path, SubSeq(res, before + 1, before + mine))])
  ELSE IF path = <<>> THEN Obj([k \in DOMAIN v.m \cup DOMAIN res[1].m |-> IF k \in DOMAIN v.m THEN v.m[k] ELSE res[1].m[k]])
  ELSE Obj([v.m EXCEPT ![Head(path)] = Stitch(v.m[Head(path)], Tail(path), res)])

RECURSIVE Run(_, _), ApplyAfter(_, _, _)
\* run plan p for the objects objs: one result per object (an Arr)
ApplyAfter(results, afters, i) ==
  IF i > Len(afters) THEN results
  ELSE LET a == afters[i]
           keys == Targets(results, a.path)
           sub0 == IF keys = <<>> THEN <<>> ELSE Run(a.plan, keys).a
           sub == IF InOrder THEN sub0 ELSE Reverse(sub0) IN
       ApplyAfter(Stitch(results, a.path, sub), afters, i + 1)
Run(p, objs) ==
  LET base == Arr([j \in DOMAIN objs |-> IF p.svc = Coordinator THEN Obj([x \in {"__key"} |-> Str(objs[j])]) ELSE Eval(p.svc, objs[j], p.local)])
  IN ApplyAfter(base, p.after, 1)

\* strip what the client did not ask for
RECURSIVE Strip(_)
Strip(v) == IF v.k = "a" THEN Arr([j \in DOMAIN v.a |-> Strip(v.a[j])])
            ELSE IF v.k = "o" THEN Obj([k \in DOMAIN v.m \ {"_federation"} |-> Strip(v.m[k])])
            ELSE v
Gateway(sels) == Strip(Run(RootPlan(sels), <<"q">>).a[1])

\* ---- theorems
Transparent(sels) == Gateway(sels) = Ref("q", sels)
RECURSIVE Mentions(_, _)
Mentions(v, x) == IF v.k = "s" THEN v.s = x
                  ELSE IF v.k = "a" THEN \E j \in DOMAIN v.a : Mentions(v.a[j], x)
                  ELSE IF v.k = "o" THEN \E k \in DOMAIN v.m : Mentions(v.m[k], x)
                  ELSE FALSE
OnlyExposed(sels) == ~Mentions(Run(RootPlan(sels), <<"q">>), "FIELD-NOT-EXPOSED")
\* every object needs at most one sub-query per other service
RECURSIVE HopsOK(_)
HopsOK(p) == /\ \A i, j \in DOMAIN p.after : (i # j /\ p.after[i].path = p.after[j].path) => p.after[i].plan.svc # p.after[j].plan.svc
             /\ \A i \in DOMAIN p.after : p.after[i].plan.svc # p.svc /\ HopsOK(p.after[i].plan)
=============================================================================
