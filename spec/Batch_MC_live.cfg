CONSTANTS
  Callers <- C3
  ShardOf <- Shard1of3
  MaxSize = 2
  Outcomes = {"ok","error"}
  AllowCancel = FALSE
SPECIFICATION FairSpec
INVARIANTS SizeBound NoShardMix AtMostOnce ExactlyOnceUnlessCancelled OwnResult ManyGetsAll
PROPERTIES NoJoinAfterRemove AllReturn
