CONSTANTS
  Tier = "thorough"
  WithDirs = TRUE
INIT Init
NEXT Next
INVARIANT DirectivesAreDeletion
CHECK_DEADLOCK FALSE
