CONSTANTS
  Tier = "thorough"
  WithDirs = FALSE
INIT Init
NEXT Next
INVARIANT DirectivesAreDeletion
CHECK_DEADLOCK FALSE
