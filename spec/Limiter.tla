------------------------------- MODULE Limiter -------------------------------
(* The token protocol of package concurrencylimiter (C20).                   *)
(*                                                                           *)
(* One action per step of the Go code between two of its linearisation       *)
(* points: the atomic operation on holder.status and the channel operation   *)
(* that follows (or precedes) it are SEPARATE steps, because that is where   *)
(* the substance is.  ch is the number of items in limiter.ch (capacity N).  *)
(*                                                                           *)
(* Every limiter user g has a main goroutine that calls Acquire, then any    *)
(* mix of release / TemporarilyRelease(f) (f may itself release or nest      *)
(* TemporarilyRelease), and a side goroutine sharing g's context that may    *)
(* call the release func at any moment.                                      *)
(*                                                                           *)
(* Protocol = "send_first" is the code as it is now (after the fix recorded  *)
(* in known_findings.txt); Protocol = "cas_first" is the re-acquire order of *)
(* the original code, kept so that the counterexample stays reproducible.    *)
EXTENDS Integers, Sequences, FiniteSets, TLC

CONSTANTS N,              \* limiter capacity
          NG,             \* number of limiter users
          MaxCalls,       \* release/TemporarilyRelease calls per main goroutine
          SideCalls,      \* release calls per side goroutine
          Protocol,       \* "send_first" | "cas_first"
          AllowCancel,    \* contexts may be cancelled at any moment
          AllowNoLimiter  \* some users run on a context without limiter

G == 1..NG

VARIABLES ch,         \* items in the channel
          status,     \* [G -> {"none","acq","blk","rel"}]  holder.status
          hasH,       \* [G -> BOOLEAN]  Acquire created a holder for g
          noLim,      \* [G -> BOOLEAN]  g's context has no limiter
          cancelled,  \* [G -> BOOLEAN]  g's context is cancelled
          stk,        \* [G -> Seq(frame)]  call stack of g's main goroutine, Head = innermost
          calls,      \* [G -> Nat]  API calls made by the main goroutine after Acquire
          side,       \* [G -> {"idle","recv"}]  side goroutine: parked between Swap and <-ch?
          scalls      \* [G -> Nat]
vars == <<ch, status, hasH, noLim, cancelled, stk, calls, side, scalls>>

Frame(k, pc, re) == [k |-> k, pc |-> pc, re |-> re]
Top(g) == Head(stk[g])
SetTop(g, f) == [stk EXCEPT ![g] = <<f>> \o Tail(stk[g])]
Push(g, f) == [stk EXCEPT ![g] = <<f>> \o stk[g]]
Pop(g) == [stk EXCEPT ![g] = Tail(stk[g])]

Init ==
  /\ ch = 0
  /\ status = [g \in G |-> "none"]
  /\ hasH = [g \in G |-> FALSE]
  /\ noLim \in [G -> IF AllowNoLimiter THEN BOOLEAN ELSE {FALSE}]
  /\ cancelled = [g \in G |-> FALSE]
  /\ stk = [g \in G |-> <<Frame("base", "start", FALSE)>>]
  /\ calls = [g \in G |-> 0]
  /\ side = [g \in G |-> "idle"]
  /\ scalls = [g \in G |-> 0]

\* the main goroutine is where user code runs: after Acquire, or inside f
AtChoice(g) == \/ Top(g).k = "base" /\ Top(g).pc = "top"
               \/ Top(g).k = "tr" /\ Top(g).pc = "inF"

-----------------------------------------------------------------------------
\* Acquire(ctx)

CallAcquire(g) ==
  /\ Top(g).k = "base" /\ Top(g).pc = "start"
  /\ stk' = SetTop(g, Frame("base", IF noLim[g] THEN "top" ELSE "try", FALSE))  \* no limiter: returns at once
  /\ UNCHANGED <<ch, status, hasH, noLim, cancelled, calls, side, scalls>>

AcqSend(g) ==                      \* case l.ch <- struct{}{}
  /\ Top(g).k = "base" /\ Top(g).pc = "try"
  /\ ch < N
  /\ ch' = ch + 1
  /\ status' = [status EXCEPT ![g] = "acq"]
  /\ hasH' = [hasH EXCEPT ![g] = TRUE]
  /\ stk' = SetTop(g, Frame("base", "top", FALSE))
  /\ UNCHANGED <<noLim, cancelled, calls, side, scalls>>

AcqCancelled(g) ==                 \* case <-ctx.Done(): no holder, no-op release func
  /\ Top(g).k = "base" /\ Top(g).pc = "try"
  /\ cancelled[g]
  /\ stk' = SetTop(g, Frame("base", "top", FALSE))
  /\ UNCHANGED <<ch, status, hasH, noLim, cancelled, calls, side, scalls>>

-----------------------------------------------------------------------------
\* release func called by the main goroutine (from top level or from inside f)

RelSwap(g) ==
  /\ AtChoice(g) /\ calls[g] < MaxCalls
  /\ calls' = [calls EXCEPT ![g] = @ + 1]
  /\ IF ~hasH[g] THEN UNCHANGED <<status, stk>>            \* no-op release func
     ELSE /\ status' = [status EXCEPT ![g] = "rel"]          \* atomic.SwapInt64(&h.status, released)
          /\ stk' = IF status[g] = "acq" THEN Push(g, Frame("rel", "recv", FALSE)) ELSE stk
  /\ UNCHANGED <<ch, hasH, noLim, cancelled, side, scalls>>

RelRecv(g) ==                      \* <-h.l.ch
  /\ Top(g).k = "rel" /\ Top(g).pc = "recv"
  /\ ch > 0
  /\ ch' = ch - 1
  /\ stk' = Pop(g)
  /\ UNCHANGED <<status, hasH, noLim, cancelled, calls, side, scalls>>

\* release func called by another goroutine that shares g's context
SideRelSwap(g) ==
  /\ hasH[g] /\ side[g] = "idle" /\ scalls[g] < SideCalls
  /\ scalls' = [scalls EXCEPT ![g] = @ + 1]
  /\ status' = [status EXCEPT ![g] = "rel"]
  /\ side' = [side EXCEPT ![g] = IF status[g] = "acq" THEN "recv" ELSE "idle"]
  /\ UNCHANGED <<ch, hasH, noLim, cancelled, stk, calls>>

SideRelRecv(g) ==
  /\ side[g] = "recv"
  /\ ch > 0
  /\ ch' = ch - 1
  /\ side' = [side EXCEPT ![g] = "idle"]
  /\ UNCHANGED <<status, hasH, noLim, cancelled, stk, calls, scalls>>

-----------------------------------------------------------------------------
\* TemporarilyRelease(ctx, f) called by the main goroutine

BlkCas(g) ==                       \* CompareAndSwap(acquired -> blocked)
  /\ AtChoice(g) /\ calls[g] < MaxCalls
  /\ calls' = [calls EXCEPT ![g] = @ + 1]
  /\ IF hasH[g] /\ status[g] = "acq"
     THEN /\ status' = [status EXCEPT ![g] = "blk"]
          /\ stk' = Push(g, Frame("tr", "recv", TRUE))
     ELSE /\ stk' = Push(g, Frame("tr", "inF", FALSE))       \* f() runs without giving anything up
          /\ UNCHANGED status
  /\ UNCHANGED <<ch, hasH, noLim, cancelled, side, scalls>>

BlkRecv(g) ==                      \* <-h.l.ch, then f()
  /\ Top(g).k = "tr" /\ Top(g).pc = "recv"
  /\ ch > 0
  /\ ch' = ch - 1
  /\ stk' = SetTop(g, Frame("tr", "inF", TRUE))
  /\ UNCHANGED <<status, hasH, noLim, cancelled, calls, side, scalls>>

\* f returns; the deferred function decides whether to re-acquire
ReturnF(g) ==
  /\ Top(g).k = "tr" /\ Top(g).pc = "inF"
  /\ IF ~Top(g).re THEN stk' = Pop(g) /\ UNCHANGED status
     ELSE IF Protocol = "cas_first"
     THEN IF status[g] = "blk"
          THEN /\ status' = [status EXCEPT ![g] = "acq"]     \* CompareAndSwap(blocked -> acquired) ...
               /\ stk' = SetTop(g, Frame("tr", "usend", TRUE))   \* ... and only then the send
          ELSE stk' = Pop(g) /\ UNCHANGED status
     ELSE /\ UNCHANGED status                                  \* atomic.LoadInt64(&h.status) != blocked ?
          /\ stk' = IF status[g] = "blk" THEN SetTop(g, Frame("tr", "usend", TRUE)) ELSE Pop(g)
  /\ UNCHANGED <<ch, hasH, noLim, cancelled, calls, side, scalls>>

UnblkSend(g) ==                    \* h.l.ch <- struct{}{}
  /\ Top(g).k = "tr" /\ Top(g).pc = "usend"
  /\ ch < N
  /\ ch' = ch + 1
  /\ stk' = IF Protocol = "cas_first" THEN Pop(g) ELSE SetTop(g, Frame("tr", "ucas", TRUE))
  /\ UNCHANGED <<status, hasH, noLim, cancelled, calls, side, scalls>>

UnblkCas(g) ==                     \* send_first only: CompareAndSwap(blocked -> acquired) after the send
  /\ Top(g).k = "tr" /\ Top(g).pc = "ucas"
  /\ IF status[g] = "blk"
     THEN status' = [status EXCEPT ![g] = "acq"] /\ stk' = Pop(g)
     ELSE UNCHANGED status /\ stk' = SetTop(g, Frame("tr", "ugive", TRUE))   \* released meanwhile
  /\ UNCHANGED <<ch, hasH, noLim, cancelled, calls, side, scalls>>

UnblkGive(g) ==                    \* give the spot back: <-h.l.ch
  /\ Top(g).k = "tr" /\ Top(g).pc = "ugive"
  /\ ch > 0
  /\ ch' = ch - 1
  /\ stk' = Pop(g)
  /\ UNCHANGED <<status, hasH, noLim, cancelled, calls, side, scalls>>

-----------------------------------------------------------------------------
\* a main goroutine finishes only after it has called its release func
Finish(g) ==
  /\ Top(g).k = "base" /\ Top(g).pc = "top"
  /\ ~hasH[g] \/ status[g] = "rel"
  /\ stk' = SetTop(g, Frame("base", "done", FALSE))
  /\ UNCHANGED <<ch, status, hasH, noLim, cancelled, calls, side, scalls>>

Cancel(g) ==
  /\ AllowCancel /\ ~cancelled[g]
  /\ cancelled' = [cancelled EXCEPT ![g] = TRUE]
  /\ UNCHANGED <<ch, status, hasH, noLim, stk, calls, side, scalls>>

MainStep(g) == CallAcquire(g) \/ AcqSend(g) \/ AcqCancelled(g) \/ RelSwap(g) \/ RelRecv(g)
               \/ BlkCas(g) \/ BlkRecv(g) \/ ReturnF(g) \/ UnblkSend(g) \/ UnblkCas(g) \/ UnblkGive(g) \/ Finish(g)
SideStep(g) == SideRelSwap(g) \/ SideRelRecv(g)

AllDone == \A g \in G : Top(g).pc = "done" /\ side[g] = "idle"
Terminated == AllDone /\ UNCHANGED vars

Next == (\E g \in G : MainStep(g) \/ SideStep(g) \/ Cancel(g)) \/ Terminated
Spec == Init /\ [][Next]_vars /\ WF_vars(Next)

-----------------------------------------------------------------------------
\* properties

TypeOK == /\ ch \in 0..N
          /\ status \in [G -> {"none", "acq", "blk", "rel"}]

InTR(g) == \E i \in DOMAIN stk[g] : stk[g][i].k = "tr"
\* g is between Acquire and release, not inside TemporarilyRelease
Running(g) == hasH[g] /\ status[g] # "rel" /\ ~InTR(g)
AtMostN == Cardinality({g \in G : Running(g)}) <= N

\* after all holders have released the full capacity is available again
Conservation == AllDone => ch = 0

\* Acquire never blocks on a cancelled context or one without limiter
NoBlockWhenCancelled ==
  \A g \in G : (Top(g).k = "base" /\ Top(g).pc = "try" /\ cancelled[g]) => ENABLED AcqCancelled(g)

\* every item in the channel is accounted for by exactly one party that will take it out again
Count(S) == Cardinality(S)
Owes(g) == (IF hasH[g] /\ status[g] = "acq" /\ ~(Top(g).k = "tr" /\ Top(g).pc = "usend") THEN 1 ELSE 0)
           + Count({i \in DOMAIN stk[g] : stk[g][i].k = "rel" /\ stk[g][i].pc = "recv"})
           + (IF side[g] = "recv" THEN 1 ELSE 0)
           + Count({i \in DOMAIN stk[g] : stk[g][i].k = "tr" /\ stk[g][i].pc \in {"recv", "ucas", "ugive"}})
RECURSIVE SumOwes(_)
SumOwes(S) == IF S = {} THEN 0 ELSE LET x == CHOOSE y \in S : TRUE IN Owes(x) + SumOwes(S \ {x})
TokenAccounting == ch = SumOwes(G)

\* liveness: every main goroutine finishes (needs fairness; only checked without a state constraint)
AllFinish == <>(\A g \in G : Top(g).pc = "done")
=============================================================================
