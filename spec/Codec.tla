-------------------------------- MODULE Codec --------------------------------
(* C13: row codec round trip.  The column zoo (columns, the value classes each   *)
(* is exercised with, the source representations a SQL value can arrive in) is   *)
(* described by the harness (one source of truth, read from JSON); this module   *)
(* states the laws over it:                                                      *)
(*   RoundTrip   every value of every column, encoded to its SQL value and        *)
(*               decoded from every applicable source form, comes back equal;     *)
(*   OwnFilter   a filter made of the row's own column value (as Go value and as  *)
(*               SQL value) matches the row, and matches no row whose SQL value   *)
(*               differs;                                                         *)
(*   ProtoFilter a filter shipped through its protobuf encoding is either         *)
(*               rejected or matches exactly the same rows.                       *)
(* Codec_Gen enumerates the full case matrix; Codec_Trace judges what the real    *)
(* code did on each case.                                                         *)
EXTENDS Integers, Sequences, FiniteSets, TLC, Json, IOUtils, SequencesExt

Zoo == JsonDeserialize(IOEnv.ZOO)
Cols == Zoo.cols
Rng(s) == {s[i] : i \in DOMAIN s}
Cases == UNION {{[col |-> Cols[i].name, val |-> v, form |-> f] : v \in Rng(Cols[i].vals), f \in Rng(Cols[i].forms)} : i \in DOMAIN Cols}

KindOf(c) == Cols[CHOOSE i \in DOMAIN Cols : Cols[i].name = c].kind
\* why a record breaks a law (empty = conforms)
Why(r) ==
  (IF r.encode # "ok" THEN {"value_cannot_be_encoded"} ELSE
   (IF r.applies /\ r.decode # "ok" THEN {"sql_value_cannot_be_decoded_from_this_form"} ELSE {})
   \cup (IF r.applies /\ r.decode = "ok" /\ ~r.equal THEN {"round_trip_changes_the_value"} ELSE {})
   \cup (IF ~r.owngo THEN {"filter_of_own_go_value_does_not_match_the_row"} ELSE {})
   \* (for text/binary/json-encoded columns the SQL value is the ENCODED form; handing that to a filter would
   \*  have it encoded a second time - "the row's own column value" is the field value there)
   \cup (IF ~r.ownsql /\ KindOf(r.col) # "encoded" THEN {"filter_of_own_sql_value_does_not_match_the_row"} ELSE {})
   \cup (IF r.othermatch # r.otherequal THEN {"own_value_filter_matches_wrong_rows"} ELSE {})
   \cup (IF r.proto = "ok" /\ ~r.protosame THEN {"filter_changes_through_protobuf"} ELSE {}))
=============================================================================
