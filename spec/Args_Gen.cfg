INIT Init
NEXT Next
INVARIANTS GoodArrivesAsSent Classified
CHECK_DEADLOCK FALSE
