---- MODULE Limiter_Sim_TTrace_1790364238 ----
EXTENDS Sequences, Limiter_Sim, TLCExt, Toolbox, Naturals, TLC

_expression ==
    LET Limiter_Sim_TEExpression == INSTANCE Limiter_Sim_TEExpression
    IN Limiter_Sim_TEExpression!expression
----

_trace ==
    LET Limiter_Sim_TETrace == INSTANCE Limiter_Sim_TETrace
    IN Limiter_Sim_TETrace!trace
----

_inv ==
    ~(
        TLCGet("level") = Len(_TETrace)
        /\
        hist = (<<[a |-> "CallAcquire", t |-> "m", g |-> 1], [a |-> "AcqSend", t |-> "m", g |-> 1], [a |-> "BlkCas", t |-> "m", g |-> 1], [a |-> "BlkRecv", t |-> "m", g |-> 1], [a |-> "BlkCas", t |-> "m", g |-> 1]>>)
        /\
        side = (<<"idle", "idle", "idle">>)
        /\
        ch = (0)
        /\
        calls = (<<2, 0, 0>>)
        /\
        cancelled = (<<FALSE, FALSE, FALSE>>)
        /\
        stk = (<<<<[k |-> "tr", pc |-> "inF", re |-> FALSE], [k |-> "tr", pc |-> "inF", re |-> TRUE], [k |-> "base", pc |-> "top", re |-> FALSE]>>, <<[k |-> "base", pc |-> "start", re |-> FALSE]>>, <<[k |-> "base", pc |-> "start", re |-> FALSE]>>>>)
        /\
        scalls = (<<0, 0, 0>>)
        /\
        hasH = (<<TRUE, FALSE, FALSE>>)
        /\
        noLim = (<<FALSE, FALSE, FALSE>>)
        /\
        status = (<<"blk", "none", "none">>)
    )
----

_init ==
    /\ cancelled = _TETrace[1].cancelled
    /\ stk = _TETrace[1].stk
    /\ scalls = _TETrace[1].scalls
    /\ ch = _TETrace[1].ch
    /\ hasH = _TETrace[1].hasH
    /\ noLim = _TETrace[1].noLim
    /\ hist = _TETrace[1].hist
    /\ status = _TETrace[1].status
    /\ side = _TETrace[1].side
    /\ calls = _TETrace[1].calls
----

_next ==
    /\ \E i,j \in DOMAIN _TETrace:
        /\ \/ /\ j = i + 1
              /\ i = TLCGet("level")
        /\ cancelled  = _TETrace[i].cancelled
        /\ cancelled' = _TETrace[j].cancelled
        /\ stk  = _TETrace[i].stk
        /\ stk' = _TETrace[j].stk
        /\ scalls  = _TETrace[i].scalls
        /\ scalls' = _TETrace[j].scalls
        /\ ch  = _TETrace[i].ch
        /\ ch' = _TETrace[j].ch
        /\ hasH  = _TETrace[i].hasH
        /\ hasH' = _TETrace[j].hasH
        /\ noLim  = _TETrace[i].noLim
        /\ noLim' = _TETrace[j].noLim
        /\ hist  = _TETrace[i].hist
        /\ hist' = _TETrace[j].hist
        /\ status  = _TETrace[i].status
        /\ status' = _TETrace[j].status
        /\ side  = _TETrace[i].side
        /\ side' = _TETrace[j].side
        /\ calls  = _TETrace[i].calls
        /\ calls' = _TETrace[j].calls

\* Uncomment the ASSUME below to write the states of the error trace
\* to the given file in Json format. Note that you can pass any tuple
\* to `JsonSerialize`. For example, a sub-sequence of _TETrace.
    \* ASSUME
    \*     LET J == INSTANCE Json
    \*         IN J!JsonSerialize("Limiter_Sim_TTrace_1790364238.json", _TETrace)

=============================================================================

 Note that you can extract this module `Limiter_Sim_TEExpression`
  to a dedicated file to reuse `expression` (the module in the 
  dedicated `Limiter_Sim_TEExpression.tla` file takes precedence 
  over the module `Limiter_Sim_TEExpression` below).

---- MODULE Limiter_Sim_TEExpression ----
EXTENDS Sequences, Limiter_Sim, TLCExt, Toolbox, Naturals, TLC

expression == 
    [
        \* To hide variables of the `Limiter_Sim` spec from the error trace,
        \* remove the variables below.  The trace will be written in the order
        \* of the fields of this record.
        cancelled |-> cancelled
        ,stk |-> stk
        ,scalls |-> scalls
        ,ch |-> ch
        ,hasH |-> hasH
        ,noLim |-> noLim
        ,hist |-> hist
        ,status |-> status
        ,side |-> side
        ,calls |-> calls
        
        \* Put additional constant-, state-, and action-level expressions here:
        \* ,_stateNumber |-> _TEPosition
        \* ,_cancelledUnchanged |-> cancelled = cancelled'
        
        \* Format the `cancelled` variable as Json value.
        \* ,_cancelledJson |->
        \*     LET J == INSTANCE Json
        \*     IN J!ToJson(cancelled)
        
        \* Lastly, you may build expressions over arbitrary sets of states by
        \* leveraging the _TETrace operator.  For example, this is how to
        \* count the number of times a spec variable changed up to the current
        \* state in the trace.
        \* ,_cancelledModCount |->
        \*     LET F[s \in DOMAIN _TETrace] ==
        \*         IF s = 1 THEN 0
        \*         ELSE IF _TETrace[s].cancelled # _TETrace[s-1].cancelled
        \*             THEN 1 + F[s-1] ELSE F[s-1]
        \*     IN F[_TEPosition - 1]
    ]

=============================================================================



Parsing and semantic processing can take forever if the trace below is long.
 In this case, it is advised to uncomment the module below to deserialize the
 trace from a generated binary file.

\*
\*---- MODULE Limiter_Sim_TETrace ----
\*EXTENDS IOUtils, Limiter_Sim, TLC
\*
\*trace == IODeserialize("Limiter_Sim_TTrace_1790364238.bin", TRUE)
\*
\*=============================================================================
\*

---- MODULE Limiter_Sim_TETrace ----
EXTENDS Limiter_Sim, TLC

trace == 
    <<
    ([hist |-> <<>>,side |-> <<"idle", "idle", "idle">>,ch |-> 0,calls |-> <<0, 0, 0>>,cancelled |-> <<FALSE, FALSE, FALSE>>,stk |-> <<<<[k |-> "base", pc |-> "start", re |-> FALSE]>>, <<[k |-> "base", pc |-> "start", re |-> FALSE]>>, <<[k |-> "base", pc |-> "start", re |-> FALSE]>>>>,scalls |-> <<0, 0, 0>>,hasH |-> <<FALSE, FALSE, FALSE>>,noLim |-> <<FALSE, FALSE, FALSE>>,status |-> <<"none", "none", "none">>]),
    ([hist |-> <<[a |-> "CallAcquire", t |-> "m", g |-> 1]>>,side |-> <<"idle", "idle", "idle">>,ch |-> 0,calls |-> <<0, 0, 0>>,cancelled |-> <<FALSE, FALSE, FALSE>>,stk |-> <<<<[k |-> "base", pc |-> "try", re |-> FALSE]>>, <<[k |-> "base", pc |-> "start", re |-> FALSE]>>, <<[k |-> "base", pc |-> "start", re |-> FALSE]>>>>,scalls |-> <<0, 0, 0>>,hasH |-> <<FALSE, FALSE, FALSE>>,noLim |-> <<FALSE, FALSE, FALSE>>,status |-> <<"none", "none", "none">>]),
    ([hist |-> <<[a |-> "CallAcquire", t |-> "m", g |-> 1], [a |-> "AcqSend", t |-> "m", g |-> 1]>>,side |-> <<"idle", "idle", "idle">>,ch |-> 1,calls |-> <<0, 0, 0>>,cancelled |-> <<FALSE, FALSE, FALSE>>,stk |-> <<<<[k |-> "base", pc |-> "top", re |-> FALSE]>>, <<[k |-> "base", pc |-> "start", re |-> FALSE]>>, <<[k |-> "base", pc |-> "start", re |-> FALSE]>>>>,scalls |-> <<0, 0, 0>>,hasH |-> <<TRUE, FALSE, FALSE>>,noLim |-> <<FALSE, FALSE, FALSE>>,status |-> <<"acq", "none", "none">>]),
    ([hist |-> <<[a |-> "CallAcquire", t |-> "m", g |-> 1], [a |-> "AcqSend", t |-> "m", g |-> 1], [a |-> "BlkCas", t |-> "m", g |-> 1]>>,side |-> <<"idle", "idle", "idle">>,ch |-> 1,calls |-> <<1, 0, 0>>,cancelled |-> <<FALSE, FALSE, FALSE>>,stk |-> <<<<[k |-> "tr", pc |-> "recv", re |-> TRUE], [k |-> "base", pc |-> "top", re |-> FALSE]>>, <<[k |-> "base", pc |-> "start", re |-> FALSE]>>, <<[k |-> "base", pc |-> "start", re |-> FALSE]>>>>,scalls |-> <<0, 0, 0>>,hasH |-> <<TRUE, FALSE, FALSE>>,noLim |-> <<FALSE, FALSE, FALSE>>,status |-> <<"blk", "none", "none">>]),
    ([hist |-> <<[a |-> "CallAcquire", t |-> "m", g |-> 1], [a |-> "AcqSend", t |-> "m", g |-> 1], [a |-> "BlkCas", t |-> "m", g |-> 1], [a |-> "BlkRecv", t |-> "m", g |-> 1]>>,side |-> <<"idle", "idle", "idle">>,ch |-> 0,calls |-> <<1, 0, 0>>,cancelled |-> <<FALSE, FALSE, FALSE>>,stk |-> <<<<[k |-> "tr", pc |-> "inF", re |-> TRUE], [k |-> "base", pc |-> "top", re |-> FALSE]>>, <<[k |-> "base", pc |-> "start", re |-> FALSE]>>, <<[k |-> "base", pc |-> "start", re |-> FALSE]>>>>,scalls |-> <<0, 0, 0>>,hasH |-> <<TRUE, FALSE, FALSE>>,noLim |-> <<FALSE, FALSE, FALSE>>,status |-> <<"blk", "none", "none">>]),
    ([hist |-> <<[a |-> "CallAcquire", t |-> "m", g |-> 1], [a |-> "AcqSend", t |-> "m", g |-> 1], [a |-> "BlkCas", t |-> "m", g |-> 1], [a |-> "BlkRecv", t |-> "m", g |-> 1], [a |-> "BlkCas", t |-> "m", g |-> 1]>>,side |-> <<"idle", "idle", "idle">>,ch |-> 0,calls |-> <<2, 0, 0>>,cancelled |-> <<FALSE, FALSE, FALSE>>,stk |-> <<<<[k |-> "tr", pc |-> "inF", re |-> FALSE], [k |-> "tr", pc |-> "inF", re |-> TRUE], [k |-> "base", pc |-> "top", re |-> FALSE]>>, <<[k |-> "base", pc |-> "start", re |-> FALSE]>>, <<[k |-> "base", pc |-> "start", re |-> FALSE]>>>>,scalls |-> <<0, 0, 0>>,hasH |-> <<TRUE, FALSE, FALSE>>,noLim |-> <<FALSE, FALSE, FALSE>>,status |-> <<"blk", "none", "none">>])
    >>
----


=============================================================================

---- CONFIG Limiter_Sim_TTrace_1790364238 ----
CONSTANTS
    N = 1
    NG = 3
    MaxCalls = 3
    SideCalls = 1
    Protocol = "send_first"
    AllowCancel = FALSE
    AllowNoLimiter = FALSE

INVARIANT
    _inv

CHECK_DEADLOCK
    \* CHECK_DEADLOCK off because of PROPERTY or INVARIANT above.
    FALSE

INIT
    _init

NEXT
    _next

CONSTANT
    _TETrace <- _trace

ALIAS
    _expression
=============================================================================
\* Generated on Fri Sep 25 19:23:59 UTC 2026