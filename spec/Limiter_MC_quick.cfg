CONSTANTS
  N = 1
  NG = 3
  MaxCalls = 3
  SideCalls = 1
  Protocol = "send_first"
  AllowCancel = FALSE
  AllowNoLimiter = FALSE
INIT Init
NEXT Next
INVARIANTS TypeOK AtMostN Conservation NoBlockWhenCancelled TokenAccounting
