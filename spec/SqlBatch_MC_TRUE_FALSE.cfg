CONSTANTS
  Cols <- MCCols
  RowType <- MCRowType
  NormalisedMatcher = TRUE
  NilStandalone = FALSE
INIT Init
NEXT Next
INVARIANTS TransparentOK FewerSelects
CHECK_DEADLOCK FALSE
