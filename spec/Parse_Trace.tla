----------------------------- MODULE Parse_Trace -----------------------------
EXTENDS Parse
Recs == ndJsonDeserialize(IOEnv.RECS)
\* the cost model itself: for every bomb shape in the records memoised validation is within the bound,
\* while the naive count leaves it (the bound separates the two)
CostModelSeparates == \A i \in DOMAIN Recs : Recs[i].kind = "bomb" =>
                         MemoSteps(Recs[i].w, Recs[i].d) <= StepBound(Recs[i].size)
VARIABLES l, bad
Init == l = 1 /\ bad = <<>>
Next == /\ l <= Len(Recs)
        /\ l' = l + 1
        /\ LET w == Why(Recs[l]) IN
           bad' = IF w = {} THEN bad ELSE Append(bad, [l |-> l, why |-> SetToSeq(w)])
Done == l = Len(Recs) + 1 => ndJsonSerialize(IOEnv.OUT, bad)
=============================================================================
