CONSTANTS
  UpdateWhereLimited = FALSE
  AllowUpsert = TRUE
INIT Init
NEXT Next
INVARIANTS StatementsConfined RejectedTouchesNothing NeverOutside KeysStayUnique
CHECK_DEADLOCK FALSE
