CONSTANTS
  Queries <- Q2
  Filter <- F2
  Ids = {"1", "2"}
  Vals = {"1", "2"}
  MaxWrites = 3
  MaxBad = 1
  RegisterFirst = TRUE
  BadInvalidates = TRUE
SPECIFICATION Spec
INVARIANTS Converged PerQuery
PROPERTIES EventuallyQuiescent
CHECK_DEADLOCK FALSE
