CONSTANTS
  Queries <- Q3
  Filter <- F2
  Ids = {"1", "2"}
  Vals = {"1", "2"}
  MaxWrites = 3
  MaxBad = 1
  RegisterFirst = TRUE
  BadInvalidates = TRUE
SPECIFICATION Spec
CONSTRAINT Bounded
INVARIANTS Converged PerQuery CurWhileHeld
PROPERTIES EventuallyQuiescent
CHECK_DEADLOCK FALSE
