------------------------------- MODULE SqlBatch -------------------------------
(* C10: SQL batching is transparent.                                           *)
(*                                                                            *)
(* Rows(T, f) is what a query with filter f returns on its own: SQL semantics  *)
(* of the WHERE clause sqlgen builds (`c = ?` per column, `c IS NULL` for a     *)
(* nil value; NULL never equals anything).                                     *)
(*                                                                            *)
(* The batch path (sqlgen/db.go batchFetch.Many + batch.go + matcher.go) is     *)
(* modelled as an algorithm: the filters of the calls that are batched are      *)
(* grouped by column set into `c IN (...)` / `(a=? AND b=?) OR ...` (where a    *)
(* NULL argument matches nothing), one SELECT fetches the union, and a          *)
(* matcher hands every fetched row to the calls whose value tuple equals the    *)
(* row's.  Two design switches:                                                *)
(*   NormalisedMatcher - tuples are compared as SQL driver values (the design   *)
(*      the property needs); FALSE = compared as Go interface values after      *)
(*      one dereference, so the Go TYPE has to agree as well (int vs int64);    *)
(*   NilStandalone - a call whose filter has a nil value is not batched;        *)
(*      FALSE = it is put into the IN list as a NULL argument.                  *)
(* TLC checks Transparent over every small table and pair/triple of filters;    *)
(* with a switch off it must fail (vacuity guards = the defects found).        *)
EXTENDS Integers, FiniteSets, TLC

CONSTANTS Cols,        \* column names
          RowType,     \* column -> Go type of the struct field after one dereference
          NormalisedMatcher, NilStandalone

NULL == "NULL"

EqSQL(x, v) == x # NULL /\ v # NULL /\ x = v
\* a query on its own
Holds(r, f) == \A c \in DOMAIN f : IF f[c].v = NULL THEN r[c] = NULL ELSE EqSQL(r[c], f[c].v)
Rows(T, f) == {r \in T : Holds(r, f)}

\* ---- the batch path
HasNull(f) == \E c \in DOMAIN f : f[c].v = NULL
Batched(F) == {i \in DOMAIN F : ~(NilStandalone /\ HasNull(F[i]))}
\* the combined WHERE clause: any batched filter is empty -> no WHERE at all; = and IN never match NULL
BatchWhere(F, B, r) == (\E i \in B : DOMAIN F[i] = {}) \/ (\E i \in B : \A c \in DOMAIN F[i] : EqSQL(r[c], F[i][c].v))
Fetched(T, F) == {r \in T : BatchWhere(F, Batched(F), r)}
\* the Go type a filter value has after coerce (pointers dereferenced once)
PtrType == [c \in Cols |-> IF c \in {"name"} THEN "string" ELSE IF c \in {"nick"} THEN "label" ELSE "int64"]
FilterType(c, fv) == IF fv.rep = "ptr" THEN PtrType[c] ELSE fv.rep
MatchCol(c, fv, x) ==
  IF fv.v = NULL \/ x = NULL THEN fv.v = NULL /\ x = NULL          \* nil matches nil (both designs)
  ELSE fv.v = x /\ (NormalisedMatcher \/ FilterType(c, fv) = RowType[c])
Reassoc(T, F, i) == {r \in Fetched(T, F) : \A c \in DOMAIN F[i] : MatchCol(c, F[i][c], r[c])}
Result(T, F, i) == IF i \in Batched(F) THEN Reassoc(T, F, i) ELSE Rows(T, F[i])

Transparent(T, F) == \A i \in DOMAIN F : Result(T, F, i) = Rows(T, F[i])
\* batching may only reduce the number of SELECTs
Selects(F) == (IF Batched(F) = {} THEN 0 ELSE 1) + Cardinality(DOMAIN F \ Batched(F))
=============================================================================
