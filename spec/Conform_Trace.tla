---------------------------- MODULE Conform_Trace ----------------------------
(* M4 for C14: each record is one selection tree over the advertised schema of  *)
(* the shape gallery, with what the real PrepareQuery and Execute did with it.   *)
EXTENDS Conform
Recs == ndJsonDeserialize(IOEnv.RECS)

Why(r) ==
  IF ~r.parsed THEN {"not_parsed"}                                   \* generated text must be GraphQL
  ELSE LET valid == ValidQuery(r.q)  foreign == HasForeignFragment(r.q) IN
     (IF valid /\ ~foreign /\ ~r.prepared THEN {"valid_query_rejected"} ELSE {})
  \cup (IF ~valid /\ r.prepared THEN {"invalid_query_accepted"} ELSE {})
  \cup (IF r.prepared /\ r.outcome # "ok" THEN {"accepted_query_failed_" \o r.outcome} ELSE {})
  \cup (IF r.prepared /\ r.outcome = "ok" /\ valid /\ ~foreign /\ ~ConformsQuery(r.res, r.q) THEN {"response_does_not_conform"} ELSE {})

VARIABLES l, bad
Init == l = 1 /\ bad = <<>>
Next == /\ l <= Len(Recs)
        /\ l' = l + 1
        /\ LET w == Why(Recs[l]) IN
           bad' = IF w = {} THEN bad ELSE Append(bad, [l |-> l, why |-> SetToSeq(w)])
Done == l = Len(Recs) + 1 => ndJsonSerialize(IOEnv.OUT, bad)
=============================================================================
