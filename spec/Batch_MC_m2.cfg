CONSTANTS
  Callers <- C4
  ShardOf <- Shard1of4
  MaxSize = 2
  Outcomes = {"ok","panic","short"}
  AllowCancel = TRUE
SPECIFICATION Spec
INVARIANTS SizeBound NoShardMix AtMostOnce ExactlyOnceUnlessCancelled OwnResult ManyGetsAll
PROPERTIES NoJoinAfterRemove 
