CONSTANT Tier = "thorough"
INIT Init
NEXT Next
INVARIANTS WalkForward WalkBackward PageShape
CHECK_DEADLOCK FALSE
