---------------------------- MODULE LiveSql_Trace ----------------------------
(* M2 for C07: the steps of real live queries (livesql.LiveDB in reactive         *)
(* rerunners, fake MySQL driver, in-process binlog), logged at their              *)
(* linearization points, must be a behaviour of LiveSql with RegisterFirst and    *)
(* BadInvalidates: every read returns Rows(table, filter) of the model's table,   *)
(* every delivery invalidates exactly the registered dependencies the event       *)
(* touches (all of them when it cannot be decoded), and at quiescence every       *)
(* query holds what the table has.  Scenarios are concatenated with reset.        *)
EXTENDS LiveSql, Json, IOUtils, SequencesExt

Trace == ndJsonDeserialize(IOEnv.TRACE)
Q3 == {"q1", "q2", "q3"}
Rng(s) == {s[i] : i \in DOMAIN s}
Count(x, s) == Cardinality({i \in DOMAIN s : s[i] = x})

VARIABLE l
tvars == <<vars, l>>
E == Trace[l]
IsEv(e) == l <= Len(Trace) /\ E.ev = e /\ l' = l + 1

TInit == /\ l = 1 /\ filt = [x \in {} |-> x] /\ table = [x \in {} |-> x] /\ log = <<>>
         /\ pc = [q \in Queries |-> "idle"] /\ ndep = [q \in Queries |-> 0] /\ cur = [q \in Queries |-> FALSE]
         /\ held = [q \in Queries |-> {}] /\ dirty = [q \in Queries |-> TRUE] /\ nw = 0 /\ nbad = 0
TReset == /\ IsEv("reset")
          /\ filt' = E.filter
          /\ table' = [i \in {E.rows[k].id : k \in DOMAIN E.rows} |-> E.rows[CHOOSE k \in DOMAIN E.rows : E.rows[k].id = i]]
          /\ log' = <<>>
          /\ pc' = [q \in Queries |-> "idle"] /\ ndep' = [q \in Queries |-> 0] /\ cur' = [q \in Queries |-> FALSE]
          /\ held' = [q \in Queries |-> {}] /\ dirty' = [q \in Queries |-> TRUE] /\ nw' = 0 /\ nbad' = 0
TWrite == /\ IsEv("write")
          /\ LET b == E.before
                 a == E.after IN
             /\ IF b.id = "NONE" THEN a.id \notin DOMAIN table ELSE b.id \in DOMAIN table /\ table[b.id] = b
             /\ a.id # "NONE" \/ b.id # "NONE"
             /\ table' = IF a.id = "NONE" THEN [j \in DOMAIN table \ {b.id} |-> table[j]]
                         ELSE [j \in DOMAIN table \cup {a.id} |-> IF j = a.id THEN a ELSE table[j]]
             /\ log' = Append(log, [before |-> b, after |-> a, bad |-> FALSE, maybe |-> FALSE])
          /\ UNCHANGED <<filt, pc, ndep, cur, held, dirty, nw, nbad>>
\* a change event carries every row its statement changed: garbling it garbles all of them
TGarble == /\ IsEv("garble") /\ E.k \in DOMAIN log /\ (E.k + E.n - 1) \in DOMAIN log
           /\ log' = [j \in DOMAIN log |-> IF j >= E.k /\ j < E.k + E.n THEN [log[j] EXCEPT !.bad = TRUE] ELSE log[j]]
           /\ UNCHANGED <<filt, table, pc, ndep, cur, held, dirty, nw, nbad>>
\* ALTER TABLE: events committed before it keep the old column count; whether the poll loop can still
\* decode one depends on what it has cached, so for those the real outcome (E.bad) is taken as given
TAlter == /\ IsEv("alter")
          /\ log' = [k \in DOMAIN log |-> [log[k] EXCEPT !.maybe = TRUE]]
          /\ UNCHANGED <<filt, table, pc, ndep, cur, held, dirty, nw, nbad>>
\* exactly the registered dependencies of the queries the event affects were invalidated
\* one delivery = the rows event of one statement = the next E.n rows of the log; a registered dependency is
\* invalidated (once) if any of those rows touches its filter
TDeliver == /\ IsEv("deliver") /\ E.n >= 1 /\ Len(log) >= E.n
            /\ LET rows == [j \in 1..E.n |-> [log[j] EXCEPT !.bad = E.bad]]
                   hit(q) == \E j \in 1..E.n : Affected(rows[j], q) IN
               /\ \A j \in 1..E.n : log[j].maybe \/ log[j].bad = E.bad
               /\ \A q \in Active : Count(q, E.inv) = IF hit(q) THEN ndep[q] ELSE 0
               /\ dirty' = [q \in Queries |-> dirty[q] \/ (q \in Active /\ cur[q] /\ hit(q))]
            /\ log' = SubSeq(log, E.n + 1, Len(log))
            /\ UNCHANGED <<filt, table, pc, ndep, cur, held, nw, nbad>>
\* a run may also begin although nothing the model sees invalidated the query (reactive re-runs a computation
\* that was invalidated while it was still running, and the release of a superseded dependency invalidates it
\* once more): an extra run is harmless for C07, a missing one shows in the reads and at quiescence
TBegin == /\ IsEv("begin")
          /\ \/ Begin(E.q)
             \/ /\ E.q \in Active /\ pc[E.q] \in {"idle", "held"} /\ ~dirty[E.q]
                /\ pc' = [pc EXCEPT ![E.q] = "begun"] /\ cur' = [cur EXCEPT ![E.q] = FALSE]
                /\ UNCHANGED <<filt, table, log, ndep, held, dirty, nw, nbad>>
TUnregister == IsEv("unregister") /\ Unregister(E.q)
TRegister == IsEv("register") /\ Register(E.q)
TRead == IsEv("read") /\ Read(E.q) /\ held'[E.q] = Rng(E.got)
TQuiescent == /\ IsEv("quiescent") /\ Quiescent
              /\ \A q \in Active : held[q] = Rng(E.held[q])
              /\ UNCHANGED vars

TNext == TReset \/ TWrite \/ TGarble \/ TAlter \/ TDeliver \/ TBegin \/ TUnregister \/ TRegister \/ TRead \/ TQuiescent
TSpec == TInit /\ [][TNext]_tvars
Accepted == IF TLCGet("stats").diameter - 1 = Len(Trace) THEN TRUE
            ELSE PrintT(<<"REJECTED_AT_LINE", TLCGet("stats").diameter>>) /\ FALSE
=============================================================================
