CONSTANTS
  Reqs <- R3
  MaxVersion = 6
  MaxSub = 4
  ReadLocked = TRUE
SPECIFICATION TSpec
CONSTRAINT HW
INVARIANTS NoRace MutexOK
POSTCONDITION Accepted
CHECK_DEADLOCK FALSE
