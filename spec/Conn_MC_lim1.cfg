CONSTANTS
  Ids <- I2
  Queries <- Q3
  BadQueries = {"qbad"}
  MutQueries = {"qm"}
  Res <- ResOK
  MaxVer = 1
  MaxInst = 3
  MaxSubs = 1
  AllowCtxCancel = TRUE
  CloseSelfOnly = TRUE
SPECIFICATION Spec
INVARIANTS EndsForAReason Converges FirstIsFull NoUpdateAfterUnsub EndsAtMostOnce AllEndAfterClose MapComplete LoggerAlternates LoggerPaired LoggerMatchesMap LimitHolds
CONSTRAINT MsgBound
CHECK_DEADLOCK FALSE
