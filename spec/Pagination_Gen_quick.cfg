CONSTANT Tier = "quick"
INIT Init
NEXT Next
INVARIANTS WalkForward WalkBackward PageShape
CHECK_DEADLOCK FALSE
