--------------------------- MODULE Pagination_Trace ---------------------------
(* M4 for C11: every record is one connection returned by the real pagination    *)
(* code for (list, arguments, implementation variant), or one walk over a whole  *)
(* list made by chaining the real cursors; the reference decides.                *)
EXTENDS Pagination, Json, IOUtils
Recs == ndJsonDeserialize(IOEnv.RECS)

WhyPage(r) ==
  LET w == Page(r.l, r.a)  g == r.got IN
  IF g.err # "" THEN {"error:" \o g.err}
  ELSE (IF g.keys # w.keys THEN {"wrong_edges"} ELSE {})
       \cup (IF g.totalCount # w.totalCount THEN {"wrong_totalCount"} ELSE {})
       \cup (IF ~w.dontCareNext /\ g.hasNext # w.hasNext THEN {"wrong_hasNextPage"} ELSE {})
       \cup (IF g.hasPrev # w.hasPrev THEN {"wrong_hasPrevPage"} ELSE {})
       \cup (IF g.start # w.start \/ g.end # w.end THEN {"wrong_start_or_end_cursor"} ELSE {})
WhyWalk(r) ==
  IF r.got.err # "" THEN {"error:" \o r.got.err}
  ELSE IF r.visited # Expected(r.l, r.a) THEN {"walk_" \o r.dir \o "_is_not_a_partition"} ELSE {}
Why(r) == IF r.kind = "page" THEN WhyPage(r) ELSE WhyWalk(r)

\* classifier of the known finding (hasNextPage with after+before), kept for the record; unused once fixed
VARIABLES l, bad
Init == l = 1 /\ bad = <<>>
Next == /\ l <= Len(Recs)
        /\ l' = l + 1
        /\ LET w == Why(Recs[l]) IN
           bad' = IF w = {} THEN bad ELSE Append(bad, [l |-> l, why |-> SetToSeq(w)])
Done == l = Len(Recs) + 1 => ndJsonSerialize(IOEnv.OUT, bad)
=============================================================================
