---------------------------- MODULE Reactive_Trace ----------------------------
(* M2 for C04/C08: validates traces recorded from the real reactive package    *)
(* (harness/drv/reactive) against Reactive.tla.  Every hook event names the    *)
(* node/rerunner it touched and the flags the code computed under the lock;    *)
(* the corresponding spec action must be enabled for some goroutine and must   *)
(* compute the same flags.  The only unlogged step is the rerunner's timer/ctx *)
(* select falling through (RunWait); it is composed silently, at most K times  *)
(* per consumed event.  All invariants of Reactive.tla are evaluated on the    *)
(* states the implementation actually went through; "quiesce" events (no       *)
(* goroutine of the scenario left) additionally demand that the spec has no    *)
(* pending goroutine either - that is where a lost wake-up shows.              *)
EXTENDS Reactive_MC, Json, IOUtils

Trace == ndJsonDeserialize(IOEnv.TRACE)
SpawnFromEnv == [r \in RR |-> IOEnv.SPAWN = "1"]
Dyn40 == [i \in 1..40 |-> "n" \o ToString(i)]
K == 3

VARIABLES l, silent
tvars == <<vars, l, silent>>
Ev == Trace[l]
IsEv(e) == l <= Len(Trace) /\ Ev.ev = e /\ l' = l + 1 /\ silent' = 0
SomeTask(P(_)) == \E st \in DOMAIN tasks : P(st)

TInit == Init /\ l = 1 /\ silent = 0 /\ TLCSet(1, 0)

TReset ==
  /\ IsEv("reset")
  /\ inv' = [n \in Node |-> FALSE] /\ rel' = [n \in Node |-> FALSE]
  /\ out' = [n \in Node |-> {}] /\ ins' = [n \in Node |-> <<>>]
  /\ hInv' = [n \in Node |-> None] /\ cleanups' = [n \in Node |-> 0]
  /\ hasCb' = [n \in Node |-> n \in Res]
  /\ tracker' = [s \in FSlots |-> {}]
  /\ cache' = [r \in RR |-> [k \in Keys |-> None]]
  /\ tasks' = BAddAll(EmptyBag, [i \in 1..Cardinality(RR) |-> <<FWait((CHOOSE f \in Perms(RR) : TRUE)[i])>>])
  /\ rmu' = [r \in RR |-> FALSE] /\ comp' = [r \in RR |-> None]
  /\ stop' = [r \in RR |-> FALSE] /\ cancelled' = [r \in RR |-> FALSE]
  /\ stopStarted' = [r \in RR |-> 0] /\ stopReturned' = [r \in RR |-> FALSE] /\ failed' = [r \in RR |-> FALSE]
  /\ version' = [s \in Slot |-> 0]
  /\ val' = [n \in Node |-> {}]
  /\ used' = {}
  /\ running' = [r \in RR |-> 0] /\ runs' = [r \in RR |-> 0]
  /\ bumps' = 0 /\ fails' = 0

TBump ==
  /\ IsEv("bump")
  /\ Bump(Ev.slot)
  /\ version'[Ev.slot] = Ev.v
  /\ (IF Ev.slot \in FSlots THEN tracker[Ev.slot] ELSE {}) = {Ev.nodes[i] : i \in DOMAIN Ev.nodes}

TStrobe == IsEv("strobe.snap") /\ SomeTask(LAMBDA st : Top(st).k = "strobe" /\ Top(st).n = Ev.n /\ StrobeSnap(st))
TInvMark == IsEv("inv.mark") /\ SomeTask(LAMBDA st : Top(st).k = "inv" /\ Top(st).n = Ev.n /\ inv[Ev.n] = Ev.b1 /\ InvMark(st))
TInvHandler == IsEv("inv.handler") /\ SomeTask(LAMBDA st : Top(st).k = "invh" /\ Top(st).n = Ev.n /\ InvHandler(st))
TRelMark == IsEv("rel.mark") /\ SomeTask(LAMBDA st : Top(st).k = "rel2" /\ Top(st).n = Ev.n /\ rel[Ev.n] = Ev.b1 /\ RelMark(st))
TCleanup == IsEv("cleanup") /\ SomeTask(LAMBDA st : Top(st).k = "relcb" /\ Top(st).n = Ev.n /\ RelCallback(st))
TRelUnlink == IsEv("rel.unlink") /\ SomeTask(LAMBDA st :
                 /\ Top(st).k = "relu" /\ Top(st).n = Ev.n /\ Head(Top(st).todo) = Ev.from
                 /\ RelUnlink(st)
                 /\ (out'[Ev.from] = {}) = Ev.b1)

\* addOut is the linearisation point of AddDependency (long-lived or per-run resource),
\* of a cache hit and of the adoption of a freshly computed cache child
AddOutFlags == Ev.b1 = (inv[Ev.n] /\ ~inv[Ev.to]) /\ Ev.b2 = (out'[Ev.n] = {})
TAddOut ==
  /\ IsEv("addout")
  /\ SomeTask(LAMBDA st :
       \/ /\ Top(st).k = "body" /\ Top(st).todo # <<>> /\ Head(Top(st).todo) = Dep(Ev.n) /\ Top(st).c = Ev.to
          /\ BodyDep(st)
       \/ /\ Top(st).k = "body" /\ Top(st).todo # <<>> /\ Head(Top(st).todo).op = "fresh" /\ Top(st).c = Ev.to
          /\ BodyFresh(st, Ev.n)
       \/ /\ Top(st).k = "body" /\ Top(st).todo # <<>> /\ Head(Top(st).todo).op = "cache" /\ Top(st).c = Ev.to
          /\ cache[Top(st).r][Head(Top(st).todo).x] = Ev.n
          /\ CacheHit(st)
       \/ /\ Top(st).k = "body" /\ Top(st).todo = <<>> /\ Top(st).key # None /\ Top(st).c = Ev.n /\ st[2].c = Ev.to
          /\ ChildDone(st))
  /\ AddOutFlags

\* the driver touches a long-lived resource from outside any rerunner while everything is idle
TTouch == IsEv("touch") /\ ForeignTouch(Ev.n) /\ Ev.b1 = inv[Ev.n] /\ Ev.b2 = (out[Ev.n] = {})
TArm == IsEv("arm") /\ SomeTask(LAMBDA st : Top(st).k = "arm" /\ Top(st).c = Ev.n /\ inv[Ev.n] = Ev.b1 /\ RunArm(st))
TCtxDone == IsEv("run.ctxdone") /\ SomeTask(LAMBDA st : Top(st).k = "wait" /\ Top(st).r = Ev.r /\ cancelled[Ev.r] /\ RunWait(st))
TRunLocked == IsEv("run.locked") /\ SomeTask(LAMBDA st : Top(st).k = "lock" /\ Top(st).r = Ev.r /\ stop[Ev.r] = Ev.b1 /\ RunLock(st))
TCleanCheck == IsEv("node.invalidated") /\ SomeTask(LAMBDA st :
                 \E key \in Keys : /\ Top(st).k = "clean" /\ key \in Top(st).s /\ cache[Top(st).r][key] = Ev.n
                                   /\ inv[Ev.n] = Ev.b1 /\ RunCleanKey(st, key))
TRunCleaned == IsEv("run.cleaned") /\ SomeTask(LAMBDA st : Top(st).k = "clean" /\ Top(st).r = Ev.r /\ RunClean(st, Ev.c))
TCacheMiss == IsEv("cache.miss") /\ SomeTask(LAMBDA st :
                 /\ Top(st).k = "body" /\ Top(st).todo # <<>> /\ Head(Top(st).todo) = Cached(Ev.key)
                 /\ CacheMiss(st, Ev.c))
TCacheHit == IsEv("cache.hit") /\ UNCHANGED vars /\ SomeTask(LAMBDA st :
                 /\ Top(st).k = "body" /\ Top(st).todo # <<>> /\ Head(Top(st).todo) = Cached(Ev.key)
                 /\ cache[Top(st).r][Ev.key] = Ev.n)
TCacheSet == IsEv("cache.set") /\ UNCHANGED vars /\ SomeTask(LAMBDA st :
                 Top(st).k = "body" /\ Top(st).todo = <<>> /\ Top(st).key = Ev.key /\ Top(st).c = Ev.n)
TTrack == IsEv("track") /\ SomeTask(LAMBDA st : Top(st).k = "track" /\ Top(st).n = Ev.n /\ Head(Top(st).todo).x = Ev.slot /\ BodyTrack(st))
TRead == IsEv("read") /\ SomeTask(LAMBDA st : Top(st).k = "read" /\ Top(st).n = Ev.slot /\ version[Ev.slot] = Ev.v /\ BodyRead(st))
TPurge == IsEv("purge") /\ SomeTask(LAMBDA st : BodyPurge(st))
TCompFail == IsEv("comp.fail") /\ SomeTask(LAMBDA st :
                 Top(st).k = "body" /\ Top(st).c = Ev.n /\ \E m \in {"retry", "fatal", "ctx"} : CompFail(st, m))
TRunDone == IsEv("run.done") /\ SomeTask(LAMBDA st :
                 /\ Top(st).r = Ev.r
                 /\ CASE Ev.err = "ok" -> Top(st).k = "body" /\ RunDone(st)
                      [] Ev.err = "retry" -> Top(st).k = "failed" /\ Top(st).n = "retry" /\ RunFail(st)
                      [] Ev.err = "fatal" -> Top(st).k = "failed" /\ Top(st).n \in {"fatal", "ctx"} /\ RunFail(st))
TStopStart == IsEv("stop.start") /\ StartStop(Ev.r)
\* the driver cancels the context the rerunner was created from (logged, under the recorder's lock, just before it does)
TParentCancel == IsEv("parent.cancel") /\ ParentCancel(Ev.r)
\* cancelCtx() takes effect somewhere between the call of Stop and this hook (which fires after it,
\* outside any lock): the step itself is silent, the event only says it has happened by now
TStopCancelled ==
  /\ IsEv("stop.cancelled")
  /\ \/ SomeTask(LAMBDA st : Top(st).k = "stopc" /\ Top(st).r = Ev.r /\ StopCancel(st))
     \/ (cancelled[Ev.r] /\ SomeTask(LAMBDA st : Top(st).k = "stopl" /\ Top(st).r = Ev.r) /\ UNCHANGED vars)
TStopLocked == IsEv("stop.locked") /\ SomeTask(LAMBDA st : Top(st).k = "stopl" /\ Top(st).r = Ev.r /\ StopLock(st))
TStopReturned == IsEv("stop.returned") /\ stopReturned[Ev.r] /\ UNCHANGED vars
TQuiesce == IsEv("quiesce") /\ Idle /\ UNCHANGED vars

\* the timer/ctx select of Rerunner.run falls through (not observable at a lock)
TSilent == /\ l <= Len(Trace) /\ silent < K /\ silent' = silent + 1 /\ UNCHANGED l
           /\ SomeTask(LAMBDA st : \/ (Top(st).k = "wait" /\ ~cancelled[Top(st).r] /\ RunWait(st))
                                    \/ (Top(st).k = "stopc" /\ StopCancel(st)))

TNext == \/ TReset \/ TBump \/ TStrobe \/ TInvMark \/ TInvHandler \/ TRelMark \/ TCleanup \/ TRelUnlink \/ TAddOut \/ TTouch
         \/ TArm \/ TCtxDone \/ TRunLocked \/ TCleanCheck \/ TRunCleaned \/ TCacheMiss \/ TCacheHit \/ TCacheSet \/ TTrack \/ TRead
         \/ TPurge \/ TCompFail \/ TRunDone \/ TStopStart \/ TParentCancel \/ TStopCancelled \/ TStopLocked \/ TStopReturned \/ TQuiesce \/ TSilent
TSpec == TInit /\ [][TNext]_tvars

HW == TLCSet(1, IF TLCGet(1) < l THEN l ELSE TLCGet(1))
Accepted == IF TLCGet(1) = Len(Trace) + 1 THEN TRUE
            ELSE PrintT(<<"REJECTED_AT_LINE", TLCGet(1)>>) /\ FALSE
=============================================================================
