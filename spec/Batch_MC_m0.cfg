CONSTANTS
  Callers <- C4
  ShardOf <- Shard2of4
  MaxSize = 0
  Outcomes = {"ok","error"}
  AllowCancel = TRUE
SPECIFICATION Spec
INVARIANTS SizeBound NoShardMix AtMostOnce ExactlyOnceUnlessCancelled OwnResult ManyGetsAll
PROPERTIES NoJoinAfterRemove 
