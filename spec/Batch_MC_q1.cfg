CONSTANTS
  Callers <- C3
  ShardOf <- Shard1of3
  MaxSize = 1
  Outcomes = {"ok","short"}
  AllowCancel = TRUE
SPECIFICATION Spec
INVARIANTS SizeBound NoShardMix AtMostOnce ExactlyOnceUnlessCancelled OwnResult ManyGetsAll
PROPERTIES NoJoinAfterRemove 
