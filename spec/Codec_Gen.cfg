INIT Init
NEXT Next
INVARIANT WellFormed
CHECK_DEADLOCK FALSE
