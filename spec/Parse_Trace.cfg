INIT Init
NEXT Next
INVARIANTS Done CostModelSeparates
CHECK_DEADLOCK FALSE
