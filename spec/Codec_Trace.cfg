INIT Init
NEXT Next
INVARIANTS Complete Done
CHECK_DEADLOCK FALSE
