----------------------------- MODULE SqlBatch_MC -----------------------------
(* M1 for C10: every table over a small row universe x every triple of filters  *)
(* drawn from a small filter universe (value x Go representation, nil, empty).  *)
EXTENDS SqlBatch

MCCols == {"id", "age"}
MCRowType == [c \in MCCols |-> "int64"]
RowUniverse == {[id |-> i, age |-> a] : i \in {"1", "2"}, a \in {"5", NULL}}
FV(v, rep) == [v |-> v, rep |-> rep]
None == [x \in {} |-> x]
FilterUniverse ==
  {None}
  \cup {[id |-> FV(v, rep)] : v \in {"1", "2"}, rep \in {"int64", "int", "ptr"}}
  \cup {[age |-> FV(v, rep)] : v \in {"5"}, rep \in {"int64", "int"}}
  \cup {[age |-> FV(NULL, "nil")]}
  \cup {[id |-> FV("1", "int64"), age |-> FV(v, "int64")] : v \in {"5"}}
  \cup {[id |-> FV("2", "int64"), age |-> FV(NULL, "nil")]}

VARIABLES T, F
Init == T \in SUBSET RowUniverse /\ F \in [1..3 -> FilterUniverse]
Next == UNCHANGED <<T, F>>
TransparentOK == Transparent(T, F)
FewerSelects == Selects(F) <= 3
=============================================================================
