CONSTANTS
  UpdateWhereLimited = TRUE
  AllowUpsert = TRUE
INIT Init
NEXT Next
INVARIANTS StatementsConfined RejectedTouchesNothing NeverOutside KeysStayUnique
CHECK_DEADLOCK FALSE
