CONSTANT WaitsOnCtx = FALSE
SPECIFICATION Spec
INVARIANT NoRunAfterReturn
PROPERTY Returns
