---------------------------- MODULE DiffMerge ----------------------------
(* The delta format of thunder's live queries (C03, used by C02).           *)
(*                                                                          *)
(* Diff is written from the *documentation* of package diff: per field a    *)
(* recursive delta (object), a scalar replacement (raw value), a complex    *)
(* replacement ([v], keys stripped) or a removal ([]); arrays as objects    *)
(* whose "$" member holds, for every new position, the old position of the  *)
(* element (-1 = new), runs compressed to [start, count].                   *)
(* ClientMerge is the documented format as the JavaScript client reads it   *)
(* (client/src/merge.ts, line by line; JavaScript undefined is Undef).      *)
(* GoMergeDoc is what the format documentation demands of package merge.    *)
EXTENDS JsonVal, SequencesExt

Undef == [k |-> "u"]                       \* JavaScript undefined (never crosses the wire)
NoDiff == [k |-> "nil"]                    \* Go nil delta: "no change"

MarkReplaced(v) == IF IsScalar(v) THEN v ELSE Arr(<<Strip(v)>>)
Removed == Arr(<<>>)
NoKey == [k |-> "nokey"]
KeyOfObj(o) == IF "__key" \in Fields(o) THEN o.m["__key"] ELSE NoKey
\* key used to line up array elements
ReorderKey(v) == IF v.k = "o" /\ "__key" \in Fields(v) THEN v.m["__key"]
                 ELSE IF IsScalar(v) THEN v ELSE [k |-> "nilkey"]

\* for each new element the first not yet used old index with the same key (1-based, 0 = none)
RECURSIVE Match(_, _, _, _)
Match(old, new, i, used) ==
  IF i > Len(new) THEN <<>>
  ELSE LET cands == {j \in DOMAIN old : j \notin used /\ ReorderKey(old[j]) = ReorderKey(new[i])}
           j == IF cands = {} THEN 0 ELSE CHOOSE x \in cands : \A y \in cands : x <= y
       IN <<j>> \o Match(old, new, i + 1, IF j = 0 THEN used ELSE used \cup {j})

\* run-length compression of 0-based indices (-1 = new): [start,count] for runs of length >= 2
RECURSIVE Compress(_, _)
Compress(idx, i) ==       \* idx: 1-based positions into old (0 = none)
  IF i > Len(idx) THEN <<>>
  ELSE IF idx[i] = 0 THEN <<JInt(-1)>> \o Compress(idx, i + 1)
  ELSE LET RunEnd[j \in i..Len(idx)] ==
               IF j < Len(idx) /\ idx[j + 1] # 0 /\ idx[j + 1] = idx[j] + 1 THEN RunEnd[j + 1] ELSE j
           e == RunEnd[i]
       IN (IF e = i THEN <<JInt(idx[i] - 1)>> ELSE <<Arr(<<JInt(idx[i] - 1), JInt(e - i + 1)>>)>>)
          \o Compress(idx, e + 1)

RECURSIVE Diff(_, _)
Diff(o, n) ==
  IF o.k = "o" THEN
     IF n.k # "o" THEN MarkReplaced(n)
     ELSE IF KeyOfObj(o) # KeyOfObj(n) THEN MarkReplaced(n)
     ELSE LET removed == Fields(o) \ Fields(n)
              changed == {f \in Fields(n) : f \notin Fields(o) \/ Diff(o.m[f], n.m[f]) # NoDiff}
              d == [f \in removed \cup changed |->
                      IF f \in removed THEN Removed
                      ELSE IF f \notin Fields(o) THEN MarkReplaced(n.m[f])
                      ELSE Diff(o.m[f], n.m[f])]
          IN IF DOMAIN d = {} THEN NoDiff ELSE Obj(d)
  ELSE IF o.k = "a" THEN
     IF n.k # "a" THEN MarkReplaced(n)
     ELSE LET idx == Match(o.a, n.a, 1, {})
              orderChanged == Len(o.a) # Len(idx) \/ \E i \in DOMAIN idx : idx[i] # i
              elemD(i) == Diff(IF idx[i] = 0 THEN Null ELSE o.a[idx[i]], n.a[i])
              ch == {i \in DOMAIN n.a : elemD(i) # NoDiff}
              keys == {ToString(i - 1) : i \in ch} \cup (IF orderChanged THEN {"$"} ELSE {})
              d == [f \in keys |-> IF f = "$" THEN Arr(Compress(idx, 1))
                                   ELSE elemD(CHOOSE i \in ch : ToString(i - 1) = f)]
          IN IF keys = {} THEN NoDiff ELSE Obj(d)
  ELSE IF o = n THEN NoDiff ELSE MarkReplaced(n)

\* --- the documented format as the JavaScript client reads it (client/src/merge.ts) ---
RECURSIVE Expand(_, _)
Expand(orig, xs) ==       \* xs: the "$" array
  IF xs = <<>> THEN <<>>
  ELSE LET x == Head(xs) IN
       (IF x.k = "a"
        THEN [j \in 1..NumOf(x.a[2]) |-> LET p == NumOf(x.a[1]) + j IN IF p \in DOMAIN orig THEN orig[p] ELSE Undef]
        ELSE LET p == NumOf(x) + 1 IN <<IF p \in DOMAIN orig THEN orig[p] ELSE Undef>>)
       \o Expand(orig, Tail(xs))

RECURSIVE ClientMerge(_, _)
ClientMerge(orig, upd) ==
  IF upd.k = "a" THEN (IF upd.a = <<>> THEN Undef ELSE upd.a[1])
  ELSE IF upd.k # "o" THEN upd
  ELSE IF orig.k = "a" THEN
     LET base == IF "$" \in Fields(upd) THEN Expand(orig.a, upd.m["$"].a) ELSE orig.a
         keys == Fields(upd) \ {"$"}
         top == IF keys = {} THEN 0 ELSE CHOOSE x \in {NumOf([s |-> f]) + 1 : f \in keys} :
                                             \A y \in {NumOf([s |-> f]) + 1 : f \in keys} : y <= x
         len == IF top > Len(base) THEN top ELSE Len(base)        \* merged[k] = .. grows a JS array
         at(i) == LET b == IF i \in DOMAIN base THEN base[i] ELSE Undef IN
                  IF ToString(i - 1) \in keys THEN ClientMerge(b, upd.m[ToString(i - 1)]) ELSE b
     IN Arr([i \in 1..len |-> at(i)])
  ELSE
     LET start == IF orig.k = "o" THEN orig.m ELSE <<>>
         isRem(f) == upd.m[f].k = "a" /\ upd.m[f].a = <<>>
         keep == (DOMAIN start \cup Fields(upd)) \ {f \in Fields(upd) : isRem(f)}
     IN Obj([f \in keep |-> IF f \in Fields(upd)
                            THEN ClientMerge(IF f \in DOMAIN start THEN start[f] ELSE Undef, upd.m[f])
                            ELSE start[f]])

\* JSON.stringify view of a client value: undefined inside arrays reads as null
RECURSIVE Norm(_)
Norm(v) == IF v.k = "u" THEN Null
           ELSE IF v.k = "a" THEN Arr([i \in DOMAIN v.a |-> Norm(v.a[i])])
           ELSE IF v.k = "o" THEN Obj([f \in Fields(v) |-> Norm(v.m[f])]) ELSE v

\* the client's view after applying delta d (possibly NoDiff) to the stripped old value
Applied(o, d) == IF d = NoDiff THEN Strip(o) ELSE Norm(ClientMerge(Strip(o), d))

\* theorem about the documented format itself (checked by DiffMerge_Gen)
RoundTrip(o, n) == Applied(o, Diff(o, n)) = Strip(n)
SelfDiffEmpty(x) == Diff(x, x) = NoDiff
=============================================================================
