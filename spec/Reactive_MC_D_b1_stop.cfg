CONSTANTS
  RR = {"R1"}
  Res = {"r1","r2"}
  FSlots = {}
  Dyn <- Dyn8
  Keys = {"k1"}
  Prog <- ProgD
  Body <- BodyD
  AlwaysSpawn <- Inline1
  MaxBump = 1
  MaxFail = 0
  MaxTasks = 14
  StopAllowed = {"R1"}
  MaxStops = 1
  ParentCancelAllowed = {}
  StopWaits = TRUE
SPECIFICATION Spec
INVARIANTS TaskBound NoOverlap StopFinal FreshAtQuiescence CleanupAtMostOnce NoCleanupWhileLive CleanupExactlyOnceAtQuiescence TrackerExact
PROPERTIES StopFinalAct
