CONSTANTS
  LiftPaths = TRUE
  InOrder = TRUE
INIT Init
NEXT Next
INVARIANTS TransparentOK OnlyExposedOK HopsOKInv
CHECK_DEADLOCK FALSE
