CONSTANTS
  PreCheck = FALSE
  MaxServices = 2
  MaxVersions = 2
  SmallUniverse = FALSE
INIT Init
NEXT Next
INVARIANTS MeetFoldAgrees JoinFoldAgrees ClosedOK ContainsOK Nullability EndToEndOK
CHECK_DEADLOCK FALSE
