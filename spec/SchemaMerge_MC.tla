--------------------------- MODULE SchemaMerge_MC ---------------------------
(* M1 for C09: a bounded universe of abstract schemas, enumerated by TLC.      *)
(* One state per (deployment, query); the invariants are theorems about the    *)
(* reference and about thunder's ALGORITHM (pairwise folding over a            *)
(* name-sorted list, modelled here as Fold over every order):                  *)
(*   - FoldAgrees: folding in any order gives the N-ary reference (error or    *)
(*     schema), i.e. the outcome does not depend on names or order.            *)
(*     With PreCheck = FALSE (the algorithm before the pairwise pre-check was  *)
(*     added) TLC finds the order-dependent deployment (vacuity guard).        *)
(*   - Closed, ContainsOK (everything at least one service supports / only what  *)
(*     all versions support), nullability rules, EndToEnd.                     *)
EXTENDS SchemaMerge, SequencesExt

CONSTANTS PreCheck, MaxServices, MaxVersions, SmallUniverse

IntRef(nn) == [name |-> "int64", kind |-> "SCALAR", nn |-> <<nn>>]
KindRef == [name |-> "Kind", kind |-> "ENUM", nn |-> <<FALSE>>]
None == [x \in {} |-> x]
ListRef(e) == [name |-> "int64", kind |-> "SCALAR", nn |-> <<TRUE, e>>]
ArgSets == IF SmallUniverse THEN {None, [id |-> IntRef(FALSE)], [id |-> IntRef(TRUE), kind |-> KindRef], [ids |-> ListRef(TRUE)], [ids |-> ListRef(FALSE)]}
           ELSE {None, [id |-> IntRef(FALSE)], [id |-> IntRef(TRUE)], [kind |-> KindRef], [id |-> IntRef(FALSE), kind |-> KindRef],
                 [ids |-> ListRef(TRUE)], [ids |-> ListRef(FALSE)]}
EnumSets == IF SmallUniverse THEN {{"A", "B"}} ELSE {{"A"}, {"A", "B"}}
ItemField(t, a) == [type |-> [name |-> "Item", kind |-> "OBJECT", nn |-> <<t>>], args |-> a]
Obj(f) == [kind |-> "OBJECT", fields |-> f, inputs |-> None, values |-> {}, possible |-> {}]
Scalar == [kind |-> "SCALAR", fields |-> None, inputs |-> None, values |-> {}, possible |-> {}]
Enum(vs) == [kind |-> "ENUM", fields |-> None, inputs |-> None, values |-> vs, possible |-> {}]
ItemType(withName) == Obj(IF withName THEN [id |-> [type |-> IntRef(TRUE), args |-> None], name |-> [type |-> IntRef(FALSE), args |-> None]]
                          ELSE [id |-> [type |-> IntRef(TRUE), args |-> None]])
\* a version: has Query.item or not (type nullability, argument set), Item.name or not, enum values
Universe ==
  {[Query |-> Obj([item |-> ItemField(t, a)]), Item |-> ItemType(a = None), Kind |-> Enum(vs), int64 |-> Scalar]
      : t \in BOOLEAN, a \in ArgSets, vs \in EnumSets}
  \cup {[Query |-> Obj([count |-> [type |-> IntRef(TRUE), args |-> None]]), Item |-> ItemType(TRUE), int64 |-> Scalar]}

Lit(k, v) == [k |-> k, v |-> v, fields |-> None, elems |-> <<>>]
ListLit(es) == [k |-> "list", v |-> "", fields |-> None, elems |-> es]
Queries ==
  {[field |-> "item", args |-> a, subs |-> s] :
      a \in {None, [id |-> Lit("int", "1")], [kind |-> Lit("enum", "B")], [id |-> Lit("int", "1"), kind |-> Lit("enum", "A")],
             [ids |-> ListLit(<<Lit("int", "1")>>)], [ids |-> ListLit(<<Lit("int", "1"), Lit("null", "null")>>)]},
      s \in {<<[on |-> "", field |-> "id"]>>, <<[on |-> "", field |-> "id"], [on |-> "", field |-> "name"]>>}}
  \cup {[field |-> "count", args |-> None, subs |-> <<>>]}

\* ---- thunder's algorithm: pairwise merge, folded over a list; with the pre-check of every pair
PairErr(a, b, keepAll) == SchemaErr({a, b}, keepAll)
PairMerge(a, b, keepAll) == MergeSchemas({a, b}, keepAll)
RECURSIVE FoldFrom(_, _, _, _)
\* returns [err |-> BOOLEAN, s |-> schema]
FoldFrom(acc, seq, i, keepAll) ==
  IF i > Len(seq) THEN [err |-> FALSE, s |-> acc]
  ELSE IF PairErr(acc, seq[i], keepAll) THEN [err |-> TRUE, s |-> acc]
  ELSE FoldFrom(PairMerge(acc, seq[i], keepAll), seq, i + 1, keepAll)
Fold(seq, keepAll) ==
  IF PreCheck /\ \E i, j \in DOMAIN seq : PairErr(seq[i], seq[j], keepAll) THEN [err |-> TRUE, s |-> seq[1]]
  ELSE FoldFrom(seq[1], seq, 2, keepAll)
Orders(S) == {seq \in [1..Cardinality(S) -> S] : Rng(seq) = S}

VARIABLES D, q
vars == <<D, q>>
Names == <<"s1", "s2", "s3">>
VersionSets == UNION {kSubset(k, Universe) : k \in 1..MaxVersions}
NoQ == [field |-> "", args |-> None, subs |-> <<>>]
\* the deployment is built one service at a time, then a query is chosen (so that TLC's workers share the work)
Init == D = None /\ q = NoQ
AddService == /\ q = NoQ /\ Cardinality(DOMAIN D) < MaxServices
              /\ \E vs \in VersionSets :
                    D' = [s \in DOMAIN D \cup {Names[Cardinality(DOMAIN D) + 1]} |-> IF s \in DOMAIN D THEN D[s] ELSE vs]
              /\ UNCHANGED q
PickQuery == q = NoQ /\ DOMAIN D # {} /\ q' \in Queries /\ UNCHANGED D
Next == AddService \/ PickQuery
Chosen == q # NoQ

\* every order of folding the versions of each service agrees with Meet
MeetFoldAgrees == Chosen =>
  (  \A s \in DOMAIN D : \A seq \in Orders(D[s]) :
     LET r == Fold(seq, FALSE) IN r.err = MeetErr(D[s]) /\ (~r.err => r.s = Meet(D[s])))
\* every order of folding the services' schemas agrees with Join
JoinFoldAgrees == Chosen =>
  (  (\A s \in DOMAIN D : ~MeetErr(D[s])) =>
     LET Ms == {Meet(D[s]) : s \in DOMAIN D} IN
     \A seq \in Orders(Ms) : LET r == Fold(seq, TRUE) IN r.err = JoinErr(Ms) /\ (~r.err => r.s = Join(Ms)))
ClosedOK == Chosen =>
  ( ~GatewayErr(D) => Closed(Gateway(D)) /\ \A s \in DOMAIN D : Closed(Meet(D[s])))
\* only what all versions support / everything at least one service supports
ContainsOK == Chosen =>
  (  ~GatewayErr(D) =>
    /\ \A s \in DOMAIN D : \A t \in DOMAIN Meet(D[s]) : \A f \in DOMAIN Meet(D[s])[t].fields :
          /\ \A V \in D[s] : t \in DOMAIN V /\ f \in DOMAIN V[t].fields
          /\ t \in DOMAIN Gateway(D) /\ f \in DOMAIN Gateway(D)[t].fields
    /\ \A t \in DOMAIN Gateway(D) : \A f \in DOMAIN Gateway(D)[t].fields : Resolvers(D, t, f) # {})
\* an argument is required if any side requires it; an output is non-null only if every side guarantees it
Nullability == Chosen =>
  (  ~GatewayErr(D) =>
    \A t \in DOMAIN Gateway(D) : \A f \in DOMAIN Gateway(D)[t].fields :
      LET G == Gateway(D)[t].fields[f]
          sides == {V[t].fields[f] : V \in UNION {D[s] : s \in Resolvers(D, t, f)}} IN
      /\ G.type.nn[1] = (\A x \in sides : x.type.nn[1])
      /\ \A a \in DOMAIN G.args : G.args[a].nn[1] = (\E x \in sides : a \in DOMAIN x.args /\ x.args[a].nn[1]))
EndToEndOK == Chosen => (EndToEnd(D, q) /\ MeetExecutable(D, q))
=============================================================================
