CONSTANTS
  RR = {"R1"}
  Res = {}
  FSlots = {"s1"}
  Dyn <- Dyn12
  Keys = {"k1"}
  Prog <- ProgE
  Body <- BodyC1
  AlwaysSpawn <- Inline1
  MaxBump = 1
  MaxFail = 0
  MaxTasks = 14
  StopAllowed = {"R1"}
  MaxStops = 1
  ParentCancelAllowed = {}
  StopWaits = TRUE
SPECIFICATION Spec
INVARIANTS TaskBound NoOverlap StopFinal FreshAtQuiescence CleanupAtMostOnce NoCleanupWhileLive CleanupExactlyOnceAtQuiescence TrackerExact
PROPERTIES StopFinalAct
