CONSTANTS
  RR = {"R1","R2"}
  Res = {"r1"}
  FSlots = {}
  Dyn <- Dyn8
  Keys = {}
  Prog <- ProgB
  Body <- NoBody
  AlwaysSpawn <- Inline2
  MaxBump = 1
  MaxFail = 0
  MaxTasks = 14
  StopAllowed = {}
  MaxStops = 1
  ParentCancelAllowed = {}
  StopWaits = TRUE
SPECIFICATION Spec
INVARIANTS TaskBound NoOverlap StopFinal FreshAtQuiescence CleanupAtMostOnce NoCleanupWhileLive CleanupExactlyOnceAtQuiescence TrackerExact
PROPERTIES StopFinalAct
