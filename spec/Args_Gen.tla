------------------------------ MODULE Args_Gen ------------------------------
(* M5 for C18: the case matrix (echo field x value class). Checks on the model *)
(* that every well-typed value is accepted and arrives as sent (Canon is the   *)
(* identity on it, text-unmarshalers and left-out optionals excepted).         *)
EXTENDS Args, SequencesExt
Cases == UNION {{[f |-> f, j |-> j] : j \in Vals(ArgTypes[f])} : f \in DOMAIN ArgTypes}
ASSUME ndJsonSerialize(IOEnv.OUT, SetToSeq(Cases))
VARIABLE c
Init == c \in Cases
Next == UNCHANGED c
RECURSIVE Plain(_)
Plain(T) == T.k \in {"int", "float", "bool", "string", "bytes", "time", "enum"} \/ (T.k = "list" /\ Plain(T.of))
\* a well-typed value of a plain type arrives exactly as sent
GoodArrivesAsSent == LET T == ArgTypes[c.f] IN (Plain(T) /\ c.j \in Good(T)) => Canon(T, c.j) = c.j
\* every value of a wrong kind is rejected, every well-typed one accepted
Classified == LET T == ArgTypes[c.f] IN (c.j \in Good(T)) => Canon(T, c.j) # Reject
=============================================================================
