-------------------------------- MODULE Args --------------------------------
(* C18: how argument values must arrive in resolvers.                          *)
(* An argument type is a tree  [k, of, fields, names, bits]  with k one of     *)
(*   int float bool string enum bytes time text | ptr opt list obj             *)
(* (emitted by the harness for every echo field of the argument gallery).      *)
(* Canon(T, j) is the value that must arrive when JSON value j is sent for an  *)
(* argument of type T - by literal, by variable or by variable default alike - *)
(* or Reject when the request must fail as a client error before any resolver  *)
(* runs (missing required value, value of the wrong JSON kind).                *)
EXTENDS JsonVal, Json, IOUtils

ArgTypes == JsonDeserialize(IOEnv.ARGTYPES)      \* field name -> type tree of its argument x
Absent == [k |-> "absent"]
Reject == [k |-> "reject"]
Missing(j) == j.k \in {"absent", "n"}
HasChar(s, c) == \E i \in 1..Len(s) : SubSeq(s, i, i) = c
IsIntText(s) == ~HasChar(s, ".") /\ ~HasChar(s, "e") /\ ~HasChar(s, "E")

RECURSIVE Zero(_), Canon(_, _)
\* what an optional argument that was left out arrives as
Zero(T) ==
  CASE T.k \in {"int", "float"} -> [k |-> "i", s |-> "0"]
    [] T.k = "bool" -> JBool(FALSE)
    [] T.k \in {"string", "text"} -> Str("")
    [] T.k = "enum" -> Str("Color(0)")
    [] T.k = "time" -> Str("0001-01-01T00:00:00Z")
    [] T.k \in {"bytes", "list", "ptr"} -> Null
    [] T.k = "opt" -> Zero(T.of)
    [] T.k = "obj" -> Obj([f \in {T.names[i] : i \in DOMAIN T.names} |-> Zero(T.fields[f])])

Canon(T, j) ==
  CASE T.k = "ptr" -> IF Missing(j) THEN Null ELSE Canon(T.of, j)
    [] T.k = "opt" -> IF Missing(j) THEN Zero(T.of) ELSE Canon(T.of, j)
    [] T.k = "int" -> IF j.k = "i" /\ IsIntText(j.s) THEN j ELSE Reject
    [] T.k = "float" -> IF j.k = "i" THEN j ELSE Reject
    [] T.k = "bool" -> IF j.k = "b" THEN j ELSE Reject
    [] T.k \in {"string", "bytes", "time"} -> IF j.k = "s" THEN j ELSE Reject
    [] T.k = "text" -> IF j.k = "s" THEN Str("tu:" \o j.s) ELSE Reject
    [] T.k = "enum" -> IF j.k = "s" /\ j.s \in {T.names[i] : i \in DOMAIN T.names} THEN j ELSE Reject
    [] T.k = "list" -> IF j.k # "a" THEN Reject
                       ELSE LET es == [i \in DOMAIN j.a |-> Canon(T.of, j.a[i])] IN
                            IF \E i \in DOMAIN es : es[i] = Reject THEN Reject ELSE Arr(es)
    [] T.k = "obj" -> IF j.k # "o" THEN Reject
                      ELSE LET names == {T.names[i] : i \in DOMAIN T.names}
                               fs == [f \in names |-> Canon(T.fields[f], IF f \in DOMAIN j.m THEN j.m[f] ELSE Absent)] IN
                           IF \E f \in names : fs[f] = Reject THEN Reject ELSE Obj(fs)

-----------------------------------------------------------------------------
\* value classes (boundary values of each width as text; TLC never does arithmetic on them)
MaxText(bits) == CASE bits = 8 -> "127" [] bits = 16 -> "32767" [] bits = 32 -> "2147483647" [] bits = 64 -> "9007199254740991"
                   [] bits = -8 -> "255" [] bits = -16 -> "65535" [] bits = -32 -> "4294967295" [] bits = -64 -> "9007199254740991"
MinText(bits) == CASE bits = 8 -> "-128" [] bits = 16 -> "-32768" [] bits = 32 -> "-2147483648" [] bits = 64 -> "-9007199254740991"
                   [] bits < 0 -> "0"
Num(t) == [k |-> "i", s |-> t]
WrongKinds == {Str("5"), JBool(TRUE), Num("3"), Null, Absent, Arr(<<>>), EmptyObj, Arr(<<Num("1")>>)}

RECURSIVE Good(_), Vals(_)
\* well-typed values of T
Good(T) ==
  CASE T.k = "int" -> {Num("0"), Num("1"), Num(MaxText(T.bits)), Num(MinText(T.bits))} \cup (IF T.bits > 0 THEN {Num("-1")} ELSE {})
    [] T.k = "float" -> {Num("0"), Num("1.5"), Num("-2.25"), Num("3")}
    [] T.k = "bool" -> {JBool(TRUE), JBool(FALSE)}
    [] T.k = "string" -> {Str(""), Str("a"), Str("sp ace"), Str("q\"uote"), Str("back\\slash")}
    [] T.k = "text" -> {Str("abc"), Str("")}
    [] T.k = "bytes" -> {Str(""), Str("aGk="), Str("AAEC/w==")}
    [] T.k = "time" -> {Str("2020-01-02T03:04:05Z"), Str("1999-12-31T23:59:59.5Z")}
    [] T.k = "enum" -> {Str(T.names[i]) : i \in DOMAIN T.names}
    [] T.k = "ptr" -> Good(T.of) \cup {Null, Absent}
    [] T.k = "opt" -> Good(T.of) \cup {Null, Absent}
    [] T.k = "list" -> LET g == Good(T.of) \ {Absent} IN {Arr(<<>>)} \cup {Arr(<<x>>) : x \in g}
                       \cup {Arr(<<x, y>>) : x \in {CHOOSE z \in g : TRUE}, y \in g}
    [] T.k = "obj" -> LET names == {T.names[i] : i \in DOMAIN T.names}
                          pick(f) == CHOOSE z \in Good(T.fields[f]) : z.k \notin {"absent"} IN
                      {Obj([f \in names |-> pick(f)])}
                      \cup UNION {{Obj([g \in names |-> IF g = f THEN x ELSE pick(g)]) : x \in Good(T.fields[f]) \ {Absent}} : f \in names}
                      \cup {Obj([g \in names \ {f} |-> pick(g)]) : f \in {h \in names : Canon(T.fields[h], Absent) # Reject}}  \* an optional field left out
\* everything we send for T: well-typed values plus values of the wrong JSON kind
Vals(T) ==
  Good(T) \cup {w \in WrongKinds : Canon(T, w) = Reject}
  \cup (IF T.k = "list" THEN {Arr(<<w>>) : w \in {x \in WrongKinds \ {Absent} : Canon(T.of, x) = Reject}} ELSE {})
  \cup (IF T.k = "enum" THEN {Str("BLUE")} ELSE {})
  \cup (IF T.k = "obj" THEN LET names == {T.names[i] : i \in DOMAIN T.names}
                                pick(f) == CHOOSE z \in Good(T.fields[f]) : z.k \notin {"absent"} IN
                            {Obj([g \in names \ {f} |-> pick(g)]) : f \in names}                     \* any one field left out
                            \cup UNION {{Obj([g \in names |-> IF g = f THEN x ELSE pick(g)]) : x \in {Str("wrong"), JBool(TRUE)}} : f \in names}
        ELSE {})
  \cup (IF T.k \in {"ptr", "opt"} THEN Vals(T.of) ELSE {})
=============================================================================
