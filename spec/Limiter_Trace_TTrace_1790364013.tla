---- MODULE Limiter_Trace_TTrace_1790364013 ----
EXTENDS Sequences, TLCExt, Toolbox, Naturals, TLC, Limiter_Trace

_expression ==
    LET Limiter_Trace_TEExpression == INSTANCE Limiter_Trace_TEExpression
    IN Limiter_Trace_TEExpression!expression
----

_trace ==
    LET Limiter_Trace_TETrace == INSTANCE Limiter_Trace_TETrace
    IN Limiter_Trace_TETrace!trace
----

_inv ==
    ~(
        TLCGet("level") = Len(_TETrace)
        /\
        side = (<<"idle", "idle", "idle">>)
        /\
        ch = (0)
        /\
        calls = (<<0, 0, 0>>)
        /\
        cancelled = (<<FALSE, FALSE, FALSE>>)
        /\
        stk = (<<<<[k |-> "base", pc |-> "try", re |-> FALSE]>>, <<[k |-> "base", pc |-> "start", re |-> FALSE]>>, <<[k |-> "base", pc |-> "try", re |-> FALSE]>>>>)
        /\
        l = (4)
        /\
        scalls = (<<0, 0, 0>>)
        /\
        hasH = (<<FALSE, FALSE, FALSE>>)
        /\
        noLim = (<<FALSE, FALSE, FALSE>>)
        /\
        status = (<<"none", "none", "none">>)
    )
----

_init ==
    /\ cancelled = _TETrace[1].cancelled
    /\ stk = _TETrace[1].stk
    /\ l = _TETrace[1].l
    /\ scalls = _TETrace[1].scalls
    /\ ch = _TETrace[1].ch
    /\ hasH = _TETrace[1].hasH
    /\ noLim = _TETrace[1].noLim
    /\ status = _TETrace[1].status
    /\ side = _TETrace[1].side
    /\ calls = _TETrace[1].calls
----

_next ==
    /\ \E i,j \in DOMAIN _TETrace:
        /\ \/ /\ j = i + 1
              /\ i = TLCGet("level")
        /\ cancelled  = _TETrace[i].cancelled
        /\ cancelled' = _TETrace[j].cancelled
        /\ stk  = _TETrace[i].stk
        /\ stk' = _TETrace[j].stk
        /\ l  = _TETrace[i].l
        /\ l' = _TETrace[j].l
        /\ scalls  = _TETrace[i].scalls
        /\ scalls' = _TETrace[j].scalls
        /\ ch  = _TETrace[i].ch
        /\ ch' = _TETrace[j].ch
        /\ hasH  = _TETrace[i].hasH
        /\ hasH' = _TETrace[j].hasH
        /\ noLim  = _TETrace[i].noLim
        /\ noLim' = _TETrace[j].noLim
        /\ status  = _TETrace[i].status
        /\ status' = _TETrace[j].status
        /\ side  = _TETrace[i].side
        /\ side' = _TETrace[j].side
        /\ calls  = _TETrace[i].calls
        /\ calls' = _TETrace[j].calls

\* Uncomment the ASSUME below to write the states of the error trace
\* to the given file in Json format. Note that you can pass any tuple
\* to `JsonSerialize`. For example, a sub-sequence of _TETrace.
    \* ASSUME
    \*     LET J == INSTANCE Json
    \*         IN J!JsonSerialize("Limiter_Trace_TTrace_1790364013.json", _TETrace)

=============================================================================

 Note that you can extract this module `Limiter_Trace_TEExpression`
  to a dedicated file to reuse `expression` (the module in the 
  dedicated `Limiter_Trace_TEExpression.tla` file takes precedence 
  over the module `Limiter_Trace_TEExpression` below).

---- MODULE Limiter_Trace_TEExpression ----
EXTENDS Sequences, TLCExt, Toolbox, Naturals, TLC, Limiter_Trace

expression == 
    [
        \* To hide variables of the `Limiter_Trace` spec from the error trace,
        \* remove the variables below.  The trace will be written in the order
        \* of the fields of this record.
        cancelled |-> cancelled
        ,stk |-> stk
        ,l |-> l
        ,scalls |-> scalls
        ,ch |-> ch
        ,hasH |-> hasH
        ,noLim |-> noLim
        ,status |-> status
        ,side |-> side
        ,calls |-> calls
        
        \* Put additional constant-, state-, and action-level expressions here:
        \* ,_stateNumber |-> _TEPosition
        \* ,_cancelledUnchanged |-> cancelled = cancelled'
        
        \* Format the `cancelled` variable as Json value.
        \* ,_cancelledJson |->
        \*     LET J == INSTANCE Json
        \*     IN J!ToJson(cancelled)
        
        \* Lastly, you may build expressions over arbitrary sets of states by
        \* leveraging the _TETrace operator.  For example, this is how to
        \* count the number of times a spec variable changed up to the current
        \* state in the trace.
        \* ,_cancelledModCount |->
        \*     LET F[s \in DOMAIN _TETrace] ==
        \*         IF s = 1 THEN 0
        \*         ELSE IF _TETrace[s].cancelled # _TETrace[s-1].cancelled
        \*             THEN 1 + F[s-1] ELSE F[s-1]
        \*     IN F[_TEPosition - 1]
    ]

=============================================================================



Parsing and semantic processing can take forever if the trace below is long.
 In this case, it is advised to uncomment the module below to deserialize the
 trace from a generated binary file.

\*
\*---- MODULE Limiter_Trace_TETrace ----
\*EXTENDS IOUtils, TLC, Limiter_Trace
\*
\*trace == IODeserialize("Limiter_Trace_TTrace_1790364013.bin", TRUE)
\*
\*=============================================================================
\*

---- MODULE Limiter_Trace_TETrace ----
EXTENDS TLC, Limiter_Trace

trace == 
    <<
    ([side |-> <<"idle", "idle", "idle">>,ch |-> 0,calls |-> <<0, 0, 0>>,cancelled |-> <<FALSE, FALSE, FALSE>>,stk |-> <<<<[k |-> "base", pc |-> "start", re |-> FALSE]>>, <<[k |-> "base", pc |-> "start", re |-> FALSE]>>, <<[k |-> "base", pc |-> "start", re |-> FALSE]>>>>,l |-> 1,scalls |-> <<0, 0, 0>>,hasH |-> <<FALSE, FALSE, FALSE>>,noLim |-> <<FALSE, FALSE, FALSE>>,status |-> <<"none", "none", "none">>]),
    ([side |-> <<"idle", "idle", "idle">>,ch |-> 0,calls |-> <<0, 0, 0>>,cancelled |-> <<FALSE, FALSE, FALSE>>,stk |-> <<<<[k |-> "base", pc |-> "start", re |-> FALSE]>>, <<[k |-> "base", pc |-> "start", re |-> FALSE]>>, <<[k |-> "base", pc |-> "start", re |-> FALSE]>>>>,l |-> 2,scalls |-> <<0, 0, 0>>,hasH |-> <<FALSE, FALSE, FALSE>>,noLim |-> <<FALSE, FALSE, FALSE>>,status |-> <<"none", "none", "none">>]),
    ([side |-> <<"idle", "idle", "idle">>,ch |-> 0,calls |-> <<0, 0, 0>>,cancelled |-> <<FALSE, FALSE, FALSE>>,stk |-> <<<<[k |-> "base", pc |-> "start", re |-> FALSE]>>, <<[k |-> "base", pc |-> "start", re |-> FALSE]>>, <<[k |-> "base", pc |-> "try", re |-> FALSE]>>>>,l |-> 3,scalls |-> <<0, 0, 0>>,hasH |-> <<FALSE, FALSE, FALSE>>,noLim |-> <<FALSE, FALSE, FALSE>>,status |-> <<"none", "none", "none">>]),
    ([side |-> <<"idle", "idle", "idle">>,ch |-> 0,calls |-> <<0, 0, 0>>,cancelled |-> <<FALSE, FALSE, FALSE>>,stk |-> <<<<[k |-> "base", pc |-> "try", re |-> FALSE]>>, <<[k |-> "base", pc |-> "start", re |-> FALSE]>>, <<[k |-> "base", pc |-> "try", re |-> FALSE]>>>>,l |-> 4,scalls |-> <<0, 0, 0>>,hasH |-> <<FALSE, FALSE, FALSE>>,noLim |-> <<FALSE, FALSE, FALSE>>,status |-> <<"none", "none", "none">>])
    >>
----


=============================================================================

---- CONFIG Limiter_Trace_TTrace_1790364013 ----
CONSTANTS
    N = 1
    NG = 3
    MaxCalls = 3
    SideCalls = 1
    Protocol = "cas_first"
    AllowCancel = TRUE
    AllowNoLimiter = TRUE

INVARIANT
    _inv

CHECK_DEADLOCK
    \* CHECK_DEADLOCK off because of PROPERTY or INVARIANT above.
    FALSE

INIT
    _init

NEXT
    _next

CONSTANT
    _TETrace <- _trace

ALIAS
    _expression
=============================================================================
\* Generated on Fri Sep 25 19:20:15 UTC 2026