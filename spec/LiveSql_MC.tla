----------------------------- MODULE LiveSql_MC -----------------------------
(* M1 for C07: all interleavings of writes, garbling, delivery and the steps of  *)
(* 2-3 live queries over a two-row universe.                                    *)
EXTENDS LiveSql
CONSTANTS Filter
Q3 == {"q1", "q2", "q3"}
None == [x \in {} |-> x]
V(x) == [v |-> x, rep |-> "int64"]
F2 == [q \in {"q1", "q2"} |-> IF q = "q1" THEN [org |-> V("1")] ELSE None]
F3 == [q \in Q3 |-> IF q = "q1" THEN [org |-> V("1")] ELSE IF q = "q2" THEN [id |-> V("2")] ELSE [org |-> V("2"), id |-> V("1")]]
Init == /\ filt = Filter
        /\ table \in {None} \cup UNION {{[j \in {i} |-> Row(i, v)] : v \in Vals} : i \in Ids}
        /\ log = <<>>
        /\ pc = [q \in Queries |-> "idle"] /\ ndep = [q \in Queries |-> 0] /\ cur = [q \in Queries |-> FALSE]
        /\ held = [q \in Queries |-> {}] /\ dirty = [q \in Queries |-> TRUE]
        /\ nw = 0 /\ nbad = 0
Spec == Init /\ [][Next]_vars /\ Fair
Bounded == \A q \in Queries : ndep[q] <= 2
=============================================================================
