----------------------------- MODULE LiveSql_MC -----------------------------
EXTENDS LiveSql
Q2 == {"q1", "q2"}
None == [x \in {} |-> x]
F2 == [q \in Q2 |-> IF q = "q1" THEN [org |-> "1"] ELSE None]
Q3 == {"q1", "q2", "q3"}
F3 == [q \in Q3 |-> IF q = "q1" THEN [org |-> "1"] ELSE IF q = "q2" THEN [id |-> "2"] ELSE [org |-> "2", id |-> "1"]]
=============================================================================
