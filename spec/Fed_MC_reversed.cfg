CONSTANTS
  LiftPaths = TRUE
  InOrder = FALSE
INIT Init
NEXT Next
INVARIANTS TransparentOK OnlyExposedOK HopsOKInv
CHECK_DEADLOCK FALSE
