--------------------------- MODULE ExecSched_MC ---------------------------
(* Every tree of up to N work units, every placement of failing units, every interleaving the scheduler
   allows.  The tree and the failures are picked in Init and never change.

   fails[u] = "no"      the unit's resolvers succeed
            = "leaf"    a resolver of the unit fails and the unit returns no children
                        (executeBatchWorkUnit / executeNonExpensiveWorkUnit: Fail, return nil)
            = "partial" a field resolved inline below the unit fails, the unit still returns children
                        (resolveObjectBatch: executeWorkUnit of one selection returns nil, the others go on) *)
EXTENDS ExecSched, TLC

CONSTANT N
ASSUME Unit = 1..N

VARIABLES parent,  \* Unit -> 0..N, parent[u] < u; 0: a top-level unit
          fails,   \* Unit -> {"no", "leaf", "partial"}
          failed   \* units that have recorded their error

vars == <<svars, parent, fails, failed>>

Roots == {u \in Unit : parent[u] = 0}
Kids(u) == {k \in Unit : parent[k] = u}

Init == /\ SInit
        /\ parent \in {p \in [Unit -> 0..N] : \A u \in Unit : p[u] < u}
        /\ fails \in [Unit -> {"no", "leaf", "partial"}]
        /\ failed = {}

MRun == Run(Roots) /\ UNCHANGED <<parent, fails, failed>>
MStart(u) == Start(u) /\ UNCHANGED <<parent, fails, failed>>
MFail(u) == /\ st[u] = "running" /\ fails[u] # "no" /\ u \notin failed
            /\ RecordErr(u)
            /\ failed' = failed \cup {u}
            /\ UNCHANGED <<parent, fails>>
MFinish(u) == /\ fails[u] # "no" => u \in failed
              /\ Finish(u, IF fails[u] = "leaf" THEN {} ELSE Kids(u))
              /\ UNCHANGED <<parent, fails, failed>>
MReturn == Return /\ UNCHANGED <<parent, fails, failed>>

Next == MRun \/ MReturn \/ \E u \in Unit : MStart(u) \/ MFail(u) \/ MFinish(u)

Spec == Init /\ [][Next]_vars /\ WF_vars(Next)

----------------------------------------------------------------------------
RECURSIVE Reach(_)
\* the units a sequential reference execution runs: every proper ancestor returned its children
Reach(u) == IF parent[u] = 0 THEN TRUE ELSE fails[parent[u]] # "leaf" /\ Reach(parent[u])

\* C01 at the level of units: whatever the schedule, exactly the reference units have run when Run returns
ReturnComplete == phase = "returned" => \A u \in Unit : (st[u] = "done") = Reach(u)

\* C16 at the level of units: the query fails iff some reference unit fails, and with the error of one of them
Outcome == phase = "returned" =>
             /\ (err # 0) = (\E u \in Unit : Reach(u) /\ fails[u] # "no")
             /\ err # 0 => Reach(err) /\ fails[err] # "no"

ParentFirst == \A u \in Unit : st[u] # "absent" /\ parent[u] # 0 => st[parent[u]] = "done"

Terminates == <>(phase = "returned")

\* the recorded error is schedule dependent only among the failing reference units (coverage: both orders occur)
TwoErrorsPossible == ~(phase = "returned" /\ err = 2 /\ fails[1] # "no" /\ Reach(1))
=============================================================================
