CONSTANTS
  RR = {"R1"}
  Res = {}
  FSlots = {"s1","s2"}
  Dyn <- Dyn16
  Keys = {"k1","k2"}
  Prog <- ProgC
  Body <- BodyC
  AlwaysSpawn <- Inline1
  MaxBump = 1
  MaxFail = 1
  MaxTasks = 14
  StopAllowed = {"R1"}
  MaxStops = 1
  ParentCancelAllowed = {}
  StopWaits = TRUE
SPECIFICATION Spec
INVARIANTS TaskBound NoOverlap StopFinal FreshAtQuiescence CleanupAtMostOnce NoCleanupWhileLive CleanupExactlyOnceAtQuiescence TrackerExact
PROPERTIES StopFinalAct
