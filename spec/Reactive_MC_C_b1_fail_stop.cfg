CONSTANTS
  RR = {"R1"}
  Res = {}
  FSlots = {"s1","s2"}
  Dyn <- Dyn16
  Keys = {"k1","k2"}
  Prog <- ProgC
  Body <- BodyC
  AlwaysSpawn <- Inline1
  MaxBump = 1
  MaxFail = 1
  MaxTasks = 14
  StopAllowed = {"R1"}
SPECIFICATION Spec
INVARIANTS TaskBound NoOverlap StopFinal FreshAtQuiescence CleanupAtMostOnce NoCleanupWhileLive CleanupExactlyOnceAtQuiescence TrackerExact
PROPERTIES StopFinalAct
