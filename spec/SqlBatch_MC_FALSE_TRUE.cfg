CONSTANTS
  Cols <- MCCols
  RowType <- MCRowType
  NormalisedMatcher = FALSE
  NilStandalone = TRUE
INIT Init
NEXT Next
INVARIANTS TransparentOK FewerSelects
CHECK_DEADLOCK FALSE
