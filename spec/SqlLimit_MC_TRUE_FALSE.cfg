CONSTANTS
  UpdateWhereLimited = TRUE
  AllowUpsert = FALSE
INIT Init
NEXT Next
INVARIANTS StatementsConfined RejectedTouchesNothing NeverOutside KeysStayUnique
CHECK_DEADLOCK FALSE
