----------------------------- MODULE Limiter_Sim -----------------------------
(* M3 for C20: Limiter.tla with a history variable naming every step, so that *)
(* behaviours produced by `tlc -simulate` can be replayed, step for step, as  *)
(* schedules of the real goroutines (harness/drv/c20 -sched).  A behaviour is *)
(* printed when every goroutine is done.                                      *)
EXTENDS Limiter, Json
VARIABLE hist
svars == <<vars, hist>>

H(a, t, g) == hist' = Append(hist, [a |-> a, t |-> t, g |-> g])

SInit == Init /\ hist = <<>>
SNext == \E g \in G :
  \/ CallAcquire(g) /\ H("CallAcquire", "m", g)
  \/ AcqSend(g) /\ H("AcqSend", "m", g)
  \/ AcqCancelled(g) /\ H("AcqCancelled", "m", g)
  \/ RelSwap(g) /\ H("RelSwap", "m", g)
  \/ RelRecv(g) /\ H("RelRecv", "m", g)
  \/ BlkCas(g) /\ H("BlkCas", "m", g)
  \/ BlkRecv(g) /\ H("BlkRecv", "m", g)
  \/ ReturnF(g) /\ H("ReturnF", "m", g)
  \/ UnblkSend(g) /\ H("UnblkSend", "m", g)
  \/ UnblkCas(g) /\ H("UnblkCas", "m", g)
  \/ UnblkGive(g) /\ H("UnblkGive", "m", g)
  \/ Finish(g) /\ H("Finish", "m", g)
  \/ SideRelSwap(g) /\ H("SideRelSwap", "s", g)
  \/ SideRelRecv(g) /\ H("SideRelRecv", "s", g)
  \/ Cancel(g) /\ H("Cancel", "m", g)
SSpec == SInit /\ [][SNext]_svars

Emit == AllDone => PrintT(<<"SCHED", ToJson([nolim |-> noLim, steps |-> hist])>>)

\* directed targets: TLC reports a shortest behaviour reaching each of these windows as a
\* "violation" of its negation; the harness turns the reported hist into a schedule.
Sched == PrintT(<<"SCHED", ToJson([nolim |-> noLim, steps |-> hist])>>)
Reached(cond) == ~cond \/ (Sched /\ FALSE)
AtUcas(g) == Top(g).k = "tr" /\ Top(g).pc = "ucas"
\* released (through blocked) after the re-acquiring send and before its CAS
Target1 == Reached(\E g \in G : AtUcas(g) /\ status[g] = "rel" /\ side[g] = "idle")
\* a release that saw acquired is about to receive while the holder has just re-acquired
Target2 == Reached(\E g \in G : side[g] = "recv" /\ Top(g).k = "base" /\ Len(stk[g]) = 1 /\ calls[g] > 0 /\ ch = N)
\* the side release and the main TemporarilyRelease are both about to receive
Target3 == Reached(\E g \in G : side[g] = "recv" /\ Top(g).k = "tr" /\ Top(g).pc = "inF")
\* give-back pending while another user waits in Acquire with a full channel
Target4 == Reached(\E g, h \in G : g # h /\ Top(g).k = "tr" /\ Top(g).pc = "ugive" /\ Top(h).pc = "try" /\ ch = N)
\* nested TemporarilyRelease with the outer one having given up the spot
Target5 == Reached(\E g \in G : Len(stk[g]) >= 3 /\ stk[g][1].k = "tr" /\ stk[g][2].k = "tr" /\ stk[g][2].re)
\* release from inside f, then f returns
Target6 == Reached(\E g \in G : Top(g).k = "tr" /\ Top(g).pc = "inF" /\ Top(g).re /\ status[g] = "rel" /\ side[g] = "idle" /\ scalls[g] = 0)
=============================================================================
