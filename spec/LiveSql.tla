------------------------------- MODULE LiveSql -------------------------------
(* C07: every committed write reaches every live query it affects.              *)
(*                                                                            *)
(* State: the table; the change log (binlog) between commit and delivery; per    *)
(* live query the dependencies it has registered with the tracker, the rows it   *)
(* holds, whether it has been invalidated.  One action per step of the code:     *)
(*   Write      a statement commits: the table changes and a change event with   *)
(*              the row before and after is appended to the log;                 *)
(*   Garble     an undelivered event takes a form the poll loop cannot decode    *)
(*              (column count / type mismatch after a schema change);            *)
(*   Deliver    RunPollLoop takes the next event; dbTracker.processBinlog        *)
(*              invalidates every REGISTERED dependency whose filter matches     *)
(*              the row before or after; an event that cannot be decoded must    *)
(*              invalidate every dependency on the table (BadInvalidates);       *)
(*   Begin      a (re)run of the query starts; the dependency of the previous    *)
(*              run is no longer current (it lingers until Unregister: reactive  *)
(*              releases it a little later -> Resource.Cleanup -> tracker.remove)*)
(*   Register   livesql registers this run's dependency (tracker.add);           *)
(*   Read       the SELECT executes: the query now holds Rows(table, filter).    *)
(* RegisterFirst = TRUE is the order the code uses (register, then read);        *)
(* FALSE (read, then register) loses writes that commit in between.              *)
(* PerQuery / Converged: a query that is not running, not invalidated and not    *)
(* affected by anything still in the log holds exactly the rows the table has    *)
(* for its filter.                                                              *)
EXTENDS Integers, Sequences, FiniteSets, TLC

CONSTANTS Queries,         \* names of live queries (a scenario uses some of them)
          Ids, Vals,       \* the model checker's row universe: [id, org]
          MaxWrites, MaxBad,
          RegisterFirst, BadInvalidates

VARIABLES filt,      \* active query -> filter (column -> [v |-> value or "NULL", ..]); empty filter = all rows
          table,     \* id -> row (a record column -> value, "NULL" for NULL), for the ids present
          log,       \* Seq of [before, after, bad]; NoRow = absent
          pc,        \* query -> "idle" | "begun" | "registered" | "readfirst" | "held"
          ndep,      \* query -> number of dependencies registered with the tracker
          cur,       \* query -> BOOLEAN : the current run's dependency is among them
          held,      \* query -> set of rows
          dirty,     \* query -> BOOLEAN : invalidated since its run began (or never ran)
          nw, nbad
vars == <<filt, table, log, pc, ndep, cur, held, dirty, nw, nbad>>

Active == DOMAIN filt
NULL == "NULL"
NoRow == [id |-> "NONE"]
\* sqlgen's Tester: every filter column equals the row's column as SQL values; nil matches NULL
Matches(f, row) == row.id # "NONE" /\ (\A c \in DOMAIN f : row[c] = f[c].v)
Rows(t, f) == {t[i] : i \in {j \in DOMAIN t : Matches(f, t[j])}}        \* full rows, not only their ids
Row(i, v) == [id |-> i, org |-> v]

\* maybe: whether the event can be decoded is not known in advance (trace validation, after ALTER TABLE)
Ev(b, a) == [before |-> b, after |-> a, bad |-> FALSE, maybe |-> FALSE]
Write ==
  /\ nw < MaxWrites /\ nw' = nw + 1
  /\ \/ \E i \in (Ids \ DOMAIN table) : \E v \in Vals :                           \* insert
          /\ table' = [j \in DOMAIN table \cup {i} |-> IF j = i THEN Row(i, v) ELSE table[j]]
          /\ log' = Append(log, Ev(NoRow, Row(i, v)))
     \/ \E i \in DOMAIN table : \E v \in Vals \ {table[i].org} :                   \* update
          /\ table' = [table EXCEPT ![i] = Row(i, v)]
          /\ log' = Append(log, Ev(table[i], Row(i, v)))
     \/ \E i \in DOMAIN table :                                                    \* delete
          /\ table' = [j \in DOMAIN table \ {i} |-> table[j]]
          /\ log' = Append(log, Ev(table[i], NoRow))
  /\ UNCHANGED <<filt, pc, ndep, cur, held, dirty, nbad>>
Garble ==
  /\ nbad < MaxBad /\ nbad' = nbad + 1
  /\ \E k \in DOMAIN log : ~log[k].bad /\ log' = [log EXCEPT ![k].bad = TRUE]
  /\ UNCHANGED <<filt, table, pc, ndep, cur, held, dirty, nw>>
Touches(ev, q) == Matches(filt[q], ev.before) \/ Matches(filt[q], ev.after)
Affected(ev, q) == IF ev.bad THEN BadInvalidates ELSE Touches(ev, q)
Deliver ==
  /\ log # <<>>
  /\ dirty' = [q \in Queries |-> dirty[q] \/ (q \in Active /\ cur[q] /\ Affected(Head(log), q))]
  /\ log' = Tail(log)
  /\ UNCHANGED <<filt, table, pc, ndep, cur, held, nw, nbad>>
Begin(q) ==
  /\ q \in Active /\ pc[q] \in {"idle", "held"} /\ dirty[q]
  /\ pc' = [pc EXCEPT ![q] = "begun"] /\ dirty' = [dirty EXCEPT ![q] = FALSE] /\ cur' = [cur EXCEPT ![q] = FALSE]
  /\ UNCHANGED <<filt, table, log, ndep, held, nw, nbad>>
Unregister(q) ==
  /\ q \in Active /\ ndep[q] > (IF cur[q] THEN 1 ELSE 0)
  /\ ndep' = [ndep EXCEPT ![q] = @ - 1]
  /\ UNCHANGED <<filt, table, log, pc, cur, held, dirty, nw, nbad>>
Register(q) ==
  /\ q \in Active /\ pc[q] = (IF RegisterFirst THEN "begun" ELSE "readfirst")
  /\ ndep' = [ndep EXCEPT ![q] = @ + 1] /\ cur' = [cur EXCEPT ![q] = TRUE]
  /\ pc' = [pc EXCEPT ![q] = IF RegisterFirst THEN "registered" ELSE "held"]
  /\ UNCHANGED <<filt, table, log, held, dirty, nw, nbad>>
Read(q) ==
  /\ q \in Active /\ pc[q] = (IF RegisterFirst THEN "registered" ELSE "begun")
  /\ held' = [held EXCEPT ![q] = Rows(table, filt[q])]
  /\ pc' = [pc EXCEPT ![q] = IF RegisterFirst THEN "held" ELSE "readfirst"]
  /\ UNCHANGED <<filt, table, log, ndep, cur, dirty, nw, nbad>>

Next == Write \/ Garble \/ Deliver \/ \E q \in Queries : Begin(q) \/ Unregister(q) \/ Register(q) \/ Read(q)
Fair == WF_vars(Deliver) /\ \A q \in Queries : WF_vars(Begin(q)) /\ WF_vars(Unregister(q)) /\ WF_vars(Register(q)) /\ WF_vars(Read(q))

Quiescent == log = <<>> /\ \A q \in Active : pc[q] = "held" /\ ~dirty[q]
Converged == Quiescent => \A q \in Active : held[q] = Rows(table, filt[q])
Settled(q) == pc[q] = "held" /\ ~dirty[q] /\ \A k \in DOMAIN log : ~(log[k].bad \/ log[k].maybe \/ Touches(log[k], q))
PerQuery == \A q \in Active : Settled(q) => held[q] = Rows(table, filt[q])
CurWhileHeld == \A q \in Active : pc[q] = "held" => cur[q] /\ ndep[q] >= 1
EventuallyQuiescent == <>[](nw = MaxWrites => Quiescent)
=============================================================================
