------------------------------- MODULE LiveSql -------------------------------
(* C07: every committed write reaches every live query it affects.              *)
(*                                                                            *)
(* State: the table; the change log (binlog) between commit and delivery; per    *)
(* live query its dependency registration, the rows it holds, whether it has     *)
(* been invalidated.  One action per step of the real code:                      *)
(*   Write      a statement commits: the table changes and a change event with   *)
(*              the row before and after is appended to the log (fakesql /       *)
(*              MySQL);                                                          *)
(*   Deliver    RunPollLoop takes the next event, decodes it, and                *)
(*              dbTracker.processBinlog invalidates every REGISTERED query       *)
(*              whose filter matches the row before or after; an event that      *)
(*              cannot be decoded must invalidate every registered query on      *)
(*              the table (BadInvalidates);                                      *)
(*   Begin      a (re)run of the query starts: the previous run's dependency     *)
(*              is released (reactive cache cleanup -> tracker.remove);          *)
(*   Register   livesql registers the dependency (tracker.add);                  *)
(*   Read       the SELECT executes: the query now holds Rows(table, filter).    *)
(*   RegisterFirst = TRUE is the order the code uses (register, then read);       *)
(*   FALSE (read, then register) loses writes that commit in between.            *)
(* Converged: when nothing is in flight, every query holds exactly the rows the  *)
(* table has for its filter.                                                     *)
EXTENDS Integers, Sequences, FiniteSets, TLC

CONSTANTS Queries,         \* live queries
          Filter,          \* query -> filter (column -> value), {} = all rows
          Ids, Vals,       \* row universe: id x value of the one filtered column "org"
          MaxWrites, MaxBad,
          RegisterFirst, BadInvalidates

VARIABLES table,     \* id -> value, for the ids present
          log,       \* Seq of [before, after, bad]; a row is <<id, val>> or <<>> (absent)
          pc,        \* query -> "idle" | "begun" | "registered" | "readfirst" | "held"
          dep,       \* query -> BOOLEAN : dependency registered with the tracker
          held,      \* query -> set of ids
          dirty,     \* query -> BOOLEAN : invalidated since its run began
          nw, nbad
vars == <<table, log, pc, dep, held, dirty, nw, nbad>>

NoRow == <<>>
Matches(f, row) == row # NoRow /\ (\A c \in DOMAIN f : (c = "id" /\ row[1] = f[c]) \/ (c = "org" /\ row[2] = f[c]))
Rows(t, f) == {i \in DOMAIN t : Matches(f, <<i, t[i]>>)}

Init == /\ table \in [{} -> Vals] \cup UNION {[{i} -> Vals] : i \in Ids}
        /\ log = <<>>
        /\ pc = [q \in Queries |-> "idle"] /\ dep = [q \in Queries |-> FALSE]
        /\ held = [q \in Queries |-> {}] /\ dirty = [q \in Queries |-> TRUE]     \* never ran = has to run
        /\ nw = 0 /\ nbad = 0

Ev(b, a) == [before |-> b, after |-> a, bad |-> FALSE]
Write ==
  /\ nw < MaxWrites /\ nw' = nw + 1
  /\ \/ \E i \in (Ids \ DOMAIN table) : \E v \in Vals :                           \* insert
          /\ table' = [j \in DOMAIN table \cup {i} |-> IF j = i THEN v ELSE table[j]]
          /\ log' = Append(log, Ev(NoRow, <<i, v>>))
     \/ \E i \in DOMAIN table : \E v \in Vals \ {table[i]} :                       \* update
          /\ table' = [table EXCEPT ![i] = v]
          /\ log' = Append(log, Ev(<<i, table[i]>>, <<i, v>>))
     \/ \E i \in DOMAIN table :                                                    \* delete
          /\ table' = [j \in DOMAIN table \ {i} |-> table[j]]
          /\ log' = Append(log, Ev(<<i, table[i]>>, NoRow))
  /\ UNCHANGED <<pc, dep, held, dirty, nbad>>
\* the event reaches the poll loop in a form it cannot decode (column count / type mismatch after a schema change)
Garble ==
  /\ nbad < MaxBad /\ nbad' = nbad + 1
  /\ \E k \in DOMAIN log : ~log[k].bad /\ log' = [log EXCEPT ![k].bad = TRUE]
  /\ UNCHANGED <<table, pc, dep, held, dirty, nw>>
Affected(ev, q) == IF ev.bad THEN BadInvalidates ELSE Matches(Filter[q], ev.before) \/ Matches(Filter[q], ev.after)
Deliver ==
  /\ log # <<>>
  /\ dirty' = [q \in Queries |-> dirty[q] \/ (dep[q] /\ Affected(Head(log), q))]
  /\ log' = Tail(log)
  /\ UNCHANGED <<table, pc, dep, held, nw, nbad>>
Begin(q) ==
  /\ pc[q] \in {"idle", "held"} /\ dirty[q]
  /\ pc' = [pc EXCEPT ![q] = "begun"] /\ dep' = [dep EXCEPT ![q] = FALSE] /\ dirty' = [dirty EXCEPT ![q] = FALSE]
  /\ UNCHANGED <<table, log, held, nw, nbad>>
Register(q) ==
  /\ pc[q] = (IF RegisterFirst THEN "begun" ELSE "readfirst")
  /\ dep' = [dep EXCEPT ![q] = TRUE]
  /\ pc' = [pc EXCEPT ![q] = IF RegisterFirst THEN "registered" ELSE "held"]
  /\ UNCHANGED <<table, log, held, dirty, nw, nbad>>
Read(q) ==
  /\ pc[q] = (IF RegisterFirst THEN "registered" ELSE "begun")
  /\ held' = [held EXCEPT ![q] = Rows(table, Filter[q])]
  /\ pc' = [pc EXCEPT ![q] = IF RegisterFirst THEN "held" ELSE "readfirst"]
  /\ UNCHANGED <<table, log, dep, dirty, nw, nbad>>

Next == Write \/ Garble \/ Deliver \/ \E q \in Queries : Begin(q) \/ Register(q) \/ Read(q)
Spec == Init /\ [][Next]_vars /\ WF_vars(Deliver) /\ \A q \in Queries : WF_vars(Begin(q)) /\ WF_vars(Register(q)) /\ WF_vars(Read(q))

Quiescent == log = <<>> /\ \A q \in Queries : pc[q] = "held" /\ ~dirty[q]
Converged == Quiescent => \A q \in Queries : held[q] = Rows(table, Filter[q])
\* a query that holds rows while nothing that affects it is in flight holds the right rows
\* (stronger, per query: no event in the log affects it, it is not dirty and it is not running)
Settled(q) == pc[q] = "held" /\ ~dirty[q] /\ \A k \in DOMAIN log : ~(IF log[k].bad THEN TRUE ELSE Matches(Filter[q], log[k].before) \/ Matches(Filter[q], log[k].after))
PerQuery == \A q \in Queries : Settled(q) => held[q] = Rows(table, Filter[q])
DepWhileHeld == \A q \in Queries : pc[q] = "held" => dep[q]
EventuallyQuiescent == <>[](nw = MaxWrites => Quiescent)
=============================================================================
