---------------------------- MODULE JsonVal ----------------------------
(* Tagged JSON values shared by every specification that talks about       *)
(* thunder's JSON results.  A value is one of                               *)
(*   [k |-> "n"]                        null                                *)
(*   [k |-> "b", s |-> "true"|"false"]  boolean                             *)
(*   [k |-> "i", s |-> decimal text]    number                              *)
(*   [k |-> "s", s |-> text]            string                              *)
(*   [k |-> "a", a |-> <<v1, ..>>]      array                               *)
(*   [k |-> "o", m |-> [name |-> v]]    object                              *)
(* Numbers are carried as text so that TLC never compares a string with a   *)
(* number.  The Go side of the bridge is harness/internal/tagjson.          *)
EXTENDS Integers, Sequences, FiniteSets, TLC

Null == [k |-> "n"]
JBool(b) == [k |-> "b", s |-> IF b THEN "true" ELSE "false"]
JInt(i) == [k |-> "i", s |-> ToString(i)]
Str(t) == [k |-> "s", s |-> t]
Arr(seq) == [k |-> "a", a |-> seq]
Obj(fn) == [k |-> "o", m |-> fn]
EmptyObj == Obj(<<>>)

IsScalar(v) == v.k \in {"b", "i", "s"}
IsNull(v) == v.k = "n"
IsArr(v) == v.k = "a"
IsObj(v) == v.k = "o"
Fields(v) == DOMAIN v.m

\* the key-stripped value: every "__key" field removed, recursively
RECURSIVE Strip(_)
Strip(v) == IF v.k = "a" THEN Arr([i \in DOMAIN v.a |-> Strip(v.a[i])])
            ELSE IF v.k = "o" THEN Obj([f \in Fields(v) \ {"__key"} |-> Strip(v.m[f])])
            ELSE v

\* all sequences over S of length at most n
SeqsUpTo(S, n) == UNION {[1..len -> S] : len \in 0..n}
\* all objects with field names drawn from F and values from V
ObjsOver(F, V) == UNION {{Obj(fn) : fn \in [G -> V]} : G \in SUBSET F}

\* decimal text -> integer, for the small index range the delta format uses
NumOf(v) == CHOOSE i \in -1..200 : ToString(i) = v.s

SetToSeqAny(S) ==
  LET RECURSIVE go(_)
      go(T) == IF T = {} THEN <<>> ELSE LET x == CHOOSE y \in T : TRUE IN <<x>> \o go(T \ {x})
  IN go(S)
=============================================================================
