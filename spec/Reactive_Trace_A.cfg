CONSTANTS
  RR = {"R1"}
  Res = {"r1","r2"}
  FSlots = {}
  Dyn <- Dyn40
  Keys = {}
  Prog <- ProgA
  Body <- NoBody
  AlwaysSpawn <- SpawnFromEnv
  MaxBump = 1000
  MaxFail = 1000
  MaxTasks = 1000
  StopAllowed = {"R1"}
  MaxStops = 3
  ParentCancelAllowed = {"R1"}
  StopWaits = TRUE
SPECIFICATION TSpec
CONSTRAINT HW
INVARIANTS NoOverlap StopFinal FreshAtQuiescence CleanupAtMostOnce NoCleanupWhileLive CleanupExactlyOnceAtQuiescence TrackerExact
POSTCONDITION Accepted
CHECK_DEADLOCK FALSE
