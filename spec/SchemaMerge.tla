----------------------------- MODULE SchemaMerge -----------------------------
(* C09: the gateway schema computed from several services, each possibly      *)
(* running several versions.                                                  *)
(*                                                                            *)
(* A schema is a function  type name -> [kind, fields, inputs, values,        *)
(* possible]; a type reference is [name, kind, nn] where nn[i] says whether   *)
(* level i (outermost first; Len(nn)-1 list wrappers) is non-null.            *)
(*                                                                            *)
(* The reference is N-ARY and works on SETS of schemas: Meet over the          *)
(* versions of one service (only what all versions support), Join over the     *)
(* services (everything at least one service supports).  Because they take     *)
(* sets, the outcome cannot depend on names or order - that is the property;   *)
(* thunder folds pairwise over name-sorted lists.                              *)
(*   - an argument / input field is required if any side requires it;          *)
(*   - an output is non-null only if every side guarantees it;                 *)
(*   - the same name with a different kind, base type or list depth is an      *)
(*     error; so is an argument that some side requires and another side       *)
(*     does not know (no query could satisfy both).                            *)
EXTENDS Integers, Sequences, FiniteSets, TLC

Rng(f) == {f[i] : i \in DOMAIN f}
Required(ref) == ref.nn[1]

Compat(a, b) == a.name = b.name /\ a.kind = b.kind /\ Len(a.nn) = Len(b.nn)
AllCompat(refs) == \A a, b \in refs : Compat(a, b)
\* input positions: required if any side requires; output positions: non-null only if all sides guarantee
MergeRefs(refs, input) ==
  LET r == CHOOSE x \in refs : TRUE
  IN [name |-> r.name, kind |-> r.kind,
      nn |-> [i \in DOMAIN r.nn |-> IF input THEN \E x \in refs : x.nn[i] ELSE \A x \in refs : x.nn[i]]]

\* ---- inputs (arguments of a field, fields of an input object): As is a set of functions name -> ref
InputNames(As) == UNION {DOMAIN A : A \in As}
Having(As, n) == {A \in As : n \in DOMAIN A}
InputsErr(As) ==
  \E n \in InputNames(As) :
     \/ ~AllCompat({A[n] : A \in Having(As, n)})
     \/ (Having(As, n) # As /\ \E A \in Having(As, n) : Required(A[n]))
\* keepAll = TRUE: names that at least one side knows (Join); FALSE: names every side knows (Meet)
MergeInputs(As, keepAll) ==
  LET names == {n \in InputNames(As) : keepAll \/ Having(As, n) = As}
  IN [n \in names |-> MergeRefs({A[n] : A \in Having(As, n)}, TRUE)]

\* ---- fields of an object type: Fs is a set of functions name -> [type, args]
FieldNames(Fs) == UNION {DOMAIN F : F \in Fs}
HavingF(Fs, n) == {F \in Fs : n \in DOMAIN F}
\* in a Meet only fields every side has are looked at; in a Join every field at least two sides share
FieldsErr(Fs, keepAll) ==
  \E n \in FieldNames(Fs) :
     /\ (keepAll \/ HavingF(Fs, n) = Fs)
     /\ \/ ~AllCompat({F[n].type : F \in HavingF(Fs, n)})
        \/ InputsErr({F[n].args : F \in HavingF(Fs, n)})
MergeFields(Fs, keepAll) ==
  LET names == {n \in FieldNames(Fs) : keepAll \/ HavingF(Fs, n) = Fs}
  IN [n \in names |-> [type |-> MergeRefs({F[n].type : F \in HavingF(Fs, n)}, FALSE),
                       args |-> MergeInputs({F[n].args : F \in HavingF(Fs, n)}, keepAll)]]

\* ---- schemas: Ss is a set of schemas
TypeNames(Ss) == UNION {DOMAIN S : S \in Ss}
HavingT(Ss, t) == {S \in Ss : t \in DOMAIN S}
Considered(Ss, keepAll) == {t \in TypeNames(Ss) : keepAll \/ HavingT(Ss, t) = Ss}
SchemaErr(Ss, keepAll) ==
  \E t \in Considered(Ss, keepAll) :
    LET Ts == {S[t] : S \in HavingT(Ss, t)} IN
     \/ \E a, b \in Ts : a.kind # b.kind
     \/ FieldsErr({T.fields : T \in Ts}, keepAll)
     \/ InputsErr({T.inputs : T \in Ts})
SetMerge(sets, keepAll) == IF keepAll THEN UNION sets ELSE {x \in UNION sets : \A s \in sets : x \in s}
MergeSchemas(Ss, keepAll) ==
  [t \in Considered(Ss, keepAll) |->
     LET Ts == {S[t] : S \in HavingT(Ss, t)}
         k == (CHOOSE T \in Ts : TRUE).kind
     IN [kind |-> k,
         fields |-> MergeFields({T.fields : T \in Ts}, keepAll),
         inputs |-> MergeInputs({T.inputs : T \in Ts}, keepAll),
         values |-> SetMerge({T.values : T \in Ts}, keepAll),
         possible |-> SetMerge({T.possible : T \in Ts}, keepAll)]]

\* Every two sides have to be compatible with each other (also about what a third side makes the
\* merge drop): a rule on unordered pairs, so that no order of merging can decide the outcome.
\* When no pair errs the N-ary merges below equal any pairwise folding (names: union / intersection;
\* nullability: OR / AND - all associative and commutative).
MeetErr(Vs) == \E a, b \in Vs : SchemaErr({a, b}, FALSE)
Meet(Vs) == MergeSchemas(Vs, FALSE)
JoinErr(Ss) == \E a, b \in Ss : SchemaErr({a, b}, TRUE)
Join(Ss) == MergeSchemas(Ss, TRUE)

\* the gateway schema of a deployment D : service -> set of version schemas
GatewayErr(D) == (\E s \in DOMAIN D : MeetErr(D[s])) \/ JoinErr({Meet(D[s]) : s \in DOMAIN D})
Gateway(D) == Join({Meet(D[s]) : s \in DOMAIN D})
\* which services can resolve a field of the gateway schema: those all of whose versions have it
Resolvers(D, t, f) == {s \in DOMAIN D : t \in DOMAIN Meet(D[s]) /\ f \in DOMAIN Meet(D[s])[t].fields}

\* ---- closure: every type a schema refers to is in the schema, with the kind the reference says
RefOK(S, r) == r.name \in DOMAIN S /\ S[r.name].kind = r.kind
Closed(S) ==
  \A t \in DOMAIN S :
     /\ \A f \in DOMAIN S[t].fields : RefOK(S, S[t].fields[f].type) /\ \A a \in DOMAIN S[t].fields[f].args : RefOK(S, S[t].fields[f].args[a])
     /\ \A i \in DOMAIN S[t].inputs : RefOK(S, S[t].inputs[i])
     /\ \A p \in S[t].possible : p \in DOMAIN S /\ S[p].kind = "OBJECT"

\* ---- validity of a query (one root field with literal arguments and flat sub-selections)
\* q = [field, args : name -> lit, subs : Seq([on, field])], lit = [k, v, fields]
\*
\* Two notions.  Valid* is GraphQL validation against a schema (what "a query that validates against
\* the merged schema" means).  Accepts* is what a thunder server really does with a query
\* (graphql.PrepareQuery + schemabuilder's argument parsers): a field declared without arguments
\* refuses any argument, but a field with at least one declared argument silently ignores
\* arguments it does not know, and input objects ignore unknown fields.  Accepts is calibrated
\* against the real PrepareQuery on every record (SchemaMerge_Trace).
\* a list literal has int and null elements; a null element needs a nullable element type
ValidLeaf(l, ref, S) ==
  IF l.k = "list"
  THEN /\ Len(ref.nn) = 2 /\ ref.kind = "SCALAR" /\ ref.name = "int64"
       /\ \A i \in DOMAIN l.elems : l.elems[i].k = "int" \/ (l.elems[i].k = "null" /\ ~ref.nn[2])
  ELSE
  /\ Len(ref.nn) = 1
  /\ CASE l.k = "int" -> ref.kind = "SCALAR" /\ ref.name = "int64"
       [] l.k = "str" -> ref.kind = "SCALAR" /\ ref.name = "string"
       [] l.k = "enum" -> ref.kind = "ENUM" /\ ref.name \in DOMAIN S /\ l.v \in S[ref.name].values
       [] OTHER -> FALSE
\* strict: nothing unknown may be given
ValidInputs(given, A, S, leaf(_, _, _)) ==
  /\ DOMAIN given \subseteq DOMAIN A
  /\ \A n \in DOMAIN given : leaf(given[n], A[n], S)
  /\ \A n \in DOMAIN A : Required(A[n]) => n \in DOMAIN given
\* thunder: unknown names are ignored
AcceptsInputs(given, A, S, leaf(_, _, _)) ==
  /\ \A n \in DOMAIN given \cap DOMAIN A : leaf(given[n], A[n], S)
  /\ \A n \in DOMAIN A : Required(A[n]) => n \in DOMAIN given
ValidLit(l, ref, S) ==
  IF l.k = "obj"
  THEN /\ Len(ref.nn) = 1 /\ ref.kind = "INPUT_OBJECT" /\ ref.name \in DOMAIN S
       /\ ValidInputs(l.fields, S[ref.name].inputs, S, ValidLeaf)
  ELSE ValidLeaf(l, ref, S)
AcceptsLit(l, ref, S) ==
  IF l.k = "obj"
  THEN /\ Len(ref.nn) = 1 /\ ref.kind = "INPUT_OBJECT" /\ ref.name \in DOMAIN S
       /\ AcceptsInputs(l.fields, S[ref.name].inputs, S, ValidLeaf)
  ELSE ValidLeaf(l, ref, S)
SubsOK(q, F, S) ==
  IF F.type.kind \in {"SCALAR", "ENUM"} THEN q.subs = <<>>
  ELSE /\ q.subs # <<>> /\ F.type.name \in DOMAIN S
       /\ \A i \in DOMAIN q.subs :
            IF F.type.kind = "OBJECT"
            THEN q.subs[i].on = "" /\ (q.subs[i].field = "__typename" \/ q.subs[i].field \in DOMAIN S[F.type.name].fields)
            ELSE \/ (q.subs[i].on = "" /\ q.subs[i].field = "__typename")
                 \/ /\ q.subs[i].on \in S[F.type.name].possible
                    /\ q.subs[i].on \in DOMAIN S /\ q.subs[i].field \in DOMAIN S[q.subs[i].on].fields
ValidQ(q, S) ==
  /\ "Query" \in DOMAIN S /\ q.field \in DOMAIN S["Query"].fields
  /\ LET F == S["Query"].fields[q.field] IN
     ValidInputs(q.args, F.args, S, ValidLit) /\ SubsOK(q, F, S)
AcceptsQ(q, S) ==
  /\ "Query" \in DOMAIN S /\ q.field \in DOMAIN S["Query"].fields
  /\ LET F == S["Query"].fields[q.field] IN
     /\ (DOMAIN F.args = {} => DOMAIN q.args = {})
     /\ AcceptsInputs(q.args, F.args, S, AcceptsLit)
     /\ SubsOK(q, F, S)

\* ---- the end-to-end consequence (C09).  A query the gateway schema validates is split by the
\* gateway: the root field goes to any service that can resolve it, with those sub-selections that
\* service can resolve (the others are fetched elsewhere); every version of that service must accept
\* its part.
SubType(q, G, x) == IF x.on # "" THEN x.on ELSE G["Query"].fields[q.field].type.name
PartOf(D, G, q, s) ==
  LET kept == SelectSeq(q.subs, LAMBDA x : s \in Resolvers(D, SubType(q, G, x), x.field))
  IN [q EXCEPT !.subs = IF q.subs # <<>> /\ kept = <<>> THEN <<[on |-> "", field |-> "__typename"]>> ELSE kept]
\* One recorded deviation (known_findings.txt, join_input_wider_than_resolver): Join keeps in INPUT
\* positions what only another service knows, so the gateway schema can admit an argument (or an
\* argument value: an enum value, an input object shaped for another service's type) that the
\* intersected schema of the service resolving the field does not.  Manifestations: the resolver
\* declares no argument at all and refuses any; its enum lacks the value; one of its versions has its
\* own, stricter idea of the argument.  The classifier is exactly that and nothing wider: the version
\* accepts the part once the arguments that are not valid against ITS OWN SERVICE'S Meet are taken away.
\* What stays checked without exception: whatever is valid against Meet(s) is accepted by every version of s.
RestrictArgs(p, M) ==
  LET F == M["Query"].fields[p.field]
      keep == {a \in DOMAIN p.args : a \in DOMAIN F.args /\ ValidLit(p.args[a], F.args[a], M)}
  IN [p EXCEPT !.args = [a \in keep |-> p.args[a]]]
WiderDeviation(p, M, V) ==
  /\ ~AcceptsQ(p, V)
  /\ "Query" \in DOMAIN M /\ p.field \in DOMAIN M["Query"].fields
  /\ AcceptsQ(RestrictArgs(p, M), V)
EndToEnd(D, q) ==
  (~GatewayErr(D) /\ ValidQ(q, Gateway(D))) =>
     \A s \in Resolvers(D, "Query", q.field) : \A V \in D[s] :
        LET p == PartOf(D, Gateway(D), q, s) IN AcceptsQ(p, V) \/ WiderDeviation(p, Meet(D[s]), V)
\* the core of Intersection, with no exception: what validates against a service's own intersected
\* schema is accepted by every one of its versions
MeetExecutable(D, q) ==
  \A s \in DOMAIN D : (~MeetErr(D[s]) /\ ValidQ(q, Meet(D[s]))) => \A V \in D[s] : AcceptsQ(q, V)
=============================================================================
