------------------------------ MODULE Conn_Trace ------------------------------
(* M2 for C02 / C17 (and the websocket half of C16): validates what a real       *)
(* connection of thunder's live-query server did (harness/drv/conn) against      *)
(* Conn.tla.  The harness folds the raw log (reader consumption, writes, logger  *)
(* calls, resolver reads, server hooks) into one event per spec action; the      *)
(* deltas the server really wrote are folded with the spec's ClientMerge and     *)
(* must produce exactly the current result (internal keys stripped).             *)
EXTENDS Conn, Json, IOUtils

Trace == ndJsonDeserialize(IOEnv.TRACE)
RES == JsonDeserialize(IOEnv.RES)               \* query -> <<result at version 0, 1, ...>> as the real executor computes it
I3 == {"1", "2", "3", ""}
Q5 == {"qa", "qb", "qf", "qbad", "qm", "qg"}
ResFromFile == [q \in Q5 |-> [v \in 0..(Len(RES[q]) - 1) |-> RES[q][v + 1]]]
MaxSubsEnv == CHOOSE n \in 1..9 : ToString(n) = IOEnv.MAXSUBS
K == 3

VARIABLES l, silent
tvars == <<vars, l, silent>>
Ev == Trace[l]
IsEv(e) == l <= Len(Trace) /\ Ev.ev = e /\ l' = l + 1 /\ silent' = 0
TInit == Init /\ l = 1 /\ silent = 0 /\ TLCSet(1, 0)

TReset ==
  /\ IsEv("reset")
  /\ subs' = [i \in Ids |-> 0]
  /\ ist' = [i \in Inst |-> "unused"] /\ iid' = [i \in Inst |-> "none"] /\ ikind' = [i \in Inst |-> "sub"]
  /\ iq' = [i \in Inst |-> "none"] /\ iinit' = [i \in Inst |-> TRUE] /\ iprev' = [i \in Inst |-> Nil]
  /\ iread' = [i \in Inst |-> -1] /\ ipend' = [i \in Inst |-> FALSE]
  /\ data' = Ev.v                                  \* scenarios start at different data versions
  /\ client' = [i \in Ids |-> Nothing] /\ gotFirst' = [i \in Ids |-> FALSE]
  /\ closeQ' = <<>> /\ logq' = <<>> /\ closed' = FALSE
  /\ ended' = [i \in Inst |-> 0] /\ unsubbed' = [i \in Ids |-> FALSE] /\ lateWrite' = FALSE
  /\ believes' = [i \in Ids |-> FALSE] /\ cause' = [i \in Inst |-> "none"]
  /\ nextInst' = 1 /\ msgs' = 0 /\ ctxc' = FALSE

\* what clients may be told: sanitised texts only (C16)
Generic == [k |-> "s", s |-> "Internal server error"]
SafeText == [k |-> "s", s |-> "the flaky resolver failed (safe to show)"]      \* the driver's one client-safe error
NoSecret(m) == m.k = "s" /\ ~\E i \in 1..(Len(m.s) - 5) : SubSeq(m.s, i, i + 5) = "secret"

TSubAccepted == IsEv("subscribe.accepted") /\ RecvSubscribe(Ev.id, Ev.q)
TRejectWritten == IsEv("reject.written") /\ NoSecret(Ev.msg) /\ UNCHANGED vars
TRejected ==
  /\ IsEv("rejected")
  /\ CASE Ev.typ = "subscribe" -> RecvSubscribeRejected(Ev.id, Ev.q)
       [] Ev.typ = "mutate" -> RecvMutateRejected(Ev.id, Ev.q)
       [] OTHER -> UNCHANGED vars                         \* unknown message type
TUnsubscribe == IsEv("unsubscribe") /\ RecvUnsubscribe(Ev.id) /\ (subs[Ev.id] # 0) = Ev.found
TMutAccepted == IsEv("mutate.accepted") /\ RecvMutate(Ev.id, Ev.q)
TEcho == IsEv("echo") /\ UNCHANGED vars

TheInst(id, P(_)) == \E i \in Inst : iid[i] = id /\ P(i)
TRunStart == IsEv("run.start") /\ TheInst(Ev.id, LAMBDA i : RunStart(i) /\ (ikind[i] = "sub" => iinit[i] = Ev.init))
TRunRead == IsEv("run.read") /\ data = Ev.v /\ TheInst(Ev.id, LAMBDA i : RunRead(i))
TData == IsEv("data") /\ data' = Ev.v /\
         (IF Ev.kind = "mut" THEN \E i \in Inst : MutApply(i) ELSE DataChange)
\* a successful run: an update is written exactly when something changed (or it is the first run),
\* and folding what was really written into the client's state gives the current result
TSubOK ==
  /\ IsEv("sub.ok")
  /\ TheInst(Ev.id, LAMBDA i :
       /\ SubRunOK(i)
       /\ LET cur == Res[iq[i]][iread[i]]  d == Diff(iprev[i], cur) IN
          /\ Ev.wrote = (d # NoDiff \/ iinit[i])
          /\ (Ev.wrote /\ d # NoDiff) => Norm(ClientMerge(client[Ev.id], Ev.msg)) = Strip(cur))
TSubFail ==
  /\ IsEv("sub.fail") /\ Ev.kind # "ctx"
  /\ TheInst(Ev.id, LAMBDA i :
       /\ SubRunFail(i)
       /\ CASE Ev.kind = "initial" -> iinit[i] /\ Ev.wrote                            \* reported once:
                                       /\ (Ev.msg = Generic \/ Ev.msg = SafeText) /\ NoSecret(Ev.msg)  \* generic text, or the text of a safe error
            [] Ev.kind = "retry" -> ~iinit[i] /\ ~Ev.wrote                           \* later failures are retried silently
            [] OTHER -> FALSE)
\* a run ends with a cancelled-context error: either the connection's context is cancelled, or somebody is in the
\* middle of stopping exactly this subscription (Stop cancels, then waits for the run; the harness sees that in the log)
SubRunStopped(i) ==
  /\ ist[i] = "run" /\ ikind[i] = "sub"
  /\ ist' = [ist EXCEPT ![i] = "ended"]
  /\ ended' = [ended EXCEPT ![i] = @ + 1]
  /\ cause' = [cause EXCEPT ![i] = "self"]
  /\ closeQ' = BAdd(closeQ, <<iid[i], i>>)
  /\ UNCHANGED <<subs, iid, ikind, iq, iinit, iprev, iread, ipend, data, client, gotFirst, logq, closed, unsubbed, lateWrite, believes, nextInst, msgs, ctxc>>
TSubCancelled == IsEv("sub.cancelled") /\ ~Ev.wrote /\
   TheInst(Ev.id, LAMBDA i : IF Ev.found THEN SubRunStopped(i) ELSE SubRunCancelled(i))
TCtxCancel == IsEv("ctx.cancel") /\ CtxCancel
TMutDone == IsEv("mut.done") /\ Ev.wrote /\ TheInst(Ev.id, LAMBDA i : MutDone(i)) /\ (Ev.ok => Ev.typ = "result")
                             /\ (~Ev.ok => Ev.typ = "error" /\ NoSecret(Ev.msg))
TAsyncClose ==
  /\ IsEv("async.close")
  /\ \E i \in Inst : /\ <<Ev.id, i>> \in DOMAIN closeQ /\ AsyncClose(Ev.id, i)
                     /\ Ev.found = (subs[Ev.id] # 0 /\ (~CloseSelfOnly \/ subs[Ev.id] = i))
TSocketClosed == IsEv("socket.closed") /\ SocketClose
                 /\ {Ev.ids[i] : i \in DOMAIN Ev.ids} = {id \in Ids : subs[id] # 0}     \* Unsubscribe logged for each
                 /\ Len(Ev.ids) = Cardinality({id \in Ids : subs[id] # 0})
\* nothing is running or pending any more; after the socket closed every reactive resource has been released
TQuiesce == IsEv("quiesce") /\ Quiescent /\ (closed => Ev.v = 0) /\ UNCHANGED vars

\* the reactive layer schedules a stale idle subscription (not observable at this level)
TSilent == /\ l <= Len(Trace) /\ silent < K /\ silent' = silent + 1 /\ UNCHANGED l
           /\ \E i \in Inst : Invalidate(i)

TNext == TReset \/ TSubAccepted \/ TRejected \/ TRejectWritten \/ TUnsubscribe \/ TMutAccepted \/ TEcho \/ TRunStart \/ TRunRead \/ TData
         \/ TSubOK \/ TSubFail \/ TSubCancelled \/ TCtxCancel \/ TMutDone \/ TAsyncClose \/ TSocketClosed \/ TQuiesce \/ TSilent
TSpec == TInit /\ [][TNext]_tvars
HW == TLCSet(1, IF TLCGet(1) < l THEN l ELSE TLCGet(1))
Accepted == IF TLCGet(1) = Len(Trace) + 1 THEN TRUE
            ELSE PrintT(<<"REJECTED_AT_LINE", TLCGet(1)>>) /\ FALSE
=============================================================================
