------------------------------- MODULE Conform -------------------------------
(* C14: validation and responses measured against the ADVERTISED schema (what   *)
(* introspection reports), not thunder's internal types.                        *)
(*   Valid(ss, T)     - what validation must accept/reject in the part of a     *)
(*                      selection tree that applies to advertised type T;       *)
(*   Conforms(v,T,ss) - what a response value must look like.                   *)
EXTENDS Integers, Sequences, FiniteSets, TLC, SequencesExt, Json, IOUtils

Schema == JsonDeserialize(IOEnv.SCHEMA)
Types == Schema.types

Kind(n) == Types[n].kind
RECURSIVE BaseOf(_)
BaseOf(t) == IF t.k = "named" THEN t.name ELSE BaseOf(t.of)
IsLeaf(n) == Kind(n) \in {"SCALAR", "ENUM"}

\* selections (fragments on exactly the object type inlined) that apply to object type tn
RECURSIVE Collect(_, _), CollectFrags(_, _, _)
Collect(ss, tn) == ss.sels \o CollectFrags(ss.frags, 1, tn)
CollectFrags(frags, i, tn) ==
  IF i > Len(frags) THEN <<>>
  ELSE (IF frags[i].on = tn THEN Collect(frags[i].sub, tn) ELSE <<>>) \o CollectFrags(frags, i + 1, tn)
MergedSub(sels, a) ==
  LET idx == SelectSeq([i \in DOMAIN sels |-> i], LAMBDA i : sels[i].alias = a)
  IN [sels |-> FlattenSeq([j \in DOMAIN idx |-> sels[idx[j]].sub.sels]),
      frags |-> FlattenSeq([j \in DOMAIN idx |-> sels[idx[j]].sub.frags])]

-----------------------------------------------------------------------------
\* validation
RECURSIVE ValidSel(_, _), ValidObj(_, _), ValidUnion(_, _)
\* one field selection s on object type tn
ValidSel(s, tn) ==
  IF s.name = "__typename" THEN ~s.hassub
  ELSE /\ s.name \in DOMAIN Types[tn].fields
       /\ LET b == BaseOf(Types[tn].fields[s.name]) IN
          IF IsLeaf(b) THEN ~s.hassub                                   \* no sub-selection on scalars and enums
          ELSE /\ s.hassub                                               \* sub-selection required on objects and unions
               /\ IF Kind(b) = "UNION" THEN ValidUnion(s.sub, b) ELSE ValidObj(s.sub, b)
ValidObj(ss, tn) ==
  /\ \A i \in DOMAIN ss.sels : ValidSel(ss.sels[i], tn)
  /\ \A i \in DOMAIN ss.frags : ss.frags[i].on = tn => ValidObj(ss.frags[i].sub, tn)   \* only the applicable part
ValidUnion(ss, un) ==
  /\ \A i \in DOMAIN ss.sels : ss.sels[i].name = "__typename" /\ ~ss.sels[i].hassub
  /\ \A i \in DOMAIN ss.frags :
       LET on == ss.frags[i].on IN on \in {Types[un].members[j] : j \in DOMAIN Types[un].members} => ValidObj(ss.frags[i].sub, on)
ValidQuery(q) == ValidObj(q, Schema.query)

\* does the tree contain, under an object parent, a fragment whose type condition names another type?
\* thunder documents that it does not evaluate type conditions there (it applies such fragments to
\* the parent object), so for these trees nothing is demanded of validation - but whatever validation
\* accepts must still execute
RECURSIVE ForeignObj(_, _), ForeignUnion(_, _)
ForeignSub(s, tn) ==
  s.hassub /\ s.name \in DOMAIN Types[tn].fields /\
  LET b == BaseOf(Types[tn].fields[s.name]) IN
  IF IsLeaf(b) THEN FALSE ELSE IF Kind(b) = "UNION" THEN ForeignUnion(s.sub, b) ELSE ForeignObj(s.sub, b)
ForeignObj(ss, tn) ==
  \/ \E i \in DOMAIN ss.frags : ss.frags[i].on # tn \/ ForeignObj(ss.frags[i].sub, tn)
  \/ \E i \in DOMAIN ss.sels : ForeignSub(ss.sels[i], tn)
ForeignUnion(ss, un) ==
  \E i \in DOMAIN ss.frags :
     LET on == ss.frags[i].on IN on \in {Types[un].members[j] : j \in DOMAIN Types[un].members} /\ ForeignObj(ss.frags[i].sub, on)
HasForeignFragment(q) == ForeignObj(q, Schema.query)

-----------------------------------------------------------------------------
\* responses
Ints == {"int", "int8", "int16", "int32", "int64", "uint", "uint8", "uint16", "uint32", "uint64"}
Floats == {"float32", "float64"}
Strings == {"string", "Time", "bytes", "ID"}
HasChar(s, c) == \E i \in 1..Len(s) : SubSeq(s, i, i) = c
ScalarOK(v, n) ==
  IF n \in Ints THEN v.k = "i" /\ ~HasChar(v.s, ".") /\ ~HasChar(v.s, "e")
  ELSE IF n \in Floats THEN v.k = "i"
  ELSE IF n = "bool" THEN v.k = "b"
  ELSE IF n \in Strings THEN v.k = "s"
  ELSE TRUE                                     \* a scalar this table does not know: nothing is demanded

RECURSIVE Conf(_, _, _, _), ConfObj(_, _, _)
\* value v at advertised type t under selection ss; nullable says whether null is allowed here
Conf(v, t, ss, nullable) ==
  IF t.k = "nn" THEN Conf(v, t.of, ss, FALSE)
  ELSE IF v.k = "n" THEN nullable
  ELSE IF t.k = "list"
       THEN /\ v.k = "a"
            \* list entries: thunder marks them non-null whatever they are, so null entries are excepted
            /\ \A i \in DOMAIN v.a : v.a[i].k = "n" \/ Conf(v.a[i], t.of, ss, TRUE)
  ELSE LET n == t.name IN
       IF Kind(n) = "SCALAR" THEN ScalarOK(v, n)
       ELSE IF Kind(n) = "ENUM" THEN v.k = "s" /\ v.s \in {Types[n].enums[i] : i \in DOMAIN Types[n].enums}
       ELSE IF Kind(n) = "UNION"
            THEN v.k = "o" /\ \E m \in {Types[n].members[i] : i \in DOMAIN Types[n].members} :
                   ConfObj(v, m, [sels |-> ss.sels, frags |-> ss.frags])
       ELSE v.k = "o" /\ ConfObj(v, n, ss)
\* object value of type tn: fields exactly as selected (thunder's internal __key may be present)
ConfObj(v, tn, ss) ==
  LET sels == Collect(ss, tn)
      aliases == {sels[i].alias : i \in DOMAIN sels}
      nameOf(a) == sels[CHOOSE i \in DOMAIN sels : sels[i].alias = a].name IN
  /\ DOMAIN v.m \ {"__key"} = aliases \ {"__key"}
  /\ \A a \in aliases :
       IF nameOf(a) = "__typename" THEN v.m[a] = [k |-> "s", s |-> tn]
       ELSE Conf(v.m[a], Types[tn].fields[nameOf(a)], MergedSub(sels, a), TRUE)
ConformsQuery(res, q) == res.k = "o" /\ ConfObj(res, Schema.query, q)
=============================================================================
