-------------------------- MODULE SchemaMerge_Trace --------------------------
(* M4 for C09.  Every record: the abstract schemas thunder's own introspection  *)
(* gives for the real versions of 1-3 services, the outcome of the real          *)
(* MergeIntrospectionSchemas / ConvertVersionedSchemas under several             *)
(* assignments of service and version names, and generated queries with the      *)
(* verdict of the real PrepareQuery of every version.                            *)
EXTENDS SchemaMerge, Json, IOUtils, SequencesExt

Recs == ndJsonDeserialize(IOEnv.RECS)

\* JSON -> the shape SchemaMerge works on (enum values / union members as sets)
Norm(S) == [t \in DOMAIN S |-> [kind |-> S[t].kind, fields |-> S[t].fields, inputs |-> S[t].inputs,
                                values |-> Rng(S[t].values), possible |-> Rng(S[t].possible)]]
Deployment(rec) == [s \in DOMAIN rec.services |-> {Norm(rec.versions[rec.services[s][i]]) : i \in DOMAIN rec.services[s]}]
NormQ(q) == [field |-> q.field, args |-> q.args, subs |-> q.subs]

AllFields(S) == {<<t, f>> : t \in DOMAIN S, f \in UNION {DOMAIN S[x].fields : x \in DOMAIN S}} 
FieldsOf(S) == {tf \in AllFields(S) : tf[2] \in DOMAIN S[tf[1]].fields}

OutWhy(rec, D, o) ==
  IF GatewayErr(D)
  THEN (IF o.ok THEN {"merged_what_the_reference_rejects"} ELSE {})
       \cup (IF o.convok THEN {"converted_what_the_reference_rejects"} ELSE {})
  ELSE (IF ~o.ok THEN {"rejected_what_the_reference_merges"}
        ELSE IF Norm(o.schema) # Gateway(D) THEN {"merged_schema_differs_from_reference"} ELSE {})
       \cup (IF ~o.convok THEN {"convert_rejected_what_the_reference_merges"}
             \* (the driver finds fields by walking the converted schema from Query: a type that no Query field reaches
             \*  any more - e.g. its only root field was dropped by the intersection - has no entry and is not compared)
             ELSE IF \E tf \in FieldsOf(Gateway(D)) :
                        LET k == tf[1] \o "." \o tf[2] IN
                        IF k \in DOMAIN o.services THEN Rng(o.services[k]) # Resolvers(D, tf[1], tf[2]) ELSE tf[1] = "Query"
                  THEN {"field_services_differ_from_reference"} ELSE {})

Why(rec) ==
  LET D == Deployment(rec) IN
  UNION {OutWhy(rec, D, rec.outs[i]) : i \in DOMAIN rec.outs}
  \* the outcome does not depend on how services and versions are named or ordered
  \cup (IF \E i, j \in DOMAIN rec.outs : rec.outs[i].ok # rec.outs[j].ok \/ rec.outs[i].schema # rec.outs[j].schema
                                        \/ rec.outs[i].services # rec.outs[j].services
        THEN {"outcome_depends_on_names_or_order"} ELSE {})
  \* closure of every input and of the reference result
  \cup (IF \E s \in DOMAIN D : \E V \in D[s] : ~Closed(V) THEN {"SPEC_input_schema_not_closed"} ELSE {})
  \cup (IF ~GatewayErr(D) /\ ~Closed(Gateway(D)) THEN {"reference_gateway_schema_not_closed"} ELSE {})
  \cup UNION {
        LET q == NormQ(rec.queries[i])
            parts == rec.queries[i].parts IN
        \* calibration: Accepts is what the real PrepareQuery of each version decides about the part it was given
        (IF \E s \in DOMAIN parts : \E j \in DOMAIN rec.services[s] :
               AcceptsQ([q EXCEPT !.subs = parts[s].subs], Norm(rec.versions[rec.services[s][j]])) # rec.queries[i].accept[rec.services[s][j]]
         THEN {"SPEC_accepts_differs_from_PrepareQuery"} ELSE {})
        \* the split the driver made (from what the real gateway believes) is the reference's split
        \cup (IF ~GatewayErr(D) /\ ValidQ(q, Gateway(D))
                 /\ (DOMAIN parts # Resolvers(D, "Query", q.field)
                     \/ \E s \in DOMAIN parts : parts[s].subs # PartOf(D, Gateway(D), q, s).subs)
              THEN {"query_split_differs_from_reference"} ELSE {})
        \* the end-to-end consequence, on the real versions
        \cup (IF ~GatewayErr(D) /\ ValidQ(q, Gateway(D))
              THEN LET rej == {<<s, j>> \in {<<s2, j2>> : s2 \in DOMAIN parts, j2 \in 1..3} :
                                 j \in DOMAIN rec.services[s] /\ ~rec.queries[i].accept[rec.services[s][j]]}
                       P(r) == [q EXCEPT !.subs = parts[r[1]].subs]
                       V(r) == Norm(rec.versions[rec.services[r[1]][r[2]]])
                   IN IF rej = {} THEN {}
                      ELSE IF \A r \in rej : WiderDeviation(P(r), Meet(D[r[1]]), V(r)) THEN {"KF_join_input_wider_than_resolver"}
                      ELSE {"gateway_valid_query_rejected_by_a_version"}
              ELSE {})
        \cup (IF ~EndToEnd(D, q) THEN {"reference_end_to_end_fails"} ELSE {})
        : i \in DOMAIN rec.queries}

VARIABLES l, bad
Init == l = 1 /\ bad = <<>>
Next == /\ l <= Len(Recs)
        /\ l' = l + 1
        /\ LET w == Why(Recs[l]) IN
           bad' = IF w = {} THEN bad ELSE Append(bad, [l |-> l, why |-> SetToSeq(w)])
Done == l = Len(Recs) + 1 => ndJsonSerialize(IOEnv.OUT, bad)
=============================================================================
