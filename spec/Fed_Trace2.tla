----------------------------- MODULE Fed_Trace2 -----------------------------
(* M4 for the planner model: the plan thunder's real planner makes for every     *)
(* case equals the plan Fed.tla's Plan makes (same services, same local          *)
(* selections, same sub-plans hanging off the same paths), compared as sets so   *)
(* that the order of selections and sub-plans does not matter.                   *)
EXTENDS Fed, Json, IOUtils
Recs == ndJsonDeserialize(IOEnv.RECS)
RECURSIVE CanonSels(_), CanonPlan(_)
CanonSels(sels) == {<<sels[i].f, CanonSels(sels[i].sub)>> : i \in DOMAIN sels}
CanonPlan(p) == [svc |-> p.svc, t |-> p.t, local |-> CanonSels(p.local),
                 after |-> {<<p.after[i].path, CanonPlan(p.after[i].plan)>> : i \in DOMAIN p.after}]
VARIABLES l, bad
Init == l = 1 /\ bad = <<>> /\ Owner = Recs[1].owner
Next == /\ l <= Len(Recs)
        /\ l' = l + 1
        /\ Owner' = IF l + 1 <= Len(Recs) THEN Recs[l + 1].owner ELSE Owner
        /\ LET r == Recs[l]
               w == IF ~r.ok THEN {"real_planner_failed"}
                    ELSE IF CanonPlan(r.plan) # CanonPlan(RootPlan(r.q)) THEN {"real_plan_differs_from_the_model"} ELSE {} IN
           bad' = IF w = {} THEN bad ELSE Append(bad, [l |-> l, why |-> SetToSeq(w)])
Done == l = Len(Recs) + 1 => ndJsonSerialize(IOEnv.OUT, bad)
=============================================================================
