CONSTANTS
  Reqs = {"r1", "r2", "r3"}
  MaxVersion = 3
  MaxSub = 3
  ReadLocked = FALSE
SPECIFICATION Spec
INVARIANTS NoRace PlanKnown MapFollows
CHECK_DEADLOCK FALSE
