----------------------------- MODULE SqlLimit_MC -----------------------------
(* M1 for C12: the limited handle as a state machine over a small table.  Every   *)
(* API operation is modelled the way sqlgen implements it: the limit check on the  *)
(* filter / on the written column values, then the statement it emits, then that   *)
(* statement's effect with SQL semantics (UPDATE and DELETE find their row by      *)
(* primary key, an upsert overwrites the row that has the key).                    *)
(*   UpdateWhereLimited: UpdateRow adds the limit columns to its WHERE (the design  *)
(*      the headline needs); FALSE = WHERE primary key only.                        *)
(*   AllowUpsert: include UpsertRow.  ON DUPLICATE KEY UPDATE cannot be confined:   *)
(*      with TRUE the model must show the recorded finding.                         *)
EXTENDS SqlLimit

CONSTANTS UpdateWhereLimited, AllowUpsert

Ids == {"1", "2"}
Orgs == {"1", "2"}
Names == {"a", "b"}
Lim == [org |-> "1"]
RowSet == [id : Ids, org : Orgs, name : Names]
\* filter values carry the Go representation: the limit check compares Go values
FVals == [v : Orgs, rep : {"int64", "int"}]

VARIABLES T, T0, last, rejected, steps
vars == <<T, T0, last, rejected, steps>>

KeyOK(S) == \A a, b \in S : a.id = b.id => a = b
Init == /\ T \in {S \in SUBSET RowSet : KeyOK(S)} /\ T0 = T /\ last = <<>> /\ rejected = FALSE /\ steps = 0

FilterOK(f) == "org" \in DOMAIN f /\ f["org"].v = Lim["org"] /\ f["org"].rep = "int64"
EqPred(c, v) == [col |-> c, op |-> "eq", vals |-> <<v>>]
Emit(st) == last' = <<st>> /\ rejected' = FALSE
Reject == last' = <<>> /\ rejected' = TRUE /\ UNCHANGED T

\* Query / QueryRow / Count with filter {org?, name?}
Read ==
  \E hasOrg \in BOOLEAN, fv \in FVals, hasName \in BOOLEAN, n \in Names :
    LET f == [c \in (IF hasOrg THEN {"org"} ELSE {}) \cup (IF hasName THEN {"name"} ELSE {}) |->
                IF c = "org" THEN fv ELSE [v |-> n, rep |-> "string"]] IN
    IF FilterOK(f)
    THEN /\ Emit([kind |-> "select", hasw |-> TRUE, rows |-> <<>>,
                  where |-> <<[i \in 1..Cardinality(DOMAIN f) |->
                               LET c == IF i = 1 /\ hasOrg THEN "org" ELSE "name" IN EqPred(c, f[c].v)]>>])
         /\ UNCHANGED T
    ELSE Reject
Insert ==
  \E r \in RowSet :
    IF r.org = Lim["org"]
    THEN /\ Emit([kind |-> "insert", hasw |-> FALSE, where |-> <<>>, rows |-> <<r>>])
         /\ T' = IF \E x \in T : x.id = r.id THEN T ELSE T \cup {r}
    ELSE Reject
Upsert ==
  /\ AllowUpsert
  /\ \E r \in RowSet :
    IF r.org = Lim["org"]
    THEN /\ Emit([kind |-> "upsert", hasw |-> FALSE, where |-> <<>>, rows |-> <<r>>])
         /\ T' = {x \in T : x.id # r.id} \cup {r}
    ELSE Reject
Update ==
  \E r \in RowSet :
    IF r.org = Lim["org"]
    THEN /\ Emit([kind |-> "update", hasw |-> TRUE, rows |-> <<[org |-> r.org, name |-> r.name]>>,
                  where |-> <<(IF UpdateWhereLimited THEN <<EqPred("id", r.id), EqPred("org", Lim["org"])>> ELSE <<EqPred("id", r.id)>>)>>])
         /\ T' = {IF x.id = r.id /\ (~UpdateWhereLimited \/ x.org = Lim["org"]) THEN r ELSE x : x \in T}
    ELSE Reject
\* DeleteRow checks its WHERE columns (the primary key) against the limit: org is not part of the key
Delete == \E r \in RowSet : Reject

Next == /\ steps < 3 /\ steps' = steps + 1 /\ UNCHANGED T0
        /\ (Read \/ Insert \/ Upsert \/ Update \/ Delete)

StatementsConfined == \A i \in DOMAIN last : Confined(last[i], Lim)
RejectedTouchesNothing == rejected => last = <<>>
NeverOutside == OutsideUntouched(T0, T, Lim)
KeysStayUnique == KeyOK(T)
=============================================================================
