CONSTANTS
  Queries <- Q3
  Ids = {}
  Vals = {}
  MaxWrites = 0
  MaxBad = 0
  RegisterFirst = TRUE
  BadInvalidates = TRUE
SPECIFICATION TSpec
INVARIANTS Converged PerQuery CurWhileHeld
POSTCONDITION Accepted
CHECK_DEADLOCK FALSE
