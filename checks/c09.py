"""C09 — the merged gateway schema is executable by every live version of every service.

SchemaMerge.tla is an N-ary reference on SETS of schemas (Meet over the versions of a service, Join
over services, the nullability lattice, the pairwise compatibility rule) - being defined on sets it
cannot depend on names or order.  SchemaMerge_MC.tla lets TLC enumerate a bounded universe of
abstract schemas and checks, for every deployment, that thunder's ALGORITHM (pairwise folding over a
list, every order) gives the N-ary result, closure, 'only what all versions support / everything a
service supports', the nullability rules and the end-to-end consequence; the same model without the
pairwise pre-check must show the order dependence (vacuity guard).

Binding: the driver builds REAL thunder schemas (schemabuilder) for the versions of 1-3 services from
feature vectors, takes thunder's own introspection of each, runs the real
federation.MergeIntrospectionSchemas / ConvertVersionedSchemas under every assignment of service
names and version orders, and validates generated queries (split per service the way the gateway
believes fields are resolved) with the real graphql.PrepareQuery of every version.
SchemaMerge_Trace.tla judges each record: merged schema / field->services map = reference under
every naming, Accepts calibrated against PrepareQuery, and every query the gateway schema validates
accepted by every version of every service that may execute its part."""
import os

from lib import vlib
from lib.vlib import Inconclusive

PROP = "C09"
KF = {"KF_join_input_wider_than_resolver": "join_input_wider_than_resolver"}


def run(tier, seed, replay=None):
    sc = vlib.scratch()
    vlib.build_harness()
    quick = tier == "quick"
    v = vlib.Verdict(PROP)
    states = trans = 0

    # ---- the model: reference theorems + thunder's folding algorithm, exhaustively on a bounded universe
    shapes = ["31s"] if quick else ["31", "22s"]     # 3 services x 1 version (full universe), 2 services x 2 versions (small universe)
    for sh in shapes:
        m = vlib.tlc("SchemaMerge_MC", "SchemaMerge_MC_TRUE_%s.cfg" % sh, workers=16, timeout=3000, heap="12g")
        if not m.ok:
            raise Inconclusive("SchemaMerge_MC (%s) failed on the model: %s\n%s" % (sh, m.invariant, m.out[-2500:]))
        states += m.distinct
        trans += m.generated
    m0 = vlib.tlc("SchemaMerge_MC", "SchemaMerge_MC_FALSE_31%s.cfg" % ("s" if quick else ""), workers=16, timeout=3000, heap="12g")
    if m0.ok or m0.invariant != "JoinFoldAgrees":
        raise Inconclusive("the folding algorithm without the pairwise pre-check no longer shows the order dependence "
                           "(vacuity guard): %s" % m0.invariant)
    states += m0.distinct
    trans += m0.generated

    # ---- the real merge and the real validators
    n, nq, chunks = (160, 10, 4) if quick else (1600, 12, 16)
    per = n // chunks
    import concurrent.futures as cf
    nrec = nout = nqueries = valid_on_gateway = rejected_merges = 0
    kf_hits = {}
    samples = []
    distinct = set()

    def one(c):
        recs = os.path.join(sc, "c09_%d.ndjson" % c)
        bad = os.path.join(sc, "c09_%d_bad.ndjson" % c)
        vlib.vh(["c09", "-out", recs, "-n", per, "-queries", nq, "-seed", seed * 1000 + c], timeout=1700)
        t = vlib.tlc("SchemaMerge_Trace", "SchemaMerge_Trace.cfg", env={"RECS": recs, "OUT": bad}, workers=1, timeout=2400, heap="4g")
        if not t.ok or not os.path.exists(bad):
            raise Inconclusive("SchemaMerge_Trace did not complete:\n" + t.out[-3000:])
        rows = vlib.read_ndjson(recs)
        if t.distinct != len(rows) + 1:
            raise Inconclusive("SchemaMerge_Trace consumed %d of %d records" % (t.distinct - 1, len(rows)))
        return rows, vlib.read_ndjson(bad), t

    with cf.ThreadPoolExecutor(max_workers=8) as ex:
        results = list(ex.map(one, range(chunks)))
    for rows, bads, t in results:
        states += t.distinct
        trans += t.generated
        nrec += len(rows)
        for r in rows:
            nout += len(r["outs"])
            nqueries += len(r["queries"])
            if not r["outs"][0]["ok"]:
                rejected_merges += 1
            distinct.add(str(r["feats"]))
            for q in r["queries"]:
                if q["parts"]:
                    valid_on_gateway += 1
        if rows and len(samples) < 2:
            r = rows[len(rows) // 2]
            samples.append({"feature_vectors": r["feats"], "merge_ok": r["outs"][0]["ok"], "merge_err": r["outs"][0]["err"][:160],
                            "namings_tried": len(r["outs"]),
                            "queries": [{"text": q["text"], "parts": {k: p["text"] for k, p in q["parts"].items()}, "accept": q["accept"]}
                                        for q in r["queries"][:3]]})
        for b in bads:
            r = rows[b["l"] - 1]
            why = b["why"]
            if any(w.startswith("SPEC_") for w in why):
                raise Inconclusive("the model of thunder's validator / of the inputs disagrees with the real code on record %d "
                                   "(%s): nothing is concluded" % (r["i"], why))
            for w in why:
                if w in KF:
                    kf_hits[w] = kf_hits.get(w, 0) + 1
                    v.report(KF[w], w, None)
            rest = [w for w in why if w not in KF]
            if rest:
                v.report(None, "%s: feature vectors %s" % (",".join(rest), str(r["feats"])[:300]),
                         {"why": why, "feats": r["feats"],
                          "outs": [{"naming": o["naming"], "ok": o["ok"], "err": o["err"], "convok": o["convok"]} for o in r["outs"]],
                          "queries": [{"text": q["text"], "parts": {k: p["text"] for k, p in q["parts"].items()}, "accept": q["accept"],
                                       "why": q["why"]} for q in r["queries"]]})
    rc = v.finish()
    vlib.write_evidence(PROP, tier, seed, "model_checking", {
        "states": states, "transitions": trans,
        "traces_validated_against_impl": nrec,
        "evaluations": nout + nqueries,
        "distinct_nontrivial": len(distinct),
        "rule": "model: every deployment of <= 3 services x 1 version%s over a universe of 13 (quick) / 21 (thorough) abstract "
                "schemas (Query.item nullable/non-null x 3 or 5 argument sets x 2 enum value sets, a count-only schema) x 9 queries, "
                "every folding order. "
                "real code: %d seeded deployments (1-3 services x 1-3 versions; a version is a real schemabuilder schema built from "
                "a 10-component feature vector, later versions are 1-2 mutations away), each merged by the real code under every "
                "order of service names x version orders (%d real merges), and %d generated queries (unknown fields/arguments, "
                "wrong literal kinds, enum values, input objects, union fragments) validated by the real PrepareQuery of the "
                "versions of every service the gateway would send a part to; non-trivial/distinct = different deployments"
                % ("" if quick else " and <= 2 services x 2 versions", nrec, nout, nqueries),
        "samples": samples,
        "deployments_the_real_merge_rejected": rejected_merges,
        "queries_with_a_part_sent_to_some_service": valid_on_gateway,
        "known_finding_cases": kf_hits,
        "exhaustive": False,
    }, [
        "the abstract schema of a version is what thunder's own introspection of the real schema says (names starting with __ dropped)",
        "'validates against the merged schema' is GraphQL validation (SchemaMerge.tla ValidQ); what a version accepts is the real "
        "PrepareQuery, and the model of it (AcceptsQ: unknown arguments ignored unless the field declares none, unknown input "
        "fields ignored) is calibrated against it on every record",
        "queries have one root field with literal arguments and flat sub-selections; federation hops (keys, shadow objects) are C06",
        "interfaces, directives, descriptions and deprecation are not modelled",
    ], violations=len(v.violations))
    return rc
