"""C17 — connection lifecycle.  Same Conn.tla; the invariants decided here: EndsAtMostOnce,
EndsForAReason (never by a stale asynchronous close of an earlier instance with the same id),
AllEndAfterClose, MapComplete (the map knows every live rerunner, so closing the socket stops
everything), LoggerAlternates / LoggerPaired / LoggerMatchesMap, LimitHolds; in the validated
real traces additionally: nothing runs or is written for an ended instance (no such spec step
exists) and every reactive resource has been released once the closed connection has settled."""
from checks import conn_common as cc
from lib import vlib

PROP = "C17"


def run(tier, seed, replay=None):
    vlib.build_harness()
    quick = tier == "quick"
    states, trans, notes = cc.model_check(["fail0", "lim1", "ok2"] if quick else ["fail0", "lim1", "ok2", "fail1", "ok3"])
    v = vlib.Verdict(PROP)
    st = cc.validate(PROP, v, 400 if quick else 4000, seed + 50, [1, 2] if quick else [1, 2, 3])
    need = ["async.close/found=false", "sub.fail/initial", "unsubscribe/found=true", "rejected/mutate"]
    missing = [k for k in need if not st["coverage"].get(k)]
    rc = v.finish()
    vlib.write_evidence(PROP, tier, seed, "model_checking", {
        "states": states + st["states"], "transitions": trans + st["trans"],
        "traces_validated_against_impl": st["scenarios"],
        "evaluations": st["scenarios"],
        "distinct_nontrivial": len(st["sigs"]),
        "rule": "as C02; histories with colliding ids, malformed messages, failing resolvers, mutations reusing live ids, the "
                "subscription limit at 1-3 and socket close; distinct = different event sequence",
        "samples": st["samples"],
        "events_validated": st["events"],
        "branch_coverage_of_real_runs": st["coverage"],
        "model_checks": notes,
        "exhaustive": False,
    }, [
        "socket close happens after the script (plus the asynchronous closes it races with); close in the middle of a script is "
        "covered by the model only",
        "context cancellation of the whole connection is not driven",
    ], violations=len(v.violations))
    if missing and rc == 0:
        raise vlib.Inconclusive("the driver never produced: %s" % missing)
    return rc
