"""C08 — reactive.Cache never serves superseded values; every registered resource is
cleaned up exactly once after its last dependant is gone.  Reactive.tla with the cache,
per-run resources, purge and failing runs (M1), bound to the real package by trace
validation (M2)."""
from checks import rx_common as rx
from lib import vlib

PROP = "C08"


def run(tier, seed, replay=None):
    vlib.build_harness()
    quick = tier == "quick"
    cfgs = ["C1_b2_stop", "C_b2", "D_b1_stop", "E_b1_stop", "C1_b1_fail_stop"]
    if not quick:
        cfgs += ["C_b1_fail_stop", "F_b2_stop"]
    states, trans, notes = rx.model_check(cfgs, coverage=not quick)
    if not quick:
        s2, n2 = rx.simulate(["C1_b2_fail_stop", "D_b2", "C1_b2_fail"], 20000, 200, seed)
        states += s2
        trans += s2
        notes += n2
    v = vlib.Verdict(PROP)
    st = rx.validate_traces(PROP, v, ["C", "D", "E"], 250 if quick else 2500, seed, 1,
                            need_cov=("addout/inv=true/rel=false", "node.invalidated/true") if not quick else ())
    rc = v.finish()
    vlib.write_evidence(PROP, tier, seed, "model_checking", {
        "states": states + st["states"],
        "transitions": trans + st["trans"],
        "traces_validated_against_impl": st["scenarios"],
        "evaluations": st["scenarios"],
        "distinct_nontrivial": st["distinct"],
        "rule": "scenario = one seeded run of a real Rerunner over shape C (two cached children with per-run resources, "
                "the livesql shape), D (parent and cached child sharing a strobed resource) or E (cache purged mid-run), "
                "0-3 data changes, optional concurrent Stop, at most one failing run (retry sentinel or fatal), random "
                "yields/sleeps at the hooks; non-trivial = at least one data change; distinct = different event sequence",
        "samples": st["samples"],
        "events_validated": st["events"],
        "branch_coverage_of_real_runs": st["coverage"],
        "model_checks": notes,
        "exhaustive": False,
    }, [
        "usage contract: register the dependency, then read; per-run resources are registered with the invalidator after "
        "AddDependency and un-registered by their Cleanup callback (what livesql does)",
        "InvalidateAfter's time.Timer is modelled as a per-run resource whose data change is the timer firing; the real "
        "timer.Stop is not observable and not checked",
        "compute functions are sequential (no concurrent reactive.Cache calls for one key)",
    ], violations=len(v.violations))
    return rc
