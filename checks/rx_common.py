"""Shared driver for the two properties decided with Reactive.tla (C04, C08)."""
import json
import os
import re

from lib import vlib
from lib.vlib import Inconclusive

INVS = "NoOverlap StopFinal FreshAtQuiescence CleanupAtMostOnce NoCleanupWhileLive CleanupExactlyOnceAtQuiescence TrackerExact"


def model_check(cfgs, workers=14, timeout=1500, coverage=False):
    """Exhaustive TLC runs of Reactive_MC_<cfg>.cfg; returns (states, transitions, notes)."""
    states = trans = 0
    notes = []
    for c in cfgs:
        r = vlib.tlc("Reactive_MC", "Reactive_MC_%s.cfg" % c, workers=workers, timeout=timeout, coverage=coverage)
        if not r.ok:
            raise Inconclusive("Reactive_MC %s: model-level failure (%s); the shipped configurations must pass on the "
                               "model, so this is a spec problem, not a verdict on the code:\n%s"
                               % (c, r.invariant or ("deadlock" if r.deadlock else "?"), r.out[-3000:]))
        states += r.distinct
        trans += r.generated
        notes.append("%s: %d distinct states, %d generated, %.0fs" % (c, r.distinct, r.generated, r.wall))
        vlib.log("[rx] MC %s: %d distinct (%.0fs)" % (c, r.distinct, r.wall))
    return states, trans, notes


def guards(cfgs, want="StopFinal"):
    """Configurations with a design switch off: the model must violate `want` (vacuity guards)."""
    for c in cfgs:
        r = vlib.tlc("Reactive_MC", "Reactive_MC_%s.cfg" % c, workers=4, timeout=600)
        if r.ok or r.invariant != want:
            raise Inconclusive("vacuity guard Reactive_MC_%s: expected %s to be violated, got %s" % (c, want, r.invariant))
    return ["guard %s: %s violated as expected" % (c, want) for c in cfgs]


def simulate(cfgs, num, depth, seed, timeout=900):
    states = 0
    notes = []
    for c in cfgs:
        r = vlib.tlc("Reactive_MC", "Reactive_MC_%s.cfg" % c, workers=8, timeout=timeout,
                     simulate="num=%d" % num, depth=depth, seed=seed)
        if r.invariant or "Error:" in r.out:
            raise Inconclusive("Reactive_MC %s (simulation): model-level failure:\n%s" % (c, r.out[-3000:]))
        states += r.generated
        notes.append("%s: simulation, %d states generated" % (c, r.generated))
        vlib.log("[rx] SIM %s: %d states (%.0fs)" % (c, r.generated, r.wall))
    return states, notes


def scen_signature(evs):
    return tuple((e["ev"], e["n"], e["to"], e["from"], e["r"], e["b1"], e["b2"], e["slot"], e["v"], e["err"]) for e in evs)


def validate_traces(prop, verdict, shapes, scenarios, seed, maxfail, need_cov=()):
    """Drive the real package and validate every trace; returns statistics."""
    sc = vlib.scratch()
    st = dict(scenarios=0, events=0, states=0, trans=0, distinct=0, coverage={}, samples=[])
    sigs = set()
    for shape in shapes:
        for spawn in (0, 1):
            tracef = os.path.join(sc, "rx_%s_%d.ndjson" % (shape, spawn))
            args = ["reactive", "-shape", shape, "-out", tracef, "-scenarios", scenarios,
                    "-seed", seed * 100 + spawn, "-maxfail", maxfail, "-maxbump", 3]
            if spawn:
                args.append("-spawn")
            rc, out = vlib.vh(args, timeout=1700)
            info = json.loads(out.strip().splitlines()[-1])
            st["scenarios"] += info["scenarios"]
            st["events"] += info["events"]
            for k, n in info["coverage"].items():
                st["coverage"][k] = st["coverage"].get(k, 0) + n
            events = vlib.read_ndjson(tracef)
            by = {}
            for e in events:
                by.setdefault(e["scn"], []).append(e)
            for s, evs in by.items():
                if any(e["ev"] == "bump" for e in evs):
                    sigs.add((shape, spawn) + scen_signature(evs))
            if not st["samples"]:
                st["samples"].append({"shape": shape, "spawn": bool(spawn),
                                      "events": [{k: v for k, v in e.items() if v not in ("", False, 0, [])} for e in by[1]][:40]})
            rejected = 0
            for attempt in range(5):
                r = vlib.tlc("Reactive_Trace", "Reactive_Trace_%s.cfg" % shape, env={"TRACE": tracef, "SPAWN": spawn},
                             workers=1, timeout=1700, dfs=True)
                st["states"] += r.distinct
                st["trans"] += r.generated
                if r.ok:
                    if info.get("unsettled") and not rejected:
                        raise Inconclusive("a scenario of shape %s did not quiesce within 15 s although every recorded "
                                           "event is a step of the specification" % shape)
                    break
                m = re.search(r'REJECTED_AT_LINE", (\d+)', r.out)
                line = what = None
                if r.invariant:
                    ls = re.findall(r"/\\ l = (\d+)", r.out)
                    line = int(ls[-1]) - 1 if ls else None
                    what = "invariant %s violated on a validated trace of the real reactive package" % r.invariant
                elif m:
                    line = int(m.group(1))
                    ev = events[line - 1] if line <= len(events) else None
                    what = "real execution is not a behaviour of Reactive.tla: no spec step explains event %s" % (
                        {k: v for k, v in (ev or {}).items() if v not in ("", [])})
                if line is None or line < 1:
                    raise Inconclusive("Reactive_Trace failed without a verdict:\n" + r.out[-3000:])
                scn = events[min(line, len(events)) - 1]["scn"]
                scen = [e for e in events if e["scn"] == scn]
                verdict.report(None, what, {"shape": shape, "spawn": bool(spawn), "scenario": scen,
                                            "line_in_scenario": line - events.index(scen[0])})
                rejected += 1
                events = [e for e in events if e["scn"] != scn]
                vlib.write_ndjson(tracef, events)
            vlib.log("[rx] traces %s spawn=%d: %d scenarios validated" % (shape, spawn, info["scenarios"]))
    st["distinct"] = len(sigs)
    missing = [k for k in need_cov if not st["coverage"].get(k)]
    if missing:
        raise Inconclusive("driver never reached: %s (coverage %s)" % (missing, st["coverage"]))
    return st
