"""Shared driver for the properties decided with Conn.tla (C02, C17)."""
import json
import os
import re

from lib import vlib
from lib.vlib import Inconclusive

INVS = ("EndsForAReason Converges FirstIsFull NoUpdateAfterUnsub EndsAtMostOnce AllEndAfterClose MapComplete "
        "LoggerAlternates LoggerPaired LoggerMatchesMap LimitHolds")
# which invariants of Conn.tla belong to which property (a violation of the other property's invariants on a
# validated trace is still reported, under the property whose check found it)
C02_INVS = {"Converges", "FirstIsFull", "NoUpdateAfterUnsub"}


def model_check(cfgs, timeout=1500):
    states = trans = 0
    notes = []
    for c in cfgs:
        r = vlib.tlc("Conn_MC", "Conn_MC_%s.cfg" % c, workers=14, timeout=timeout)
        if not r.ok:
            raise Inconclusive("Conn_MC %s failed on the model: %s\n%s" % (c, r.invariant, r.out[-2500:]))
        states += r.distinct
        trans += r.generated
        notes.append("%s: %d distinct states" % (c, r.distinct))
        vlib.log("[conn] MC %s: %d states (%.0fs)" % (c, r.distinct, r.wall))
    return states, trans, notes


def validate(prop, verdict, scenarios, seed, maxsubs_list):
    sc = vlib.scratch()
    res = os.path.join(sc, "res.json")
    vlib.vh(["conn", "-res", res])
    st = dict(scenarios=0, events=0, states=0, trans=0, coverage={}, samples=[], sigs=set())
    for k, ms in enumerate(maxsubs_list):
        tracef = os.path.join(sc, "conn_%d.ndjson" % k)
        rc, out = vlib.vh(["conn", "-out", tracef, "-scenarios", scenarios, "-seed", seed * 10 + k, "-maxsubs", ms], timeout=1700)
        info = json.loads([l for l in out.strip().splitlines() if l.startswith("{")][-1])
        st["scenarios"] += info["scenarios"]
        st["events"] += info["events"]
        for key, n in info["coverage"].items():
            st["coverage"][key] = st["coverage"].get(key, 0) + n
        events = vlib.read_ndjson(tracef)
        by = {}
        for e in events:
            by.setdefault(e["scn"], []).append(e)
        for s, evs in by.items():
            if sum(1 for e in evs if e["ev"] == "sub.ok") >= 2:
                st["sigs"].add((ms,) + tuple((e["ev"], e["id"], e["q"], e["found"], e["wrote"], e["kind"], e["v"]) for e in evs))
        if not st["samples"]:
            st["samples"].append({"maxsubs": ms, "events": [{a: b for a, b in e.items() if b not in ("", False, 0, [], {"k": "n"})} for e in by[1]][:40]})
        rejected = 0
        for attempt in range(5):
            r = vlib.tlc("Conn_Trace", "Conn_Trace.cfg", env={"TRACE": tracef, "RES": res, "MAXSUBS": ms}, workers=1, timeout=1700, dfs=True)
            st["states"] += r.distinct
            st["trans"] += r.generated
            if r.ok:
                if info.get("unsettled") and not rejected:
                    raise Inconclusive("a connection scenario did not quiesce within 15 s although every recorded event is a step of Conn.tla")
                break
            m = re.search(r'REJECTED_AT_LINE", (\d+)', r.out)
            line = what = None
            if r.invariant:
                ls = re.findall(r"/\\ l = (\d+)", r.out)
                line = int(ls[-1]) - 1 if ls else None
                what = "invariant %s violated on a validated trace of the real websocket server" % r.invariant
            elif m:
                line = int(m.group(1))
                ev = events[line - 1] if 0 < line <= len(events) else None
                what = "real execution is not a behaviour of Conn.tla: no spec step explains event %s" % (
                    {a: b for a, b in (ev or {}).items() if b not in ("", [], False, 0)})
            if line is None or line < 1:
                raise Inconclusive("Conn_Trace failed without a verdict:\n" + r.out[-3000:])
            scn = events[min(line, len(events)) - 1]["scn"]
            scen = [e for e in events if e["scn"] == scn]
            verdict.report(None, what, {"maxsubs": ms, "scenario": scen, "line_in_scenario": line - events.index(scen[0])})
            rejected += 1
            events = [e for e in events if e["scn"] != scn]
            vlib.write_ndjson(tracef, events)
        vlib.log("[conn] traces maxsubs=%d: %d scenarios" % (ms, info["scenarios"]))
    return st
