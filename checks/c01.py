"""C01 — execution equals the sequential reference semantics, whatever the scheduler and the
per-field execution mode.  Exec.tla's Eval is the reference; Exec_Gen enumerates a bounded
query grammar over the zoo (M5); the harness also draws seeded random queries (aliases,
duplicate response keys, named/inline fragments, unions, lists with nil entries, nil objects,
key fields) over several seeded data graphs and runs every query text through the real
Parse/PrepareQuery/Execute under random mode assignments (plain, Expensive, batch, batch with
fallback on/off, NumParallelInvocations 2/3) x 5 work schedulers; Exec_Trace judges every run (M4)."""
from checks import exec_common as ex
from lib import vlib

PROP = "C01"


def run(tier, seed, replay=None):
    vlib.build_harness()
    quick = tier == "quick"
    n = 600 if quick else 6000
    batches = [dict(name="tlc-enumerated", world=seed, gen=(tier, False), args=["-seed", seed, "-runs", 6 if quick else 12])]
    for k in range(2 if quick else 4):
        batches.append(dict(name="random-%d" % k, world=seed * 10 + k, sched=True, args=["-n", n, "-seed", seed * 10 + k, "-runs", 4, "-depth", 3]))
    # every schedule: a sequential scheduler driven by a choice sequence, all choice sequences enumerated
    # depth-first (stateless exploration of the real executor), capped per query
    batches.append(dict(name="all-schedules", world=seed + 3, args=["-n", 120 if quick else 1200, "-seed", seed * 10 + 7, "-runs", 1, "-depth", 3,
                                                                     "-allsched", 300 if quick else 4000]))
    batches.append(dict(name="all-schedules-tlc-grammar", world=seed, gen=(tier, False), args=["-seed", seed + 9, "-runs", 1,
                                                                                          "-allsched", 200 if quick else 2000]))
    v = vlib.Verdict(PROP)
    st = ex.run_batches(PROP, v, batches)
    ex.sched_model(tier, st)
    rc = v.finish()
    ex.evidence(PROP, tier, seed, st, v,
                "every query of the TLC-enumerated bounded grammar + seeded random query ASTs (depth <= 3) over seeded data "
                "graphs of 3+3 objects; each query text is executed under 4-12 random (mode assignment, scheduler) "
                "configurations; two further batches enumerate, per query and one mode assignment, EVERY order in which a "
                "sequential scheduler can run the work units (depth-first over choice sequences, capped per query; the evidence "
                "says how many queries were enumerated completely); distinct = different (data graph, query text); all generated "
                "queries are non-trivial (at least one resolver runs). Scheduling: ExecSched.tla is model-checked over every tree "
                "of 4 (quick) / 5 (thorough) work units x every placement of failing units x every interleaving of the stock "
                "goroutine-per-unit scheduler (ReturnComplete, Outcome, ReturnedQuiescent, OnceEach, WgExact, ErrStable, "
                "Terminates; two guards with a design switch off must violate), and every run of the random batches is traced "
                "(start/finish of every unit, errorRecorder hooks, return, outcome) and validated against it (sched_* counts)",
                ["the zoo (two keyed object types, one union, lists with nil entries, nil objects) stands for 'every schema'",
                 "fragments under object parents carry the parent's type (thunder does not evaluate type conditions there)",
                 "schedulers: stock goroutine-per-unit, FIFO, LIFO, random order, concurrent with random delays, and the exhaustive "
                 "choice-sequence scheduler (sequential: parallel overlap of units is covered by the stock and concurrent ones)"])
    return rc
