"""C05 — batching.  Batch.tla models Func.Invoke's two critical sections, the leader's
wake-up window and the doneCh hand-off; TLC checks SizeBound, NoShardMix, AtMostOnce,
ExactlyOnceUnlessCancelled, OwnResult, ManyGetsAll, NoJoinAfterRemove and (with fairness)
that every call returns, for all interleavings of 3-4 callers, MaxSize 0/1/2, all Many
outcomes and cancellation at any point (M1).  Real concurrent Invoke calls are recorded at
the hooks and validated by Batch_Trace.tla (M2)."""
import json
import os
import re

from lib import vlib
from lib.vlib import Inconclusive

PROP = "C05"


def run(tier, seed, replay=None):
    sc = vlib.scratch()
    vlib.build_harness()
    quick = tier == "quick"
    states = trans = 0
    notes = []
    for c in (["q0", "q2", "q1", "live"] if quick else ["q0", "q2", "q1", "live", "m0", "m1", "m2"]):
        r = vlib.tlc("Batch_MC", "Batch_MC_%s.cfg" % c, workers=14, timeout=1700, coverage=(not quick and c.startswith("q")))
        if not r.ok:
            raise Inconclusive("Batch_MC %s failed on the model: %s\n%s" % (c, r.invariant, r.out[-2500:]))
        states += r.distinct
        trans += r.generated
        notes.append("%s: %d distinct states" % (c, r.distinct))
        vlib.log("[c05] MC %s: %d states (%.0fs)" % (c, r.distinct, r.wall))
    v = vlib.Verdict(PROP)
    nscn = 300 if quick else 3000
    total = tev = 0
    cov = {}
    sigs = set()
    samples = []
    runs = [(0, False), (1, False), (2, False), (3, False), (2, True), (-1, False)]  # -1: MaxSize = the largest int
    for i, (ms, lim) in enumerate(runs):
        tracef = os.path.join(sc, "batch_%d.ndjson" % i)
        args = ["c05", "-out", tracef, "-maxsize", ms, "-scenarios", nscn, "-seed", seed * 10 + i]
        if lim:
            args.append("-limiter")
        rc, out = vlib.vh(args, timeout=1700)
        info = json.loads(out.strip().splitlines()[-1])
        total += info["scenarios"]
        tev += info["events"]
        for k, n in info["coverage"].items():
            cov[k] = cov.get(k, 0) + n
        events = vlib.read_ndjson(tracef)
        by = {}
        for e in events:
            by.setdefault(e["scn"], []).append(e)
        for s, evs in by.items():
            if sum(1 for e in evs if e["ev"] == "join") >= 2:
                sigs.add((ms, lim) + tuple((e["ev"], e["c"], e["g"], e["idx"], e["o"], e["kind"], e["v"]) for e in evs))
        if not samples:
            samples.append({"maxsize": ms, "events": [{k: x for k, x in e.items() if x not in ("", 0, False, [])} for e in by[1]]})
        for attempt in range(5):
            r = vlib.tlc("Batch_Trace", "Batch_Trace.cfg", env={"TRACE": tracef, "MAXSIZE": ms}, workers=1, timeout=1700, dfs=True)
            states += r.distinct
            trans += r.generated
            if r.ok:
                break
            m = re.search(r'REJECTED_AT_LINE", (\d+)', r.out)
            line = what = None
            if r.invariant:
                ls = re.findall(r"/\\ l = (\d+)", r.out)
                line = int(ls[-1]) - 1 if ls else None
                what = "invariant %s violated on a validated trace of the real batch package" % r.invariant
            elif m:
                line = int(m.group(1))
                ev = events[line - 1] if line <= len(events) else None
                what = "real execution is not a behaviour of Batch.tla: no spec step explains event %s" % (
                    {k: x for k, x in (ev or {}).items() if x not in ("", [], 0, False)})
            if line is None or line < 1:
                raise Inconclusive("Batch_Trace failed without a verdict:\n" + r.out[-3000:])
            scn = events[min(line, len(events)) - 1]["scn"]
            scen = [e for e in events if e["scn"] == scn]
            v.report(None, what, {"maxsize": ms, "limiter": lim, "scenario": scen, "line_in_scenario": line - events.index(scen[0])})
            events = [e for e in events if e["scn"] != scn]
            vlib.write_ndjson(tracef, events)
        vlib.log("[c05] traces maxsize=%d limiter=%s: %d scenarios" % (ms, lim, info["scenarios"]))
    rc = v.finish()
    vlib.write_evidence(PROP, tier, seed, "model_checking", {
        "states": states, "transitions": trans,
        "traces_validated_against_impl": total,
        "evaluations": total,
        "distinct_nontrivial": len(sigs),
        "rule": "scenario = 2-6 goroutines calling the real Func.Invoke with distinct arguments over 2 shards, random arrival "
                "delays around the 0.1-0.6 ms WaitInterval / 1-3 ms MaxDuration, MaxSize 0/1/2/3, Many ok/error/panic/short, "
                "contexts cancelled at random moments, random delays at the hooks (longest in the leader's wake-up window); "
                "non-trivial = at least two callers joined; distinct = different event sequence",
        "samples": samples,
        "events_validated": tev,
        "branch_coverage_of_real_runs": cov,
        "model_checks": notes,
        "exhaustive": False,
    }, [
        "hooks fire inside the two bctx.mu critical sections, between them, and before doneCh is closed (MANIFEST.hooks)",
        "cancel events are logged before cancel() is called; the model lets Many run after a cancellation it has not yet seen",
    ], violations=len(v.violations))
    return rc
