"""C14 — validated queries cannot go wrong; responses match the advertised schema.
Conform.tla states Valid and Conforms over what introspection ADVERTISES for the shape
gallery (every Go shape the builder accepts).  Conform_Gen builds, for every field of every
advertised object type, its well- and ill-formed selections and checks Valid classifies them
as intended (M5); the harness adds seeded random trees with one random ill-formed mutation;
all run through the real PrepareQuery/Execute and Conform_Trace judges: accepted <=> Valid,
accepted => executes without error, response Conforms (M4)."""
import os

from lib import vlib
from lib.vlib import Inconclusive

PROP = "C14"


def judge(sc, schema, recs, tag):
    bad = os.path.join(sc, "c14bad_%s.ndjson" % tag)
    t = vlib.tlc("Conform_Trace", "Conform_Trace.cfg", env={"SCHEMA": schema, "RECS": recs, "OUT": bad}, workers=1, timeout=1700, heap="8g")
    if not t.ok or not os.path.exists(bad):
        raise Inconclusive("Conform_Trace did not complete:\n" + t.out[-3000:])
    return t, vlib.read_ndjson(bad)


def run(tier, seed, replay=None):
    sc = vlib.scratch()
    vlib.build_harness()
    quick = tier == "quick"
    schema = os.path.join(sc, "schema.json")
    vlib.vh(["c14", "-schema", schema])
    qf = os.path.join(sc, "c14q.ndjson")
    g = vlib.tlc("Conform_Gen", "Conform_Gen.cfg", env={"SCHEMA": schema, "OUT": qf}, workers=4, timeout=900)
    if not g.ok:
        raise Inconclusive("Conform_Gen failed on the model: %s\n%s" % (g.invariant, g.out[-2500:]))
    v = vlib.Verdict(PROP)
    states, trans = g.distinct, g.generated
    total = 0
    texts = set()
    outcomes = {}
    samples = []
    batches = [("tlc", ["-queries", qf])]
    for k in range(2 if quick else 12):
        batches.append(("rand%d" % k, ["-n", 1000 if quick else 8000, "-seed", seed * 10 + k]))
    for tag, args in batches:
        recs = os.path.join(sc, "c14_%s.ndjson" % tag)
        vlib.vh(["c14", "-out", recs] + args, timeout=1700)
        t, bads = judge(sc, schema, recs, tag)
        rows = vlib.read_ndjson(recs)
        if t.distinct != len(rows) + 1:
            raise Inconclusive("Conform_Trace consumed %d of %d records" % (t.distinct - 1, len(rows)))
        states += t.distinct
        trans += t.generated
        total += len(rows)
        for r in rows:
            texts.add(r["text"])
            k = "%s/%s" % ("accepted" if r["prepared"] else "rejected", r["outcome"])
            outcomes[k] = outcomes.get(k, 0) + 1
        if not samples:
            samples = [{"text": r["text"], "mutation": r["mutation"], "prepared": r["prepared"], "perr": r["perr"]} for r in rows[:3]]
        for b in bads:
            r = rows[b["l"] - 1]
            v.report(None, "%s: %s" % (",".join(b["why"]), r["text"][:200]), {"record": r, "why": b["why"]})
        vlib.log("[c14] batch %s: %d trees judged" % (tag, len(rows)))
    rc = v.finish()
    vlib.write_evidence(PROP, tier, seed, "model_checking", {
        "states": states, "transitions": trans,
        "traces_validated_against_impl": total,
        "evaluations": total,
        "distinct_nontrivial": len(texts),
        "rule": "selection trees over the schema the gallery ADVERTISES through introspection: every field of every reachable "
                "object type selected in each well-/ill-formed way (TLC-built, %d cases) + seeded random trees of depth <= 3, a "
                "third of them with one ill-formed mutation (unknown field, sub-selection on scalar/enum/__typename, missing "
                "sub-selection, field on a union); distinct = different query text" % g.distinct,
        "samples": samples,
        "outcomes": outcomes,
        "exhaustive": False,
    }, [
        "the gallery's shapes stand for 'all Go type shapes the builder accepts' (list in harness/internal/gallery)",
        "resolvers return valid data (valid enum values, NonNullable resolvers return non-nil)",
        "fragments on a type other than the parent object / a non-member of the union are outside the applicable part",
        "list entries may be null (thunder always marks them non-null; excepted by the statement)",
    ], violations=len(v.violations))
    return rc
