"""C04 — no lost invalidation, runs never overlap, Stop is final.  Reactive.tla,
exhaustive over the interleavings of small dependency shapes (M1), bound to the
real reactive package by trace validation of seeded, perturbed scenarios (M2)."""
from checks import rx_common as rx
from lib import vlib

PROP = "C04"


def run(tier, seed, replay=None):
    vlib.build_harness()
    quick = tier == "quick"
    cfgs = ["A_b1_stop", "A_b2_stop", "A_b2_spawn_stop", "B_b1", "F_b1_stop",
            # Stop called twice by overlapping callers; the rerunner's context cancelled by its owner; both
            "A1_b1_stop2", "A1_b1_pcancel", "A1_b1_pcancel_stop2"]
    if not quick:
        cfgs += ["F_b2_stop", "D_b1_stop", "C1_b1_fail_stop", "A_b2_pcancel_stop2"]
    states, trans, notes = rx.model_check(cfgs, coverage=not quick)
    # StopWaits = FALSE ("Stop returns at once when the context is already cancelled") must break StopFinal
    notes += rx.guards(["A1_b1_pcancel_nowait", "A1_b1_stop2_nowait"])
    if not quick:
        s2, n2 = rx.simulate(["B_b2", "D_b2"], 20000, 150, seed)
        states += s2
        trans += s2
        notes += n2
    v = vlib.Verdict(PROP)
    st = rx.validate_traces(PROP, v, ["A", "B", "F", "C", "D"], 250 if quick else 2500, seed, 0,
                            need_cov=("arm/true", "inv.mark/true") if not quick else ())
    rc = v.finish()
    vlib.write_evidence(PROP, tier, seed, "model_checking", {
        "states": states + st["states"],
        "transitions": trans + st["trans"],
        "traces_validated_against_impl": st["scenarios"],
        "evaluations": st["scenarios"],
        "distinct_nontrivial": st["distinct"],
        "rule": "scenario = one seeded run of real Rerunner(s) over shape A (two strobed resources), B (two rerunners "
                "sharing one) or F (per-run resource + strobed resource), with 0-3 data changes, optional concurrent Stop (once, twice by overlapping callers, after the owner cancelled the "
                "rerunner's context, or both), "
                "random yields/sleeps at the hooks; non-trivial = at least one data change; distinct = different event "
                "sequence (counted over the whole recorded event list)",
        "samples": st["samples"],
        "events_validated": st["events"],
        "branch_coverage_of_real_runs": st["coverage"],
        "model_checks": notes,
        "exhaustive": False,
    }, [
        "usage contract: a compute function registers a dependency before reading the data it stands for",
        "a long-lived resource keeps at least one dependant while in use (thunder releases a resource for good when its "
        "last dependant goes away), so failing runs are only combined with per-run resources",
        "hooks fire inside the critical section they report (MANIFEST.hooks); quiescence = no goroutine of the scenario left",
    ], violations=len(v.violations))
    return rc
