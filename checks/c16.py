"""C16 — a failing resolver fails the whole query; the error is one raised by a failing field,
path-prefixed unless client-safe.  Exec.tla's Failures(q, F) is the set of (response path,
failing resolver) pairs a sequential evaluation runs into; Exec_Trace demands: no data, the
reported failure is in that set, its path is right (list indices free for batch resolvers,
which fail all their destinations at once), safe/wrapped errors carry no path and never the
inner text."""
from checks import conn_common as cc
from checks import exec_common as ex
from lib import vlib

PROP = "C16"


def run(tier, seed, replay=None):
    vlib.build_harness()
    quick = tier == "quick"
    n = 800 if quick else 8000
    batches = []
    for k in range(2 if quick else 4):
        batches.append(dict(name="random-fail-%d" % k, world=seed * 10 + k, sched=True,
                            args=["-n", n, "-seed", seed * 10 + k, "-runs", 4, "-depth", 3, "-fail", 2 + k % 2]))
    batches.append(dict(name="tlc-enumerated-with-failures", world=seed, gen=(tier, False),
                        args=["-seed", seed + 5, "-runs", 4, "-fail", 2]))
    # which of several failures is reported, and with which path, may depend on the order of execution:
    # every sequential schedule of every query is enumerated (choice-sequence scheduler, depth-first, capped)
    batches.append(dict(name="all-schedules-with-failures", world=seed + 4,
                        args=["-n", 120 if quick else 1200, "-seed", seed * 10 + 8, "-runs", 1, "-depth", 3, "-fail", 3,
                              "-allsched", 200 if quick else 3000]))
    v = vlib.Verdict(PROP)
    st = ex.run_batches(PROP, v, batches)
    # the websocket half of the statement (only safe texts forwarded, generic message otherwise, an initially
    # failing subscription reported once and then closed): real connection traces validated against Conn.tla
    ws = cc.validate(PROP, v, 150 if quick else 1500, seed + 70, [2])
    rc = v.finish()
    if not ws["coverage"].get("sub.fail/initial"):
        raise vlib.Inconclusive("the connection driver never produced an initially failing subscription")
    failing = st["outcomes"].get("error", 0)
    ex.evidence(PROP, tier, seed, st, v,
                "seeded random queries and the TLC-enumerated grammar, each with a random set of <= 2-3 failing resolvers "
                "(plain error, SafeError, WrapAsSafeError, panic) placed on fields in plain, Expensive and batch modes, run under "
                "4 (mode assignment, scheduler) configurations; distinct = different (data graph, query text, failure set)",
                ["which of several failures is reported is free (set membership), as the statement says",
                 "the websocket half of the statement is decided on %d real connection scenarios validated against Conn.tla "
                 "(failing resolvers with plain and client-safe errors; every message checked to carry no inner text)" % ws["scenarios"]],
                extra={"failing_runs": failing, "websocket_scenarios_validated": ws["scenarios"], "websocket_events_validated": ws["events"]})
    if failing < 20:
        raise vlib.Inconclusive("only %d failing runs were produced; the failure part would be vacuous" % failing)
    return rc
