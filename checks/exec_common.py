"""Shared driver for the properties decided with Exec.tla on the zoo (C01, C19, C16)."""
import json
import os

from lib import vlib
from lib.vlib import Inconclusive


def gen_queries(tier, with_dirs, zoo, out):
    cfg = "Exec_Gen_%s_%s.cfg" % (tier, "TRUE" if with_dirs else "FALSE")
    r = vlib.tlc("Exec_Gen", cfg, env={"ZOO": zoo, "OUT": out}, workers=8, timeout=1200)
    if not r.ok or not os.path.exists(out):
        raise Inconclusive("Exec_Gen failed on the model (%s): %s\n%s" % (cfg, r.invariant, r.out[-2500:]))
    return r


def judge(zoo, recs, out):
    r = vlib.tlc("Exec_Trace", "Exec_Trace.cfg", env={"ZOO": zoo, "RECS": recs, "OUT": out}, workers=1, timeout=1700, heap="8g")
    if not r.ok or not os.path.exists(out):
        raise Inconclusive("Exec_Trace did not complete:\n" + r.out[-3000:])
    return r


def run_batches(prop, verdict, batches, classify=None):
    """batches: list of dicts(name, args(list), world(int)). Returns stats."""
    sc = vlib.scratch()
    st = dict(queries=0, runs=0, states=0, trans=0, texts=set(), samples=[], outcomes={}, nonconforming=0)
    for i, b in enumerate(batches):
        zoo = os.path.join(sc, "zoo_%s_%d.json" % (prop, i))
        recs = os.path.join(sc, "recs_%s_%d.ndjson" % (prop, i))
        bad = os.path.join(sc, "bad_%s_%d.ndjson" % (prop, i))
        gen = None
        args = ["exec", "-zoo", zoo, "-out", recs, "-world", b["world"]] + b["args"]
        if b.get("gen"):
            # the zoo description must exist before TLC can enumerate over it
            vlib.vh(["exec", "-zoo", zoo, "-out", os.path.join(sc, "dummy.ndjson"), "-world", b["world"], "-n", 0])
            qf = os.path.join(sc, "gq_%s_%d.ndjson" % (prop, i))
            gen = gen_queries(b["gen"][0], b["gen"][1], zoo, qf)
            st["states"] += gen.distinct
            st["trans"] += gen.generated
            args += ["-queries", qf]
        vlib.vh(args, timeout=1700)
        t = judge(zoo, recs, bad)
        rows = vlib.read_ndjson(recs)
        if t.distinct != len(rows) + 1:
            raise Inconclusive("Exec_Trace consumed %d of %d records" % (t.distinct - 1, len(rows)))
        st["states"] += t.distinct
        st["trans"] += t.generated
        st["queries"] += len(rows)
        for r in rows:
            st["schedules"] = st.get("schedules", 0) + r.get("nsched", 0)
            st["sched_exhausted"] = st.get("sched_exhausted", 0) + (1 if r.get("schedexhausted") else 0)
            st["sched_queries"] = st.get("sched_queries", 0) + (1 if r.get("nsched", 0) else 0)
            st["runs"] += len(r["runs"]) + (1 if r["pruned"]["outcome"] != "none" else 0)
            st["texts"].add((b["world"], r["text"], json.dumps(r["fail"], sort_keys=True)))
            for x in r["runs"]:
                st["outcomes"][x["outcome"]] = st["outcomes"].get(x["outcome"], 0) + 1
        if not st["samples"] and rows:
            mid = rows[len(rows) // 2]
            st["samples"].append({"text": mid["text"], "fail": mid["fail"], "first_run": {
                "modes": mid["runs"][0]["modes"], "sched": mid["runs"][0]["sched"], "outcome": mid["runs"][0]["outcome"],
                "err": mid["runs"][0]["err"]}})
        for bd in vlib.read_ndjson(bad):
            r = rows[bd["l"] - 1]
            st["nonconforming"] += 1
            why = bd["why"]
            if any(w.startswith("SPEC_") for w in why):
                raise Inconclusive("the reference semantics contradicts itself on %s: %s" % (r["text"], why))
            key = classify(r, why) if classify else None
            verdict.report(key, "%s: %s" % (",".join(why), r["text"].replace("\n", " ")[:200]),
                           {"world": b["world"], "batch": b["name"], "record": r, "why": why})
        vlib.log("[%s] batch %s: %d queries judged" % (prop, b["name"], len(rows)))
    return st


def evidence(prop, tier, seed, st, verdict, rule, assumptions, extra=None):
    cov = {
        "states": st["states"], "transitions": st["trans"],
        "traces_validated_against_impl": st["runs"],
        "evaluations": st["runs"],
        "distinct_nontrivial": len(st["texts"]),
        "rule": rule,
        "samples": st["samples"],
        "queries": st["queries"],
        "run_outcomes": st["outcomes"],
        "nonconforming_records": st["nonconforming"],
        "exhaustive": False,
    }
    if st.get("schedules"):
        cov["schedules_enumerated"] = st["schedules"]
        cov["queries_with_all_schedules_enumerated"] = st.get("sched_exhausted", 0)
        cov["queries_in_schedule_enumeration"] = st.get("sched_queries", 0)
    if extra:
        cov.update(extra)
    vlib.write_evidence(prop, tier, seed, "model_checking", cov, assumptions, violations=len(verdict.violations))
