"""Shared driver for the properties decided with Exec.tla on the zoo (C01, C19, C16)."""
import json
import os
import re

from lib import vlib
from lib.vlib import Inconclusive


def gen_queries(tier, with_dirs, zoo, out):
    cfg = "Exec_Gen_%s_%s.cfg" % (tier, "TRUE" if with_dirs else "FALSE")
    r = vlib.tlc("Exec_Gen", cfg, env={"ZOO": zoo, "OUT": out}, workers=8, timeout=1200)
    if not r.ok or not os.path.exists(out):
        raise Inconclusive("Exec_Gen failed on the model (%s): %s\n%s" % (cfg, r.invariant, r.out[-2500:]))
    return r


def judge(zoo, recs, out):
    r = vlib.tlc("Exec_Trace", "Exec_Trace.cfg", env={"ZOO": zoo, "RECS": recs, "OUT": out}, workers=1, timeout=1700, heap="8g")
    if not r.ok or not os.path.exists(out):
        raise Inconclusive("Exec_Trace did not complete:\n" + r.out[-3000:])
    return r


def sched_model(tier, st):
    """ExecSched.tla: every tree of N work units x every placement of failing units x every interleaving of the
    stock scheduler; the two design switches off must violate (vacuity guards)."""
    n = 4 if tier == "quick" else 5
    r = vlib.tlc("ExecSched_MC", "ExecSched_MC_TRUE_TRUE_%d.cfg" % n, workers=12, timeout=1500, heap="12g")
    if not r.ok:
        raise Inconclusive("ExecSched_MC does not hold on the model itself: %s\n%s" % (r.invariant, r.out[-2500:]))
    st["states"] += r.distinct
    st["trans"] += r.generated
    st["sched_model_states"] = r.distinct
    for cfg, want in (("ExecSched_MC_FALSE_TRUE_4.cfg", "ReturnedQuiescent"), ("ExecSched_MC_TRUE_FALSE_4.cfg", "ErrStable")):
        g = vlib.tlc("ExecSched_MC", cfg, workers=4, timeout=600)
        if g.ok or g.invariant != want:
            raise Inconclusive("vacuity guard %s: expected %s to be violated, got %s" % (cfg, want, g.invariant))
    st["sched_model_guards"] = 2
    # unbounded depth: the inductive invariant of ExecSchedInd.tla (the same actions, typed for Apalache, any set of
    # children per unit): Init => IndInv, IndInv /\ Next => IndInv', IndInv => Safety
    sc = vlib.scratch()
    cwd = os.path.join(sc, "spec")
    for init, inv, length in (("Init", "IndInv", 0), ("IndInit", "IndInv", 1), ("IndInit", "Safety", 0)):
        rc, out = vlib.sh(["apalache-mc", "check", "--init=" + init, "--inv=" + inv, "--length=%d" % length,
                           "--out-dir=" + os.path.join(sc, "apalache-out"), "ExecSchedInd.tla"], cwd=cwd, timeout=900, check=False)
        if "EXITCODE: OK" not in out:
            raise Inconclusive("Apalache: %s => %s (length %d) of ExecSchedInd.tla is not established:\n%s" % (init, inv, length, out[-2500:]))
    st["sched_inductive_invariant"] = "IndInv of ExecSchedInd.tla inductive for 6 units and arbitrary children sets (Apalache, 3 obligations)"


def sched_trace(prop, verdict, trace, st, batch):
    """ExecSched_Trace.tla on the scheduling trace of one batch; a rejected run is reported and removed, the rest re-validated."""
    maxu = int((open(trace + ".maxu").read() or "0").strip())
    events = vlib.read_ndjson(trace)
    runs, cur = [], None
    for e in events:
        if e["ev"] in ("reset", "late"):
            cur = [e]
            runs.append(cur)
        else:
            cur.append(e)
    st["sched_runs"] = st.get("sched_runs", 0) + sum(1 for r in runs if r[0]["ev"] == "reset")
    st["sched_events"] = st.get("sched_events", 0) + len(events)
    st["sched_errors_recorded"] = st.get("sched_errors_recorded", 0) + sum(1 for e in events if e["ev"] == "errfirst")
    st["sched_errors_dropped"] = st.get("sched_errors_dropped", 0) + sum(1 for e in events if e["ev"] == "errrec") - \
        sum(1 for e in events if e["ev"] == "errfirst")
    for attempt in range(4):
        flat = [e for r in runs for e in r]
        vlib.write_ndjson(trace, flat)
        r = vlib.tlc("ExecSched_Trace", "ExecSched_Trace.cfg", env={"TRACE": trace, "MAXU": max(maxu, 1)}, workers=1, timeout=1200, heap="6g")
        st["states"] += r.distinct
        st["trans"] += r.generated
        if r.ok:
            if r.distinct != len(flat) + 1:
                raise Inconclusive("ExecSched_Trace consumed %d of %d events" % (r.distinct - 1, len(flat)))
            return
        m = re.search(r"REJECTED_AT_LINE\", (\d+)", r.out)
        line, what = None, None
        if r.invariant:
            ls = re.findall(r"/\\ l = (\d+)", r.out)
            line = int(ls[-1]) - 1 if ls else None
            what = "invariant %s of ExecSched.tla fails on a real run" % r.invariant
        elif m:
            line = int(m.group(1))
            what = "real scheduling is not a behaviour of ExecSched.tla"
        if line is None or line < 1 or line > len(flat):
            raise Inconclusive("ExecSched_Trace failed without a verdict:\n" + r.out[-3000:])
        k, acc = 0, 0
        for k, rr in enumerate(runs):
            if acc + len(rr) >= line:
                break
            acc += len(rr)
        bad = runs[k]
        at = flat[line - 1]
        verdict.report(None, "%s: rejected at event %d of a run (%s) under scheduler %s" % (
            what, line - acc, json.dumps(at), bad[0].get("s", "?")),
            {"batch": batch, "kind": "sched", "run": bad, "rejected_at": line - acc})
        runs = runs[:k] + runs[k + 1:]
    vlib.log("[%s] more than 4 rejected scheduling runs; stopping" % prop)


def died_in_thunder(prop, verdict, b, curf, out):
    """The driver process died.  Only if its death is a Go fatal error / panic whose running goroutine is inside
    thunder's own packages AND re-running the very run it was executing in a fresh process dies the same way
    is that a verdict (the server would have died on a valid query); anything else is inconclusive."""
    def fatal_in_thunder(text):
        m = re.search(r"^(fatal error: .*|panic: .*)$", text, re.M)
        if not m:
            return None
        running = text[m.start():]
        k = running.find("[running]")
        top = running[k:k + 6000] if k >= 0 else running[:6000]
        frames = re.findall(r"^(github\.com/samsarahq/thunder/[\w./*()]+)", top, re.M)
        return (m.group(1), frames[0]) if frames else None
    first = fatal_in_thunder(out)
    if not first or not os.path.exists(curf):
        raise Inconclusive("the exec driver died: %s" % out[-3000:])
    rc, out2 = vlib.vh(["exec", "-world", b["world"], "-one", curf], timeout=600, check=False)
    again = fatal_in_thunder(out2) if rc != 0 else None
    if not again:
        raise Inconclusive("the exec driver died inside thunder (%s at %s) but the run does not die again on its own:\n%s" % (
            first[0], first[1], out[-1500:]))
    cur = json.load(open(curf))
    verdict.report(None, "the process dies executing a valid query (%s in %s, twice): %s" % (again[0], again[1], cur["text"].replace("\n", " ")[:200]),
                   {"kind": "death", "batch": b["name"], "run": cur, "fatal": again[0], "frame": again[1]})


def run_batches(prop, verdict, batches, classify=None):
    """batches: list of dicts(name, args(list), world(int)). Returns stats."""
    sc = vlib.scratch()
    st = dict(queries=0, runs=0, states=0, trans=0, texts=set(), samples=[], outcomes={}, nonconforming=0)
    for i, b in enumerate(batches):
        zoo = os.path.join(sc, "zoo_%s_%d.json" % (prop, i))
        recs = os.path.join(sc, "recs_%s_%d.ndjson" % (prop, i))
        bad = os.path.join(sc, "bad_%s_%d.ndjson" % (prop, i))
        gen = None
        args = ["exec", "-zoo", zoo, "-out", recs, "-world", b["world"]] + b["args"]
        if b.get("gen"):
            # the zoo description must exist before TLC can enumerate over it
            vlib.vh(["exec", "-zoo", zoo, "-out", os.path.join(sc, "dummy.ndjson"), "-world", b["world"], "-n", 0])
            qf = os.path.join(sc, "gq_%s_%d.ndjson" % (prop, i))
            gen = gen_queries(b["gen"][0], b["gen"][1], zoo, qf)
            st["states"] += gen.distinct
            st["trans"] += gen.generated
            args += ["-queries", qf]
        strace = os.path.join(sc, "sched_%s_%d.ndjson" % (prop, i))
        if b.get("sched"):
            args += ["-schedtrace", strace]
        curf = os.path.join(sc, "current_%s_%d.json" % (prop, i))
        args += ["-current", curf]
        rc, out = vlib.vh(args, timeout=1700, check=False)
        if rc != 0:
            died_in_thunder(prop, verdict, b, curf, out)
            continue
        if b.get("sched"):
            sched_trace(prop, verdict, strace, st, b["name"])
        t = judge(zoo, recs, bad)
        rows = vlib.read_ndjson(recs)
        if t.distinct != len(rows) + 1:
            raise Inconclusive("Exec_Trace consumed %d of %d records" % (t.distinct - 1, len(rows)))
        st["states"] += t.distinct
        st["trans"] += t.generated
        st["queries"] += len(rows)
        for r in rows:
            st["schedules"] = st.get("schedules", 0) + r.get("nsched", 0)
            st["sched_exhausted"] = st.get("sched_exhausted", 0) + (1 if r.get("schedexhausted") else 0)
            st["sched_queries"] = st.get("sched_queries", 0) + (1 if r.get("nsched", 0) else 0)
            st["runs"] += len(r["runs"]) + (1 if r["pruned"]["outcome"] != "none" else 0)
            st["texts"].add((b["world"], r["text"], json.dumps(r["fail"], sort_keys=True)))
            for x in r["runs"]:
                st["outcomes"][x["outcome"]] = st["outcomes"].get(x["outcome"], 0) + 1
        if not st["samples"] and rows:
            mid = rows[len(rows) // 2]
            st["samples"].append({"text": mid["text"], "fail": mid["fail"], "first_run": {
                "modes": mid["runs"][0]["modes"], "sched": mid["runs"][0]["sched"], "outcome": mid["runs"][0]["outcome"],
                "err": mid["runs"][0]["err"]}})
        for bd in vlib.read_ndjson(bad):
            r = rows[bd["l"] - 1]
            st["nonconforming"] += 1
            why = bd["why"]
            if any(w.startswith("SPEC_") for w in why):
                raise Inconclusive("the reference semantics contradicts itself on %s: %s" % (r["text"], why))
            key = classify(r, why) if classify else None
            verdict.report(key, "%s: %s" % (",".join(why), r["text"].replace("\n", " ")[:200]),
                           {"world": b["world"], "batch": b["name"], "record": r, "why": why})
        vlib.log("[%s] batch %s: %d queries judged" % (prop, b["name"], len(rows)))
    return st


def evidence(prop, tier, seed, st, verdict, rule, assumptions, extra=None):
    cov = {
        "states": st["states"], "transitions": st["trans"],
        "traces_validated_against_impl": st["runs"],
        "evaluations": st["runs"],
        "distinct_nontrivial": len(st["texts"]),
        "rule": rule,
        "samples": st["samples"],
        "queries": st["queries"],
        "run_outcomes": st["outcomes"],
        "nonconforming_records": st["nonconforming"],
        "exhaustive": False,
    }
    if st.get("schedules"):
        cov["schedules_enumerated"] = st["schedules"]
        cov["queries_with_all_schedules_enumerated"] = st.get("sched_exhausted", 0)
        cov["queries_in_schedule_enumeration"] = st.get("sched_queries", 0)
    for k in ("sched_runs", "sched_events", "sched_errors_recorded", "sched_errors_dropped", "sched_model_states", "sched_model_guards", "sched_inductive_invariant"):
        if k in st:
            cov[k] = st[k]
    if extra:
        cov.update(extra)
    vlib.write_evidence(prop, tier, seed, "model_checking", cov, assumptions, violations=len(verdict.violations))
