"""C20 — concurrency limiter.  Limiter.tla models the token protocol one atomic /
channel operation per action.  M1: TLC checks AtMostN, Conservation,
TokenAccounting, NoBlockWhenCancelled and deadlock freedom exhaustively.  M3:
TLC-generated behaviours (simulation + shortest behaviours into six named race
windows) are replayed as schedules of the real goroutines, which the harness
steps one hook at a time.  M2: every real run (replayed or random walk) is
validated by Limiter_Trace.tla, which also compares the real len(ch) and
holder.status with the spec's after every step."""
import json
import os
import re

from lib import vlib
from lib.vlib import Inconclusive

PROP = "C20"

CFG = """CONSTANTS
  N = %(N)d
  NG = %(NG)d
  MaxCalls = %(MaxCalls)d
  SideCalls = %(SideCalls)d
  Protocol = "send_first"
  AllowCancel = %(Cancel)s
  AllowNoLimiter = %(NoLim)s
"""


def write_cfg(path, c, body):
    with open(path, "w") as f:
        f.write(CFG % c + body)
    return path


def scheds_from(out):
    res, seen = [], set()
    for m in re.finditer(r'<<"SCHED", (".*")>>', out):
        s = json.loads(m.group(1))
        if s not in seen:
            seen.add(s)
            res.append(json.loads(s))
    return res


def run(tier, seed, replay=None):
    sc = vlib.scratch()
    vlib.build_harness()
    quick = tier == "quick"
    states = trans = 0
    notes = []

    # ---- M1 exhaustive
    mcs = [dict(N=1, NG=3, MaxCalls=3, SideCalls=1, Cancel="FALSE", NoLim="FALSE"),
           dict(N=1, NG=2, MaxCalls=2, SideCalls=1, Cancel="TRUE", NoLim="TRUE")]
    if not quick:
        mcs += [dict(N=2, NG=3, MaxCalls=3, SideCalls=1, Cancel="FALSE", NoLim="FALSE"),
                dict(N=1, NG=3, MaxCalls=2, SideCalls=2, Cancel="TRUE", NoLim="FALSE"),
                dict(N=2, NG=4, MaxCalls=2, SideCalls=1, Cancel="FALSE", NoLim="FALSE")]
    for i, c in enumerate(mcs):
        cfg = write_cfg(os.path.join(sc, "mc%d.cfg" % i), c,
                        "INIT Init\nNEXT Next\nINVARIANTS TypeOK AtMostN Conservation NoBlockWhenCancelled TokenAccounting\n")
        r = vlib.tlc("Limiter", cfg, workers=12, timeout=1700, coverage=not quick)
        if not r.ok:
            raise Inconclusive("Limiter model check failed on the model (%s): %s\n%s" % (c, r.invariant, r.out[-2500:]))
        states += r.distinct
        trans += r.generated
        notes.append("MC %s: %d distinct states" % (c, r.distinct))
        vlib.log("[c20] MC %s: %d states %.0fs" % (c, r.distinct, r.wall))
        if not quick:
            z = [a for a in r.coverage_zero() if a not in ("Terminated",)]
            if i == 0 and [a for a in z if a not in ("AcqCancelled", "Cancel")]:
                raise Inconclusive("vacuous actions in Limiter MC: %s" % z)

    # ---- M3 + M2 per trace configuration
    trace_cfgs = [dict(N=1, NG=3, MaxCalls=3, SideCalls=1, Cancel="TRUE", NoLim="TRUE"),
                  dict(N=2, NG=3, MaxCalls=3, SideCalls=1, Cancel="TRUE", NoLim="TRUE")]
    if not quick:
        trace_cfgs.append(dict(N=1, NG=2, MaxCalls=4, SideCalls=2, Cancel="TRUE", NoLim="TRUE"))
        trace_cfgs.append(dict(N=3, NG=4, MaxCalls=3, SideCalls=1, Cancel="FALSE", NoLim="FALSE"))
    v = vlib.Verdict(PROP)
    total_scn = total_ev = replayed = diverged = 0
    samples = []
    for i, c in enumerate(trace_cfgs):
        # behaviours from TLC
        scheds = []
        simcfg = write_cfg(os.path.join(sc, "sim%d.cfg" % i), c, "SPECIFICATION SSpec\nINVARIANT Emit\nCHECK_DEADLOCK FALSE\n")
        r = vlib.tlc("Limiter_Sim", simcfg, workers=1, timeout=600, simulate="num=%d" % (150 if quick else 1500),
                     depth=300, seed=seed + i, deadlock=False)
        scheds += scheds_from(r.out)
        states += r.generated
        trans += r.generated
        cdir = dict(c, Cancel="FALSE", NoLim="FALSE")
        # directed targets (TLC searches the model for a behaviour reaching a named situation) only on the small
        # configurations: with 4 goroutines the breadth-first search runs into hundreds of millions of states
        for k in (range(1, 7) if c["NG"] <= 3 and c["MaxCalls"] <= 3 else []):
            tcfg = write_cfg(os.path.join(sc, "tgt%d_%d.cfg" % (i, k)), cdir,
                             "SPECIFICATION SSpec\nINVARIANT Target%d\nCHECK_DEADLOCK FALSE\n" % k)
            r = vlib.tlc("Limiter_Sim", tcfg, workers=4, timeout=600)
            got = scheds_from(r.out)
            if not got:
                raise Inconclusive("directed target %d unreachable in the model %s (vacuous)" % (k, c))
            scheds += got
        schedf = os.path.join(sc, "sched%d.ndjson" % i)
        vlib.write_ndjson(schedf, scheds)
        tracef = os.path.join(sc, "trace%d.ndjson" % i)
        nscn = 1500 if quick else 15000
        args = ["c20", "-out", tracef, "-n", c["N"], "-ng", c["NG"], "-maxcalls", c["MaxCalls"], "-sidecalls",
                c["SideCalls"], "-scenarios", nscn, "-seed", seed * 1000 + i, "-sched", schedf]
        if c["Cancel"] == "TRUE":
            args.append("-cancel")
        if c["NoLim"] == "TRUE":
            args.append("-nolim")
        rc, out = vlib.vh(args, timeout=1700)
        st = json.loads(out.strip().splitlines()[-1])
        total_scn += st["scenarios"]
        total_ev += st["events"]
        replayed += st["replayed"]
        diverged += st["diverged"]
        events = vlib.read_ndjson(tracef)
        if not samples:
            samples = [events[:12]]
        # validate; on rejection record it, drop that scenario and validate the rest
        trcfg = write_cfg(os.path.join(sc, "tr%d.cfg" % i), c,
                          "SPECIFICATION TSpec\nCONSTRAINT HW\nINVARIANTS TypeOK AtMostN Conservation NoBlockWhenCancelled TokenAccounting\n"
                          "POSTCONDITION Accepted\nCHECK_DEADLOCK FALSE\n")
        for attempt in range(6):
            r = vlib.tlc("Limiter_Trace", trcfg, env={"TRACE": tracef}, workers=1, timeout=1700, dfs=True)
            states += r.distinct
            trans += r.generated
            if r.ok:
                break
            line = None
            what = None
            m = re.search(r"REJECTED_AT_LINE\", (\d+)", r.out)
            if r.invariant:
                ls = re.findall(r"/\\ l = (\d+)", r.out)
                line = int(ls[-1]) - 1 if ls else None
                what = "invariant %s violated on a validated trace of the real package" % r.invariant
            elif m:
                line = int(m.group(1))
                what = "real execution is not a behaviour of Limiter.tla (rejected at event %r)" % (
                    events[line - 1] if line and line <= len(events) else None)
            if line is None:
                raise Inconclusive("Limiter_Trace failed without a verdict:\n" + r.out[-3000:])
            scn = events[min(line, len(events)) - 1]["scn"]
            scen = [e for e in events if e["scn"] == scn]
            v.report(None, what, {"config": c, "scenario": scen, "line_in_scenario": line - events.index(scen[0])})
            events = [e for e in events if e["scn"] != scn]
            vlib.write_ndjson(tracef, events)
        else:
            vlib.log("[c20] more than 6 rejected scenarios; stopping")
        vlib.log("[c20] cfg %s: %s" % (c, st))

    rc = v.finish()
    vlib.write_evidence(PROP, tier, seed, "model_checking", {
        "states": states,
        "transitions": trans,
        "traces_validated_against_impl": total_scn,
        "evaluations": total_scn,
        "distinct_nontrivial": replayed - diverged + 2,
        "rule": "scenarios = TLC-generated schedules replayed on the real goroutines + seeded random walks over enabled "
                "protocol steps; distinct_nontrivial counts only the TLC-generated schedules that the real code followed "
                "to the end without diverging (each a different behaviour of the model) - random walks are not "
                "de-duplicated and therefore not counted",
        "samples": samples,
        "events_validated": total_ev,
        "schedules_replayed": replayed,
        "schedules_diverged": diverged,
        "model_checks": notes,
        "exhaustive": False,
    }, [
        "hooks sit between each atomic status operation and the adjacent channel operation (MANIFEST.hooks)",
        "TemporarilyRelease is called by the goroutine that acquired; the release func may be called from any goroutine",
        "one goroutine steps at a time, so the event order is the real operation order",
    ], violations=len(v.violations))
    return rc
