"""C12 — a shard-limited DB handle can never read or write outside its shard.

SqlLimit.tla defines what 'confined' means for a statement (read: every disjunct of the WHERE pins
every limit column to the limit value; insert/upsert: every written row carries it; update: carried
in SET or WHERE; delete: WHERE pins it) and what the headline means for the table (rows outside the
limit are neither returned, changed nor created).  SqlLimit_MC.tla is the limited handle as a state
machine (every operation: sqlgen's check, the statement it emits, the statement's SQL effect) over a
small table; TLC checks StatementsConfined, RejectedTouchesNothing and NeverOutside for all histories
of 3 operations; UPDATE by primary key alone and UpsertRow must each break NeverOutside (guards).

Binding: every operation of the real sqlgen.DB (Query, QueryRow, Count, InsertRow(s), UpsertRow(s),
UpdateRow, DeleteRow; batched reads; inside transactions) with a shard limit, a rejecting dynamic
limit or both, over the fake MySQL driver, with complying and non-complying filters / rows (missing
limit column, other shard, right value in another Go type).  SqlLimit_Trace.tla judges each record on
the statements the driver really received and on the table before / after."""
import os

from lib import vlib
from lib.vlib import Inconclusive

PROP = "C12"
KF = {"KF_upsert_overwrites_row_of_another_shard": "upsert_overwrites_row_of_another_shard"}


def run(tier, seed, replay=None):
    sc = vlib.scratch()
    vlib.build_harness()
    quick = tier == "quick"
    states = trans = 0
    m = vlib.tlc("SqlLimit_MC", "SqlLimit_MC_TRUE_FALSE.cfg", workers=8, timeout=900)
    if not m.ok:
        raise Inconclusive("SqlLimit_MC failed on the model: %s\n%s" % (m.invariant, m.out[-2000:]))
    states += m.distinct
    trans += m.generated
    for cfg in ("SqlLimit_MC_FALSE_FALSE.cfg", "SqlLimit_MC_TRUE_TRUE.cfg"):
        g = vlib.tlc("SqlLimit_MC", cfg, workers=4, timeout=900)
        if g.ok or g.invariant != "NeverOutside":
            raise Inconclusive("%s no longer violates NeverOutside (vacuity guard)" % cfg)
        states += g.distinct
        trans += g.generated
    v = vlib.Verdict(PROP)
    n = 1200 if quick else 96000
    chunks = 2 if quick else 16
    nrec = nstmts = 0
    ops = {}
    rejected = accepted = 0
    samples = []
    distinct = set()
    for c in range(chunks):
        recs = os.path.join(sc, "c12_%d.ndjson" % c)
        bad = os.path.join(sc, "c12_%d_bad.ndjson" % c)
        vlib.vh(["c12", "-out", recs, "-n", n // chunks, "-seed", seed * 100 + c], timeout=1700)
        t = vlib.tlc("SqlLimit_Trace", "SqlLimit_Trace.cfg", env={"RECS": recs, "OUT": bad}, workers=1, timeout=1700, heap="4g")
        if not t.ok or not os.path.exists(bad):
            raise Inconclusive("SqlLimit_Trace did not complete:\n" + t.out[-3000:])
        rows = vlib.read_ndjson(recs)
        if t.distinct != len(rows) + 1:
            raise Inconclusive("SqlLimit_Trace consumed %d of %d records" % (t.distinct - 1, len(rows)))
        states += t.distinct
        trans += t.generated
        nrec += len(rows)
        for r in rows:
            nstmts += len(r["stmts"])
            k = "%s/%s%s%s" % (r["mode"], r["op"]["kind"], "/batched" if r["op"]["batched"] else "", "/tx" if r["op"]["tx"] else "")
            ops[k] = ops.get(k, 0) + 1
            rejected += sum(1 for e in r["errs"] if e == "limit")
            accepted += sum(1 for e in r["errs"] if e == "")
            distinct.add(str((r["mode"], r["limit"], r["op"], r["before"])))
        if rows and len(samples) < 2:
            r = next((x for x in rows if x["op"]["batched"]), rows[0])
            samples.append({"mode": r["mode"], "limit": r["limit"], "op": r["op"], "errs": r["errs"],
                            "statements": [s["sql"] for s in r["stmts"]]})
        for b in vlib.read_ndjson(bad):
            r = rows[b["l"] - 1]
            why = b["why"]
            if any(w.startswith("SPEC_") for w in why):
                raise Inconclusive("the model of sqlgen's limit check disagrees with the real one on record %d: %s %s"
                                   % (r["i"], why, str(r["op"])[:300]))
            for w in why:
                if w in KF:
                    v.report(KF[w], w, None)
            rest = [w for w in why if w not in KF]
            if rest:
                v.report(None, "%s: %s %s limit %s" % (",".join(rest), r["mode"], str(r["op"])[:200], r["limit"]),
                         {"why": why, "mode": r["mode"], "limit": r["limit"], "op": r["op"], "errs": r["errs"], "got": r["got"],
                          "statements": r["stmts"], "before": r["before"], "after": r["after"]})
    rc = v.finish()
    if accepted < nrec // 10 or rejected < nrec // 20:
        raise Inconclusive("only %d calls were accepted and %d rejected by the limit out of %d operations: the judgement would be "
                           "vacuous" % (accepted, rejected, nrec))
    vlib.write_evidence(PROP, tier, seed, "model_checking", {
        "states": states, "transitions": trans,
        "traces_validated_against_impl": nrec,
        "evaluations": nrec,
        "distinct_nontrivial": len(distinct),
        "rule": "model: every history of 3 operations from every table over 2 ids x 2 shards x 2 names. real code: %d seeded "
                "operations; each on a fresh table of 2-6 rows over two shards, limit mode drawn from {shard, rejecting dynamic, both}, "
                "operation from the 9 API operations (reads half of the time as 2-4 concurrent batched calls; a quarter inside a "
                "transaction), filters/rows complying or breaking the limit (no limit column, other shard, right value as int / "
                "pointer / uint8); distinct = different (mode, limit, operation, table)" % nrec,
        "samples": samples,
        "statements_judged": nstmts, "calls_rejected_by_the_limit": rejected, "calls_accepted": accepted, "operations": ops,
        "exhaustive": False,
    }, [
        "one limit column (org) that is not part of the primary key; the fake driver applies MySQL semantics to the statements",
        "a dynamic limit whose ShouldContinueOnError returns true lets statements through by design and is not exercised",
        "SelectOptions with a hand-written WHERE are outside the property (sqlgen checks the Filter only)",
    ], violations=len(v.violations))
    return rc
