"""C19 — @skip/@include behave as textual deletion.  Exec.tla defines Include/Prune; TLC proves
on every generated query that evaluating with directives equals evaluating the pruned query
(the reference's own theorem), enumerates one/two-directive placements on every node of a
query family (M5), and the harness executes both the annotated text and the textually pruned
text on the real code; Exec_Trace compares each with the reference (M4)."""
from checks import exec_common as ex
from lib import vlib

PROP = "C19"


def run(tier, seed, replay=None):
    vlib.build_harness()
    quick = tier == "quick"
    n = 600 if quick else 6000
    batches = [dict(name="tlc-enumerated-directives", world=seed, gen=(tier, True), args=["-seed", seed, "-runs", 3, "-dirs"])]
    for k in range(2 if quick else 4):
        batches.append(dict(name="random-dirs-%d" % k, world=seed * 10 + k,
                            args=["-n", n, "-seed", seed * 10 + k, "-runs", 3, "-depth", 3, "-dirs"]))
    v = vlib.Verdict(PROP)
    st = ex.run_batches(PROP, v, batches)
    rc = v.finish()
    ex.evidence(PROP, tier, seed, st, v,
                "TLC-enumerated placements of 7 directive lists (single, both, both orders) on every node of a query family + "
                "seeded random queries where a third of the fields, inline fragments and fragment spreads carry 1-2 directives "
                "with literal or variable conditions, the same named fragment spread several times; each is executed as written "
                "and textually pruned; distinct = different (data graph, query text)",
                ["conditions come from literals and from two Boolean variables",
                 "the federation gateway part of the statement is decided by the C06 check"])
    return rc
