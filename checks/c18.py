"""C18 — arguments reach resolvers exactly as sent, by literal, by variable or by variable
default.  Args.tla: Canon(T, j) is what must arrive (or Reject) for JSON value j at argument
type T.  Args_Gen enumerates the case matrix (echo field x value class incl. width boundaries
and wrong JSON kinds) and checks on the model that well-typed values are accepted and arrive
as sent (M5); every case (+ seeded random values) is sent through the real
Parse/PrepareQuery/Execute by five transports and Args_Trace judges what the resolver
received, that rejected requests are client errors and that no resolver ran for them (M4)."""
import os

from lib import vlib
from lib.vlib import Inconclusive

PROP = "C18"


def run(tier, seed, replay=None):
    sc = vlib.scratch()
    vlib.build_harness()
    quick = tier == "quick"
    types = os.path.join(sc, "argtypes.json")
    vlib.vh(["c18", "-types", types])
    cases = os.path.join(sc, "c18cases.ndjson")
    g = vlib.tlc("Args_Gen", "Args_Gen.cfg", env={"ARGTYPES": types, "OUT": cases}, workers=4, timeout=900)
    if not g.ok:
        raise Inconclusive("Args_Gen failed on the model: %s\n%s" % (g.invariant, g.out[-2500:]))
    recs = os.path.join(sc, "c18.ndjson")
    vlib.vh(["c18", "-cases", cases, "-out", recs, "-rand", 3000 if quick else 200000, "-seed", seed], timeout=1700)
    bad = os.path.join(sc, "c18bad.ndjson")
    t = vlib.tlc("Args_Trace", "Args_Trace.cfg", env={"ARGTYPES": types, "RECS": recs, "OUT": bad}, workers=1, timeout=1700, heap="8g")
    if not t.ok or not os.path.exists(bad):
        raise Inconclusive("Args_Trace did not complete:\n" + t.out[-3000:])
    rows = vlib.read_ndjson(recs)
    if t.distinct != len(rows) + 1:
        raise Inconclusive("Args_Trace consumed %d of %d records" % (t.distinct - 1, len(rows)))
    v = vlib.Verdict(PROP)
    for b in vlib.read_ndjson(bad):
        r = rows[b["l"] - 1]
        v.report(None, "%s: %s %s vars=%s" % (",".join(b["why"]), r["transport"], r["text"][:160], r["vars"][:80]), {"record": r, "why": b["why"]})
    outcomes = {}
    distinct = set()
    for r in rows:
        k = "%s/%s" % (r["transport"], r["outcome"])
        outcomes[k] = outcomes.get(k, 0) + 1
        distinct.add((r["f"], r["text"], r["vars"]))
    rc = v.finish()
    vlib.write_evidence(PROP, tier, seed, "model_checking", {
        "states": g.distinct + t.distinct, "transitions": g.generated + t.generated,
        "traces_validated_against_impl": len(rows),
        "evaluations": len(rows),
        "distinct_nontrivial": len(distinct),
        "rule": "case = (echo field of the argument gallery: 35 argument shapes, value); values = TLC-enumerated classes (0, +-1, "
                "min/max of the width, 2^53-1, empty/escaped strings, enum members and a non-member, base64, RFC3339, null, "
                "absent, nested objects with one field varied/left out, lists, every wrong JSON kind) + seeded random values; "
                "each case is sent by literal, variable, default, default with explicit null, default overridden; distinct = "
                "different (field, query text, variables)",
        "samples": [{"f": r["f"], "transport": r["transport"], "text": r["text"], "vars": r["vars"], "outcome": r["outcome"]} for r in rows[:: max(1, len(rows) // 4)][:4]],
        "outcomes": outcomes,
        "spec_cases": g.distinct,
        "exhaustive": False,
    }, [
        "numbers outside the target type's range and malformed base64/RFC3339 strings are not demanded to be rejected or accepted "
        "(the statement only fixes equality for values of the type and rejection for wrong kinds)",
        "the null literal is not used (the vendored GraphQL grammar predates it); null travels by variable or omission",
        "variable types in the operation header are not checked by thunder and carry no meaning here",
    ], violations=len(v.violations))
    return rc
