"""C13 — row codec round trip.

Codec.tla states the laws over the column zoo the harness describes (29 columns: ints and uints of
every width, floats, bool, string and named scalar types, []byte, time, pointers, text / binary /
json encoded fields, implicit NULLs; the value classes of each - zero, boundaries, NULL/nil, the
uint64 values above MaxInt64, non-ASCII text - and the source representations a SQL value arrives
in: what the Valuer produced, []byte text, string, go-mysql's sized binlog ints / float32 / strings,
TINYINT(1) as int64): RoundTrip, OwnFilter (matches the row, and no row with another SQL value),
ProtoFilter (rejected or the same rows).  Codec_Gen lets TLC enumerate the full (column, value class,
form) matrix; the harness executes every case plus seeded random values on the real UnbuildStruct /
BuildStruct / MakeTester / FilterToProto / FilterFromProto; Codec_Trace judges every record and that
the matrix was executed completely.

This property is encode/decode fidelity of pure functions: the specification contributes the case
matrix and the laws, not a transition system (DESIGN.md section 5 C13 says so); the level claimed is
bounded-exhaustive exploration, not model checking of a design."""
import os

from lib import vlib
from lib.vlib import Inconclusive

PROP = "C13"


def run(tier, seed, replay=None):
    sc = vlib.scratch()
    vlib.build_harness()
    quick = tier == "quick"
    zoo = os.path.join(sc, "codeczoo.json")
    vlib.vh(["c13", "-describe", zoo])
    cases = os.path.join(sc, "c13cases.ndjson")
    g = vlib.tlc("Codec_Gen", "Codec_Gen.cfg", env={"ZOO": zoo, "OUT": cases}, workers=2, timeout=600)
    if not g.ok:
        raise Inconclusive("Codec_Gen failed on the model: %s\n%s" % (g.invariant, g.out[-2500:]))
    recs = os.path.join(sc, "c13.ndjson")
    vlib.vh(["c13", "-cases", cases, "-out", recs, "-rand", 60 if quick else 12000, "-seed", seed], timeout=1700)
    if os.path.exists(recs + ".rejected"):
        # sqlgen validates every column at registration by converting its zero value to SQL and back
        v = vlib.Verdict(PROP)
        why = open(recs + ".rejected").read()
        v.report(None, "RegisterType refuses the zoo's row type (valid on every correct tree): the round trip of a zero value fails: " + why[:300],
                 {"kind": "register", "error": why})
        rc = v.finish()
        vlib.write_evidence(PROP, tier, seed, "exploration", {"evaluations": 1, "distinct_nontrivial": 1,
                            "rule": "registration of the zoo's row type only: it was refused", "exhaustive": False},
                            ["see DESIGN.md"], violations=len(v.violations))
        return rc
    bad = os.path.join(sc, "c13bad.ndjson")
    t = vlib.tlc("Codec_Trace", "Codec_Trace.cfg", env={"ZOO": zoo, "RECS": recs, "OUT": bad}, workers=1, timeout=1700, heap="8g")
    if t.invariant == "Complete":
        raise Inconclusive("the harness did not execute every case of the TLC-enumerated matrix")
    if not t.ok or not os.path.exists(bad):
        raise Inconclusive("Codec_Trace did not complete:\n" + t.out[-3000:])
    rows = vlib.read_ndjson(recs)
    if t.distinct != len(rows) + 1:
        raise Inconclusive("Codec_Trace consumed %d of %d records" % (t.distinct - 1, len(rows)))
    v = vlib.Verdict(PROP)
    for b in vlib.read_ndjson(bad):
        r = rows[b["l"] - 1]
        v.report(None, "%s: column %s value %s form %s %s" % (",".join(b["why"]), r["col"], r["val"], r["form"], r["err"][:160]),
                 {"record": r, "why": b["why"]})
    distinct = {(r["col"], r["val"], r["form"]) for r in rows}
    proto = {}
    for r in rows:
        proto[r["proto"]] = proto.get(r["proto"], 0) + 1
    rc = v.finish()
    vlib.write_evidence(PROP, tier, seed, "exploration", {
        "states": g.distinct + t.distinct, "transitions": g.generated + t.generated,
        "evaluations": len(rows),
        "distinct_nontrivial": len(distinct),
        "traces_validated_against_impl": len(rows),
        "rule": "the full TLC-enumerated matrix (column x value class x source form; %d cases, executed completely - checked by "
                "Codec_Trace) plus %d seeded random values per numeric / text / bytes / time column in every form; every case runs "
                "UnbuildStruct -> source form -> BuildStruct, the own-value filters (Go value, SQL value) against the row and "
                "against a row with another value, and FilterToProto -> FilterFromProto; distinct = different (column, value, form)"
                % (g.distinct, 60 if quick else 12000),
        "samples": [{k: r[k] for k in ("col", "val", "form", "decode", "equal", "owngo", "ownsql", "proto", "protosame")}
                    for r in rows[:: max(1, len(rows) // 5)][:5]],
        "matrix_cases": g.distinct, "proto_outcomes": proto,
        "exhaustive": False,
    }, [
        "pure encode/decode fidelity: the TLA+ side contributes the case matrix and the laws; there is no transition system to check",
        "source forms are those of go-sql-driver/mysql (binary and text protocol) and of the go-mysql replication package as pinned "
        "in go.mod; MySQL's own conversions (DATETIME precision, character sets, unsigned columns) are not in the loop",
        "for text/binary/json-encoded columns 'the row's own column value' in a filter is the field value, not its encoded SQL form",
    ], violations=len(v.violations))
    return rc
