"""C07 — live SQL: every committed write reaches every live query it affects.

LiveSql.tla: table, change log between commit and delivery, per live query its registered
dependencies / held rows / invalidation; one action per step of the code (Write, Garble, Deliver,
Begin, Unregister, Register, Read).  TLC checks PerQuery / Converged (a query that is not running, not
invalidated and not affected by anything still in the log holds exactly Rows(table, filter)) and,
under fairness, that the system becomes quiescent once writes stop, over all interleavings of 2-3
live queries, 3 writes and an undecodable event; reading before registering, and dropping an
undecodable event, must each break PerQuery (vacuity guards = the order the code relies on and the
defect the machinery found).

Binding: real livesql.LiveDB queries inside reactive rerunners over the fake MySQL driver, the binlog
replaced by an in-process event stream (verif constructor).  Query goroutines are parked at gates
outside every lock (before registration, between registration and SELECT), so the driver serialises
a random interleaving of query steps, writes (insert / update / upsert / delete over nine column
kinds), deliveries, garbled events (column count / type mismatch) and ALTER TABLE.  Every step is
logged at its linearization point and LiveSql_Trace.tla validates the trace: every read returns the
model's Rows, every delivery invalidates exactly the registered dependencies it must, and at
quiescence every query holds what the table has."""
import os
import re

from lib import vlib
from lib.vlib import Inconclusive

PROP = "C07"


def run(tier, seed, replay=None):
    sc = vlib.scratch()
    vlib.build_harness()
    quick = tier == "quick"
    states = trans = 0
    for cfg, want in (("ok2", None), ("ok3", None), ("readfirst", "PerQuery"), ("baddropped", "PerQuery")):
        if quick and cfg == "ok3":
            continue
        m = vlib.tlc("LiveSql_MC", "LiveSql_MC_%s.cfg" % cfg, workers=16, timeout=1800, heap="12g")
        states += m.distinct
        trans += m.generated
        if want is None and not m.ok:
            raise Inconclusive("LiveSql_MC_%s failed on the model: %s\n%s" % (cfg, m.invariant, m.out[-2000:]))
        if want is not None and (m.ok or m.invariant != want):
            raise Inconclusive("LiveSql_MC_%s no longer violates %s (vacuity guard)" % (cfg, want))
    v = vlib.Verdict(PROP)
    nscen = 80 if quick else 1600
    chunks = 2 if quick else 16
    accepted = total = nevents = 0
    kinds = {}
    samples = []
    for c in range(chunks):
        tr = os.path.join(sc, "c07_%d.ndjson" % c)
        rc, out = vlib.vh(["c07", "-out", tr, "-n", nscen // chunks, "-seed", seed * 100 + c, "-queries", 3, "-writes", 6],
                          timeout=1700, check=False)
        evs = vlib.read_ndjson(tr) if os.path.exists(tr) else []
        if rc != 0:
            # a scenario did not settle: a live query that never re-runs or a hung poll loop is a C07 matter,
            # but the driver cannot tell it from its own scheduling going wrong - judge what was recorded
            vlib.log("[C07] driver stopped early: %s" % out.strip()[-300:])
            if not evs:
                raise Inconclusive("the C07 driver produced no trace: " + out[-1500:])
        scns = sorted({e["scn"] for e in evs})
        total += len(scns)
        nevents += len(evs)
        for e in evs:
            kinds[e["ev"]] = kinds.get(e["ev"], 0) + 1
        if evs and not samples:
            first = [e for e in evs if e["scn"] == scns[0]]
            samples.append([{k: e[k] for k in ("ev", "q", "ids", "inv", "bad") if e[k] not in ("", [], False)} or {"ev": e["ev"]}
                            for e in first][:40])
        for attempt in range(6):
            if not evs:
                break
            tf = os.path.join(sc, "c07_%d_try%d.ndjson" % (c, attempt))
            vlib.write_ndjson(tf, evs)
            t = vlib.tlc("LiveSql_Trace", "LiveSql_Trace.cfg", env={"TRACE": tf}, workers=1, timeout=1700, heap="4g")
            states += t.distinct
            trans += t.generated
            if t.ok:
                accepted += len({e["scn"] for e in evs})
                break
            mm = [int(x) for x in re.findall(r"REJECTED_AT_LINE[^0-9]*(\d+)", t.out)]
            inv = t.invariant
            if not mm and not inv:
                raise Inconclusive("LiveSql_Trace failed without a rejection line:\n" + t.out[-3000:])
            if mm:
                line = min(mm[-1], len(evs))
            else:
                # an invariant failed on the real states: TLC prints the state; the line is the value of l
                ll = re.findall(r"/\\ l = (\d+)", t.out)
                line = min(int(ll[-1]) if ll else 1, len(evs))
            bad_scn = evs[line - 1]["scn"]
            scn_evs = [e for e in evs if e["scn"] == bad_scn]
            first = next(i for i, e in enumerate(evs) if e["scn"] == bad_scn)
            at = evs[line - 1]
            what = "trace rejected at step %d of scenario %d (%s %s)" % (line - first, bad_scn, at["ev"], at["q"] or "")
            if inv:
                what = "invariant %s fails on the real run at step %d of scenario %d" % (inv, line - first, bad_scn)
            if at["ev"] == "deliver":
                what += ": change event (undecodable=%s) invalidated %s" % (at["bad"], at["inv"])
            elif at["ev"] == "read":
                what += ": the query read ids %s" % at["ids"]
            elif at["ev"] == "quiescent":
                what += ": at quiescence the queries hold %s" % at["held"]
            v.report(None, what, {"scenario": scn_evs, "rejected_at": line - first})
            evs = [e for e in evs if e["scn"] != bad_scn]
    rc = v.finish()
    vlib.write_evidence(PROP, tier, seed, "model_checking", {
        "states": states, "transitions": trans,
        "traces_validated_against_impl": accepted,
        "evaluations": total,
        "distinct_nontrivial": total,
        "rule": "model: all interleavings of 2 (quick) / 2 and 3 live queries x 3 writes over a 2x2 row universe x one undecodable "
                "event. real code: %d seeded scenarios, each 1-3 live queries with distinct filters over 0-2 of 7 columns (Go "
                "representations as in C10), 2-6 initial rows, 1-6 writes (single-row insert/update/upsert/delete and multi-row UPDATE statements in one rows event), a third of the scenarios with a garbled event and a "
                "quarter with ALTER TABLE ADD COLUMN; the schedule (which parked query moves, write, deliver, garble, alter) is drawn "
                "step by step; every scenario ends at quiescence and is non-trivial (at least one run of every query); distinct = "
                "scenarios" % total,
        "samples": samples,
        "events_validated": nevents, "event_kinds": kinds,
        "exhaustive": False,
    }, [
        "the binlog is an in-process stream of go-mysql replication events built from the fake driver's committed row changes "
        "(values in the representations go-mysql produces); MySQL itself and the replication connection are not part of the run",
        "query goroutines are serialised by the driver at gates outside all locks; true parallelism between the poll loop and "
        "queries is covered by the model, not by the recorded runs",
        "string comparison is binary (case-sensitive), as in the fake driver",
    ], violations=len(v.violations))
    return rc
