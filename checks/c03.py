"""C03 — Diff/merge round trip.  DiffMerge.tla is the reference for the
documented delta format; DiffMerge_Gen enumerates bounded universes and proves
the format's own round-trip theorem on every pair (M5); the harness pushes
every pair plus seeded random pairs through the real diff.Diff, merge.Merge
and client/src/merge.ts; DiffMerge_Trace judges every record (M4)."""
import os
import shutil

from lib import vlib
from lib.vlib import Inconclusive

PROP = "C03"


def run(tier, seed, replay=None):
    sc = vlib.scratch()
    udir = os.path.join(sc, "u")
    os.makedirs(udir, exist_ok=True)
    vlib.build_harness()

    # M5: enumerate + theorem on the spec itself
    g = vlib.tlc("DiffMerge_Gen", "DiffMerge_Gen_%s.cfg" % tier, env={"OUTDIR": udir}, workers=8, timeout=1500)
    if not g.ok:
        raise Inconclusive("DiffMerge_Gen: the documented format's own theorem failed on the model "
                           "(spec error, not an implementation verdict):\n" + g.out[-3000:])
    vlib.log("[c03] Gen: %d pairs enumerated, theorem holds (%.0fs)" % (g.distinct, g.wall))

    nrand = 3000 if tier == "quick" else 30000
    recs = os.path.join(sc, "recs.ndjson")
    args = ["c03", "-udir", udir, "-out", recs, "-rand", nrand, "-seed", seed]
    have_node = shutil.which("node") is not None
    if have_node:
        args += ["-node", os.path.join(vlib.HARNESS, "js", "merge_run.js"),
                 "-mergets", os.path.join(vlib.REPO, "client", "src", "merge.ts")]
    vlib.vh(args)

    bad = os.path.join(sc, "bad.ndjson")
    t = vlib.tlc("DiffMerge_Trace", "DiffMerge_Trace.cfg", env={"UDIR": udir, "RECS": recs, "OUT": bad},
                 workers=1, timeout=1500)
    if not t.ok or not os.path.exists(bad):
        raise Inconclusive("DiffMerge_Trace did not complete:\n" + t.out[-3000:])
    rows = vlib.read_ndjson(recs)
    bads = vlib.read_ndjson(bad)
    if t.distinct != len(rows) + 1:
        raise Inconclusive("trace spec consumed %d of %d records" % (t.distinct - 1, len(rows)))

    unis = {}

    def uni(name):
        if name not in unis:
            unis[name] = vlib.read_ndjson(os.path.join(udir, "U_%s.ndjson" % name))
        return unis[name]

    v = vlib.Verdict(PROP)
    for b in bads:
        r = rows[b["l"] - 1]
        if "transcription" in b["why"] and set(b["why"]) <= {"transcription"}:
            raise Inconclusive("ClientMerge transcription disagrees with the real merge.ts on record %r" % r)
        case = {"old": uni(r["u"])[r["i"] - 1], "new": uni(r["u"])[r["j"] - 1], "record": r, "why": b["why"]}
        v.report(None, "diff/merge round trip fails: " + ",".join(b["why"]), case)

    nontrivial = sum(1 for r in rows if r["d"]["k"] != "nil")
    samples = []
    for r in rows[:: max(1, len(rows) // 5)][:5]:
        samples.append({"old": uni(r["u"])[r["i"] - 1], "new": uni(r["u"])[r["j"] - 1], "delta": r["d"]})
    rc = v.finish()
    vlib.write_evidence(PROP, tier, seed, "model_checking", {
        "states": g.distinct + t.distinct,
        "transitions": g.generated + t.generated,
        "traces_validated_against_impl": len(rows),
        "evaluations": len(rows),
        "distinct_nontrivial": nontrivial,
        "rule": "every ordered pair of four TLC-enumerated universes (mixed values, scalar lists, keyed-object lists, "
                "objects with array/object fields) plus %d seeded (old, mutated old) pairs; non-trivial = the real "
                "Diff returned a non-nil delta; pairs are distinct by construction (u,i,j)" % nrand,
        "samples": samples,
        "exhaustive": False,
        "spec_theorem_pairs": g.distinct,
        "javascript_client_run": have_node,
        "nonconforming_records": len(bads),
    }, [
        "__key values are scalars (thunder only emits scalar keys)",
        "numbers are float64 as encoding/json decodes them",
        "ClientMerge is a transcription of client/src/merge.ts; checked record by record against node when present",
    ], violations=len(v.violations))
    return rc
