"""C10 — SQL batching is transparent: each query gets exactly its own rows.

SqlBatch.tla: Rows(T, f) is a query on its own (SQL semantics of sqlgen's WHERE, `IS NULL` for nil);
the batch path is modelled as an algorithm (grouping by column set into IN lists / OR of ANDs where a
NULL argument matches nothing, one fetch, a matcher that hands rows back by value tuple) with two
design switches (NormalisedMatcher, NilStandalone).  TLC checks Transparent for every table over a
small row universe x every triple of filters from a filter universe (values x Go representations,
nil, empty); with either switch off it must fail (the two defects the machinery found).

Binding: the real sqlgen.DB over the fake MySQL driver: seeded tables, 1-6 concurrent Query/QueryRow
calls per scenario under batch.WithBatching and the same calls on their own, filters over 0-2 of 7
columns in every Go representation that denotes the same column value (int, int32, int64, uint8,
named types, pointers, nil).  SqlBatch_Trace.tla judges every call: on its own = Rows (calibration),
batched = on its own; batching never sends more SELECTs."""
import os

from lib import vlib
from lib.vlib import Inconclusive

PROP = "C10"


def run(tier, seed, replay=None):
    sc = vlib.scratch()
    vlib.build_harness()
    quick = tier == "quick"
    states = trans = 0
    m = vlib.tlc("SqlBatch_MC", "SqlBatch_MC_TRUE_TRUE.cfg", workers=8, timeout=900)
    if not m.ok:
        raise Inconclusive("SqlBatch_MC failed on the model: %s\n%s" % (m.invariant, m.out[-2000:]))
    states += m.distinct
    trans += m.generated
    for cfg in ("SqlBatch_MC_FALSE_TRUE.cfg", "SqlBatch_MC_TRUE_FALSE.cfg"):
        g = vlib.tlc("SqlBatch_MC", cfg, workers=4, timeout=900)
        if g.ok or g.invariant != "TransparentOK":
            raise Inconclusive("%s no longer violates Transparent (vacuity guard)" % cfg)
        states += g.distinct
        trans += g.generated
    v = vlib.Verdict(PROP)
    n = 600 if quick else 60000
    chunks = 2 if quick else 16
    ncalls = nscen = nbatched_selects = nplain_selects = 0
    distinct = set()
    samples = []
    reps = {}
    for c in range(chunks):
        recs = os.path.join(sc, "c10_%d.ndjson" % c)
        bad = os.path.join(sc, "c10_%d_bad.ndjson" % c)
        vlib.vh(["c10", "-out", recs, "-n", n // chunks, "-seed", seed * 100 + c], timeout=1700)
        t = vlib.tlc("SqlBatch_Trace", "SqlBatch_Trace.cfg", env={"RECS": recs, "OUT": bad}, workers=1, timeout=1700, heap="4g")
        if not t.ok or not os.path.exists(bad):
            raise Inconclusive("SqlBatch_Trace did not complete:\n" + t.out[-3000:])
        rows = vlib.read_ndjson(recs)
        if t.distinct != len(rows) + 1:
            raise Inconclusive("SqlBatch_Trace consumed %d of %d records" % (t.distinct - 1, len(rows)))
        states += t.distinct
        trans += t.generated
        nscen += len(rows)
        for r in rows:
            ncalls += len(r["calls"])
            nbatched_selects += r["selects_batched"]
            nplain_selects += r["selects_plain"]
            if r["selects_batched"] < r["selects_plain"]:
                distinct.add(str(r["rows"]) + str([k["filter"] for k in r["calls"]]))
            for k in r["calls"]:
                for col, fv in k["filter"].items():
                    reps[fv["rep"]] = reps.get(fv["rep"], 0) + 1
        if rows and not samples:
            r = max(rows, key=lambda r: len(r["calls"]))
            samples.append({"rows": r["rows"], "calls": r["calls"], "batch_sql": r["batch_sql"]})
        for b in vlib.read_ndjson(bad):
            r = rows[b["l"] - 1]
            if any(w.startswith("SPEC_") for w in b["why"]):
                raise Inconclusive("the model of an unbatched query disagrees with the real unbatched query on scenario %d: %s"
                                   % (r["i"], [k for k in r["calls"]][:3]))
            diff = [k for k in r["calls"] if k["plain"] != k["batched"]]
            v.report(None, "%s: %s" % (",".join(b["why"]), str(diff[:1])[:260]),
                     {"why": b["why"], "rows": r["rows"], "calls": r["calls"], "batch_sql": r["batch_sql"]})
    rc = v.finish()
    vlib.write_evidence(PROP, tier, seed, "model_checking", {
        "states": states, "transitions": trans,
        "traces_validated_against_impl": nscen,
        "evaluations": ncalls,
        "distinct_nontrivial": len(distinct),
        "rule": "model: every table over 4 rows x every triple of 11 filters (ids in 3 Go representations, nullable column, nil, "
                "two-column and empty filters). real code: %d seeded scenarios (0-5 rows over small domains, 1-6 concurrent calls, "
                "filters over 0-2 of 7 columns, a fifth of the calls repeat the previous filter, a quarter are QueryRow); "
                "non-trivial/distinct = scenarios in which batching really combined calls (fewer SELECTs than calls)" % nscen,
        "samples": samples,
        "selects_on_their_own": nplain_selects, "selects_with_batching": nbatched_selects,
        "filter_value_representations": reps,
        "exhaustive": False,
    }, [
        "the fake driver evaluates WHERE with MySQL's NULL semantics and binary (case-sensitive) string comparison",
        "SelectOptions (ORDER BY / LIMIT / custom WHERE) and transactions are never batched by sqlgen and are not exercised here",
        "which calls share a batch is decided by batch.Func's 1 ms timer (C05); transparency is judged whatever the grouping",
    ], violations=len(v.violations))
    return rc
