"""C15 — untrusted input never crashes the server; panics contained; cancellation returns.
OneShot.tla is the model of a one-shot request (HTTP handler / federated sub-request) run inside
a rerunner: TLC shows every behaviour returns whatever the moment of cancellation (and that the
original wait-only-on-the-function design deadlocks).  Parse.tla holds the outcome alphabet, the
constructs that must be refused and the polynomial cost model.  The driver enumerates the
cancellation points of the request context on the real HTTP handler and federation server (fault
enumeration), runs unsupported/hostile constructs and fragment-spread bombs with step counters,
and seeded random bytes/mutations as query text, variables and HTTP bodies; Parse_Trace judges
every record.  Resolver panics inside live subscriptions are part of the C02/C17 traces."""
import os

from lib import vlib
from lib.vlib import Inconclusive

PROP = "C15"


def run(tier, seed, replay=None):
    sc = vlib.scratch()
    vlib.build_harness()
    quick = tier == "quick"
    m = vlib.tlc("OneShot", "OneShot_TRUE.cfg", workers=2, timeout=300)
    if not m.ok:
        raise Inconclusive("OneShot model failed: %s\n%s" % (m.invariant, m.out[-2000:]))
    m0 = vlib.tlc("OneShot", "OneShot_FALSE.cfg", workers=2, timeout=300)
    if m0.ok or not m0.deadlock:
        raise Inconclusive("OneShot model no longer shows the deadlock of the wait-only-on-the-function design (vacuity guard)")
    recs = os.path.join(sc, "c15.ndjson")
    vlib.vh(["c15", "-out", recs, "-seed", seed, "-rand", 2000 if quick else 150000, "-maxdepth", 14 if quick else 24], timeout=1700)
    bad = os.path.join(sc, "c15bad.ndjson")
    t = vlib.tlc("Parse_Trace", "Parse_Trace.cfg", env={"RECS": recs, "OUT": bad}, workers=1, timeout=1700, heap="8g")
    if not t.ok or not os.path.exists(bad):
        raise Inconclusive("Parse_Trace did not complete:\n" + t.out[-3000:])
    rows = vlib.read_ndjson(recs)
    if t.distinct != len(rows) + 1:
        raise Inconclusive("Parse_Trace consumed %d of %d records" % (t.distinct - 1, len(rows)))
    v = vlib.Verdict(PROP)
    for b in vlib.read_ndjson(bad):
        r = rows[b["l"] - 1]
        v.report(None, "%s: %s %s %s" % (",".join(b["why"]), r["kind"], r["target"] or r["name"], r["text"][:120]), {"record": r, "why": b["why"]})
    kinds = {}
    distinct = set()
    slow = 0
    for r in rows:
        k = "%s/%s" % (r["kind"], r["outcome"])
        kinds[k] = kinds.get(k, 0) + 1
        distinct.add((r["kind"], r["target"], r["point"], r["name"], r["w"], r["d"], r["text"]))
        if r["ms"] > 3000:
            slow += 1
    rc = v.finish()
    vlib.write_evidence(PROP, tier, seed, "fault_enumeration", {
        "evaluations": len(rows),
        "distinct_nontrivial": len(distinct),
        "rule": "cancel: (target in {HTTP handler, federation server}) x (cancellation point in {before the request, rerunner locked, "
                "cache cleaned, computation created, inside a resolver, function returned, arming, after}) x 3 repetitions; "
                "construct: 41 hostile (each with an empty and with no variables map) but well-formed inputs; bomb: fragment-spread DAGs width 1-3 x depth 1-%d, nested and in the "
                "operation's own selection set, with validation / conflict-detection steps counted through hooks; random: seeded "
                "random bytes and 1-4 byte-level mutations of valid texts as query text (with odd variable maps) and as HTTP body; "
                "distinct = different (kind, target, point, name, shape, text)" % (14 if quick else 22),
        "samples": [{k: r[k] for k in ("kind", "target", "point", "name", "outcome", "w", "d", "size", "psteps", "csteps", "ms")} for r in rows[:: max(1, len(rows) // 5)][:5]],
        "outcomes": kinds,
        "states": m.distinct + m0.distinct + t.distinct,
        "transitions": m.generated + m0.generated + t.generated,
        "slow_records_over_3s": slow,
    }, [
        "arbitrary bytes cannot be enumerated by a model checker: that part is seeded random exploration with the specification "
        "contributing only the outcome alphabet (stated in DESIGN.md section 6)",
        "'returns promptly' is measured as: returns within 3 s and no goroutine above the baseline 2 s later",
        "the websocket envelope and panicking resolvers inside subscriptions are exercised by the C02/C17 driver",
    ], violations=len(v.violations))
    if slow and rc == 0:
        raise Inconclusive("%d records took more than 3 s although their step counts are within the bound" % slow)
    return rc
