"""C02 — live subscriptions converge.  Conn.tla models one websocket connection with an
abstract rerunner per accepted subscription; the client is the spec's ClientMerge (DiffMerge.tla)
folded over every update.  TLC checks Converges, FirstIsFull, NoUpdateAfterUnsub (and the C17
bookkeeping invariants) over all interleavings of messages, runs, data changes, mutations,
failing resolvers, asynchronous closes and socket close for small scopes (M1).  Real connections
over a fake socket are recorded and validated by Conn_Trace.tla: the deltas the server really
wrote are folded by the spec and must give the real executor's current result (M2)."""
from checks import conn_common as cc
from lib import vlib

PROP = "C02"


def run(tier, seed, replay=None):
    vlib.build_harness()
    quick = tier == "quick"
    states, trans, notes = cc.model_check(["ok2", "fail0"] if quick else ["ok2", "fail0", "fail1", "ok3"])
    v = vlib.Verdict(PROP)
    st = cc.validate(PROP, v, 400 if quick else 4000, seed, [2, 3] if quick else [1, 2, 3])
    rc = v.finish()
    vlib.write_evidence(PROP, tier, seed, "model_checking", {
        "states": states + st["states"], "transitions": trans + st["trans"],
        "traces_validated_against_impl": st["scenarios"],
        "evaluations": st["scenarios"],
        "distinct_nontrivial": len(st["sigs"]),
        "rule": "scenario = one real connection: 3-13 seeded messages (subscribe to one of 5 queries incl. an invalid one and one "
                "whose resolver fails at odd data versions, unsubscribe, mutate, echo, unknown type; ids 1-3 collide), 0-3 data "
                "changes at random moments through a table of 8 data versions (keyed-list reorders, union member switches, nulls, "
                "fields appearing), a directed fail/unsubscribe/resubscribe pattern in 1 of 6, socket close at the end; "
                "non-trivial = at least two successful subscription runs; distinct = different event sequence",
        "samples": st["samples"],
        "events_validated": st["events"],
        "branch_coverage_of_real_runs": st["coverage"],
        "model_checks": notes,
        "exhaustive": False,
    }, [
        "the rerunner is abstracted to what C04 establishes (a stale idle subscription is scheduled; Stop waits and is final)",
        "the client is DiffMerge.tla's ClientMerge (transcription of client/src/merge.ts, validated against node in C03)",
        "the expected results Res[q][v] are computed by the real executor on a frozen data version (C01 covers the executor)",
    ], violations=len(v.violations))
    return rc
