"""C06 — federation is transparent: the gateway answers like one combined server.

Transparency part.  Exec.tla's reference evaluation knows nothing about services: for seeded
partitions of 15 distributable fields (root fields, fields with arguments, fields reached through
one or two service hops) over three services - fields served by several services included, with
the service selector either stock or preferring one service - seeded random queries (duplicate
response keys with different sub-selections, nested named/inline fragments, unions, @skip/@include,
arguments, nil objects, empty and nil lists, multi-hop plans) are executed through the real
planner/executor over real federation servers AND on the single server that implements every
field.  Fed_Trace.tla judges every record: single server == reference (calibration), gateway ==
reference, and every sub-query a service received only uses fields that service's built schema
exposes.

Refresh part.  FedRefresh.tla models the executor's shared state (planner, executor map, plannerMu)
with the schema poller and concurrent requests; TLC checks that no map read overlaps the poller's
map write (and that the design without the read lock does violate it - vacuity guard).  The driver
parks the real poller inside its write / a real request at its read through the hooks and
FedRefresh_Trace.tla validates the recorded event order against the model.

Planner/executor model.  Fed.tla models planObject (local selections, sub-plans per owning service,
paths lifted through children, the federation key) and execute (targets found by walking the path,
result i merged into target i).  TLC checks Transparent / OnlyExposed / HopsOK for every ownership x
every query of a bounded grammar (and that forgetting to lift paths or merging in reverse order
breaks it); the real planner is asked for its plan of every one of those cases (verif hook VerifPlan)
and Fed_Trace2.tla checks that it is the model's plan."""
import json
import os

from lib import vlib
from lib.vlib import Inconclusive

PROP = "C06"


def plain(t):
    k = t["k"]
    if k == "n":
        return None
    if k == "a":
        return [plain(x) for x in t["a"]]
    if k == "o":
        return {a: plain(b) for a, b in t["m"].items()}
    return t["s"]


def run(tier, seed, replay=None):
    sc = vlib.scratch()
    vlib.build_harness()
    quick = tier == "quick"
    v = vlib.Verdict(PROP)
    states = trans = 0

    # ---- the refresh model
    m = vlib.tlc("FedRefresh", "FedRefresh_locked.cfg", workers=4, timeout=600)
    if not m.ok:
        raise Inconclusive("FedRefresh (read under the lock) failed on the model: %s\n%s" % (m.invariant, m.out[-2000:]))
    m0 = vlib.tlc("FedRefresh", "FedRefresh_unlocked.cfg", workers=4, timeout=600)
    if m0.ok or m0.invariant != "NoRace":
        raise Inconclusive("FedRefresh no longer shows the race of the design that reads the map without the lock (vacuity guard)")
    states += m.distinct + m0.distinct
    trans += m.generated + m0.generated

    # ---- the real executor against the refresh model
    nref = 4 if quick else 12
    rf = os.path.join(sc, "refresh.ndjson")
    vlib.vh(["c06", "-refresh", rf, "-nrefresh", nref], timeout=600)
    evs = vlib.read_ndjson(rf)
    scns = sorted({e["scn"] for e in evs})
    traces_ok = 0
    for attempt in range(6):
        if not evs:
            break
        tf = os.path.join(sc, "refresh_try%d.ndjson" % attempt)
        vlib.write_ndjson(tf, evs)
        t = vlib.tlc("FedRefresh_Trace", "FedRefresh_Trace.cfg", env={"TRACE": tf}, workers=1, timeout=600)
        states += t.distinct
        trans += t.generated
        if t.ok:
            traces_ok = len({e["scn"] for e in evs})
            break
        mm = [int(x) for x in __import__("re").findall(r"REJECTED_AT_LINE[^0-9]*(\d+)", t.out)]
        if not mm:
            raise Inconclusive("FedRefresh_Trace failed without a rejection line:\n" + t.out[-3000:])
        line = mm[-1]
        bad_scn = evs[min(line, len(evs)) - 1]["scn"]
        scn_evs = [e for e in evs if e["scn"] == bad_scn]
        first = next(i for i, e in enumerate(evs) if e["scn"] == bad_scn)
        v.report(None, "refresh trace rejected at event %d of scenario %d (%s): %s" % (
            line - first, bad_scn, evs[min(line, len(evs)) - 1]["ev"], " ".join(e["ev"] for e in scn_evs)),
            {"scenario": scn_evs, "rejected_at": line - first})
        evs = [e for e in evs if e["scn"] != bad_scn]
    hang = [e for e in vlib.read_ndjson(rf) if e["ev"] == "request.hang"]
    if hang:
        v.report(None, "a request started during a schema refresh never returned", {"events": hang})

    # ---- the planner/executor model (Fed.tla): theorems for every ownership x query of its grammar, and the
    # real planner's plan = the model's plan on every one of those cases
    cases = os.path.join(sc, "fedcases.ndjson")
    g = vlib.tlc("Fed_Gen", "Fed_Gen.cfg", env={"OUT": cases}, workers=8, timeout=1200)
    if not g.ok or not os.path.exists(cases):
        raise Inconclusive("Fed_Gen / Fed_MC failed on the model: %s\n%s" % (g.invariant, g.out[-2000:]))
    states += g.distinct
    trans += g.generated
    for cfg in ("Fed_MC_reversed.cfg", "Fed_MC_nolift.cfg"):
        gd = vlib.tlc("Fed_MC", cfg, workers=4, timeout=600)
        if gd.ok:
            raise Inconclusive("%s no longer fails (vacuity guard of the planner model)" % cfg)
        states += gd.distinct
        trans += gd.generated
    plans = os.path.join(sc, "fedplans.ndjson")
    vlib.vh(["fedplan", "-cases", cases, "-out", plans], timeout=900)
    pbad = os.path.join(sc, "fedplans_bad.ndjson")
    pt = vlib.tlc("Fed_Trace2", "Fed_Trace2.cfg", env={"RECS": plans, "OUT": pbad}, workers=1, timeout=1200, heap="4g")
    if not pt.ok or not os.path.exists(pbad):
        raise Inconclusive("Fed_Trace2 did not complete:\n" + pt.out[-3000:])
    prow = vlib.read_ndjson(plans)
    if pt.distinct != len(prow) + 1:
        raise Inconclusive("Fed_Trace2 consumed %d of %d plan records" % (pt.distinct - 1, len(prow)))
    states += pt.distinct
    trans += pt.generated
    for b in vlib.read_ndjson(pbad):
        r = prow[b["l"] - 1]
        v.report(None, "%s: %s under ownership %s %s" % (",".join(b["why"]), r["text"], r["owner"], r["err"][:120]),
                 {"why": b["why"], "query": r["text"], "owner": r["owner"], "real_plan": r["plan"], "err": r["err"]})
    nplans = len(prow)

    # ---- transparency
    nparts, nq = (24, 30) if quick else (400, 60)
    batches = [("plain", ["-seed", seed * 10 + 1]), ("directives", ["-seed", seed * 10 + 2, "-dirs"])]
    if not quick:
        batches += [("plain-2", ["-seed", seed * 10 + 3, "-dup", 50]), ("directives-2", ["-seed", seed * 10 + 4, "-dirs", "-dup", 50])]
    zoo = os.path.join(sc, "fedzoo.json")
    nrec = nsub = nontrivial = kf = 0
    texts = set()
    samples = []
    hops = {}
    for name, args in batches:
        recs = os.path.join(sc, "c06_%s.ndjson" % name)
        bad = os.path.join(sc, "c06_%s_bad.ndjson" % name)
        vlib.vh(["c06", "-zoo", zoo, "-out", recs, "-partitions", nparts, "-queries", nq] + args, timeout=1700)
        t = vlib.tlc("Fed_Trace", "Fed_Trace.cfg", env={"ZOO": zoo, "RECS": recs, "OUT": bad}, workers=1, timeout=1700, heap="8g")
        if not t.ok or not os.path.exists(bad):
            raise Inconclusive("Fed_Trace did not complete:\n" + t.out[-3000:])
        rows = vlib.read_ndjson(recs)
        if t.distinct != len(rows) + 1:
            raise Inconclusive("Fed_Trace consumed %d of %d records" % (t.distinct - 1, len(rows)))
        states += t.distinct
        trans += t.generated
        nrec += len(rows)
        for r in rows:
            nsub += len(r["subs"])
            h = len(r["subs"])
            hops[h] = hops.get(h, 0) + 1
            if r["subs"]:
                key = (json.dumps(r["runs"][0]["modes"], sort_keys=True), r["text"])
                if key not in texts:
                    texts.add(key)
                    nontrivial += 1
        if rows and len(samples) < 3:
            mid = max(rows, key=lambda r: len(r["subs"]))
            samples.append({"text": mid["text"], "partition": mid["runs"][0]["modes"],
                            "subqueries": mid["subs"], "gateway": plain(mid["runs"][0]["res"])})
        for b in vlib.read_ndjson(bad):
            r = rows[b["l"] - 1]
            why = b["why"]
            if any(w.startswith("SPEC_") for w in why):
                raise Inconclusive("the single server disagrees with the reference evaluation on %s (%s / %s): the model or the "
                                   "harness is wrong, nothing is concluded" % (r["text"], r["runs"][1]["outcome"], r["runs"][1]["err"]))
            rest = [w for w in why if not w.startswith("KF_")]
            if not rest:
                kf += 1
                v.report("union_member_typename_added", ",".join(why), None)
                continue
            v.report(None, "%s: %s | gateway: %s %s" % (",".join(rest), r["text"].replace("\n", " ")[:220], r["runs"][0]["outcome"],
                                                       r["runs"][0]["err"][:120]),
                     {"text": r["text"], "partition": r["runs"][0]["modes"], "why": why,
                      "gateway": {"outcome": r["runs"][0]["outcome"], "err": r["runs"][0]["err"], "res": plain(r["runs"][0]["res"])},
                      "single_server": plain(r["runs"][1]["res"]), "subqueries": r["subs"]})
        vlib.log("[C06] batch %s: %d records judged" % (name, len(rows)))

    rc = v.finish()
    vlib.write_evidence(PROP, tier, seed, "model_checking", {
        "states": states, "transitions": trans,
        "traces_validated_against_impl": traces_ok + nrec,
        "evaluations": nrec,
        "distinct_nontrivial": nontrivial,
        "rule": "per batch: %d seeded partitions of 15 distributable fields over services s1..s3 (each field on 1-3 services; "
                "service selector stock or preferring one service) x %d seeded random queries (depth <= 3; duplicate response keys "
                "with different sub-selections, named/inline fragments, union, arguments, nil objects, empty/nil lists; half the "
                "batches with @skip/@include); every text goes through the real gateway and the single server; non-trivial = the "
                "gateway sent at least one sub-query; distinct = different (partition, selector, text).  Refresh: %d scenarios with "
                "the real poller parked in its map write / a real request parked at its map read, validated against FedRefresh.tla; "
                "FedRefresh model-checked exhaustively with 3 requests x 3 sub-queries x 3 schema versions.  Planner model: every "
                "ownership of 7 fields over 2 services x every query of Fed_MC's grammar: Transparent / OnlyExposed / HopsOK on the "
                "model, and the real planner's plan compared with the model's plan on each case"
                % (nparts, nq, nref),
        "samples": samples,
        "subqueries_checked_against_exposed_fields": nsub,
        "subqueries_per_request_histogram": {str(k): hops[k] for k in sorted(hops)},
        "refresh_scenarios": len(scns), "refresh_scenarios_accepted": traces_ok,
        "planner_model_cases": nplans,
        "known_finding_cases": kf,
        "exhaustive": False,
    }, [
        "the single server over the same data is the other side of the property; Fed_Trace first checks it against the reference "
        "evaluation of Exec.tla and refuses to conclude anything when they differ",
        "one logical schema (User/Device/Admin/Everyone union, 15 distributable fields, 3 keyed types) stands for 'any set of "
        "services whose schemas merge'; partitions and queries are sampled, not enumerated",
        "a field with arguments is one logical field per argument value in the reference (scaled2 = scaled(by: 2))",
        "services are in-process federation servers behind DirectExecutorClient (no gRPC transport)",
        "refresh interleavings are chosen by parking the poller / the request at the hooks, not by the clock; the Go memory model "
        "makes a map read that is not ordered after the poller's map write a data race",
    ], violations=len(v.violations))
    return rc
