"""C11 — pagination partitions the list.  Pagination.tla is the reference (filter -> stable
sort -> cursor slicing -> pageInfo); TLC checks on it that walking forward/backward from the
returned cursors visits every filtered element exactly once in order, enumerates the (list,
arguments) universe with the expected connection (M5), and every case - plus seeded random
longer lists and walks chained over the REAL cursors - runs against thunder's pagination in
all five filter/sort implementations; Pagination_Trace judges every connection (M4)."""
import os

from lib import vlib
from lib.vlib import Inconclusive

PROP = "C11"


def run(tier, seed, replay=None):
    sc = vlib.scratch()
    vlib.build_harness()
    quick = tier == "quick"
    cases = os.path.join(sc, "pg.ndjson")
    g = vlib.tlc("Pagination_Gen", "Pagination_Gen_%s.cfg" % tier, env={"OUT": cases}, workers=12, timeout=1700)
    if not g.ok:
        raise Inconclusive("Pagination_Gen: the reference's own walking theorem failed on the model: %s\n%s" % (g.invariant, g.out[-2500:]))
    vlib.log("[c11] Gen: %d cases, walking theorems hold (%.0fs)" % (g.distinct, g.wall))
    recs = os.path.join(sc, "c11.ndjson")
    vlib.vh(["c11", "-cases", cases, "-out", recs, "-rand", 1500 if quick else 15000, "-seed", seed], timeout=1700)
    bad = os.path.join(sc, "c11bad.ndjson")
    t = vlib.tlc("Pagination_Trace", "Pagination_Trace.cfg", env={"RECS": recs, "OUT": bad}, workers=1, timeout=1700, heap="12g")
    if not t.ok or not os.path.exists(bad):
        raise Inconclusive("Pagination_Trace did not complete:\n" + t.out[-3000:])
    rows = vlib.read_ndjson(recs)
    if t.distinct != len(rows) + 1:
        raise Inconclusive("Pagination_Trace consumed %d of %d records" % (t.distinct - 1, len(rows)))
    v = vlib.Verdict(PROP)
    for b in vlib.read_ndjson(bad):
        r = rows[b["l"] - 1]
        v.report(None, "%s: list=%s args=%s variant=%s" % (",".join(b["why"]), [i["key"] for i in r["l"]], r["a"], r["variant"]),
                 {"record": r, "why": b["why"]})
    distinct = set()
    kinds = {}
    for r in rows:
        distinct.add((r["kind"], str(r["l"]), str(r["a"]), r.get("n"), r.get("dir")))
        kinds[r["kind"]] = kinds.get(r["kind"], 0) + 1
    rc = v.finish()
    vlib.write_evidence(PROP, tier, seed, "model_checking", {
        "states": g.distinct + t.distinct, "transitions": g.generated + t.generated,
        "traces_validated_against_impl": len(rows),
        "evaluations": len(rows),
        "distinct_nontrivial": len(distinct),
        "rule": "case = (list with unique keys, first|last, after, before incl. unknown cursors and both, filter text, sort field, "
                "order); TLC-enumerated over lists <= 5 + seeded random lists <= 11; each case runs in 5 implementations (plain, "
                "Expensive, batch, fallback on/off); walks chain the real cursors with page sizes 1-3 in both directions; "
                "distinct = different (kind, list, arguments)",
        "samples": [{"list": [i["key"] for i in r["l"]], "args": r["a"], "variant": r["variant"], "got": r["got"]} for r in rows[:: max(1, len(rows) // 3)][:3]],
        "record_kinds": kinds,
        "spec_cases": g.distinct,
        "exhaustive": False,
    }, [
        "sort values are integers and lower-case words (the case folding of strings is not part of the oracle)",
        "filter text is a single lower-case token; custom filter types are not exercised",
        "hasNextPage is not demanded when before names an element that after has already removed",
    ], violations=len(v.violations))
    return rc
