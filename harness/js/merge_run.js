// Runs thunder's real client/src/merge.ts (type annotations stripped) over
// {"o": old, "d": delta} lines on stdin; one {"v": merged} line per input.
const fs = require("fs");
let src = fs.readFileSync(process.argv[2], "utf8");
src = src.replace(/export function/g, "function").replace(/:\s*any/g, "");
const merge = new Function(src + "\nreturn merge;")();
const lines = fs.readFileSync(0, "utf8").split("\n").filter((l) => l.length > 0);
const out = [];
for (const l of lines) {
  try {
    const { o, d } = JSON.parse(l);
    const m = merge(o, d);
    if (m === undefined) out.push(JSON.stringify({ undef: true }));
    else out.push(JSON.stringify({ v: m }));
  } catch (e) {
    out.push(JSON.stringify({ err: String(e) }));
  }
}
process.stdout.write(out.join("\n") + "\n");
