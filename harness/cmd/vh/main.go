// vh is the Go side of the verification harness: drivers that run thunder's
// real code and emit ndjson records / traces for the TLA+ specifications.
package main

import (
	"fmt"
	"os"

	"verifharness/drv/c03"
	"verifharness/drv/c05"
	"verifharness/drv/c06"
	"verifharness/drv/c07"
	"verifharness/drv/c09"
	"verifharness/drv/c10"
	"verifharness/drv/c12"
	"verifharness/drv/c13"
	"verifharness/drv/c11"
	"verifharness/drv/c14"
	"verifharness/drv/c15"
	"verifharness/drv/c18"
	"verifharness/drv/c20"
	conndrv "verifharness/drv/conn"
	execdrv "verifharness/drv/exec"
	"verifharness/drv/fedplan"
	rxdrv "verifharness/drv/reactive"
)

var cmds = map[string]func([]string) error{
	"c03": c03.Main,
	"c05": c05.Main,
	"c06": c06.Main,
	"c07": c07.Main,
	"c09": c09.Main,
	"c10": c10.Main,
	"c12": c12.Main,
	"c13": c13.Main,
	"c11": c11.Main,
	"c14": c14.Main,
	"c15": c15.Main,
	"c18": c18.Main,
	"c20": c20.Main,
	"conn": conndrv.Main,
	"fedplan": fedplan.Main,
	"exec": execdrv.Main,
	"reactive": rxdrv.Main,
}

func main() {
	if len(os.Args) < 2 || cmds[os.Args[1]] == nil {
		fmt.Fprintln(os.Stderr, "usage: vh <driver> [flags]")
		os.Exit(2)
	}
	if err := cmds[os.Args[1]](os.Args[2:]); err != nil {
		fmt.Fprintln(os.Stderr, "vh:", err)
		os.Exit(2)
	}
}
