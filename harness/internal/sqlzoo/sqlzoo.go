// Package sqlzoo is the table zoo for the SQL properties (C07 C10 C12 C13): one registered struct
// with every kind of column the properties talk about, the matching fakesql table, seeded contents,
// and the abstract (all-strings) description of rows and filter values that the TLA+ side reads.
package sqlzoo

import (
	"database/sql/driver"
	"fmt"
	"math/rand"
	"sort"

	"github.com/samsarahq/thunder/sqlgen"

	"verifharness/internal/fakesql"
)

type Kind int64
type Label string

type User struct {
	Id    int64 `sql:",primary"`
	Org   int64
	Name  string
	Age   *int64
	Nick  *Label
	Kind  Kind
	Small int32
	Flag  bool
	Note  string `sql:",implicitnull"`
	Blob  []byte // nil = NULL, empty = '' (two different column values)
}

const Table = "users"

var Def = fakesql.TableDef{Name: Table, PK: []string{"id"}, Cols: []fakesql.ColDef{
	{Name: "id", Type: fakesql.Int},
	{Name: "org", Type: fakesql.Int},
	{Name: "name", Type: fakesql.Text},
	{Name: "age", Type: fakesql.Int, Nullable: true},
	{Name: "nick", Type: fakesql.Text, Nullable: true},
	{Name: "kind", Type: fakesql.Int, Bits: 16},
	{Name: "small", Type: fakesql.Int, Bits: 32},
	{Name: "flag", Type: fakesql.Bool},
	{Name: "note", Type: fakesql.Text, Nullable: true},
	{Name: "blob", Type: fakesql.Blob, Nullable: true},
}}

func Schema() *sqlgen.Schema {
	s := sqlgen.NewSchema()
	s.MustRegisterType(Table, sqlgen.UniqueId, User{})
	return s
}

func p64(v int64) *int64 { return &v }
func pl(v Label) *Label  { return &v }

// RandomUser draws a row over small domains (so that filters hit several rows).
func RandomUser(r *rand.Rand, id int64) *User {
	u := &User{Id: id, Org: int64(1 + r.Intn(2)), Name: []string{"a", "b", "c"}[r.Intn(3)], Kind: Kind(r.Intn(2)), Small: int32(r.Intn(2)),
		Flag: r.Intn(2) == 0, Note: []string{"", "n"}[r.Intn(2)]}
	if r.Intn(3) != 0 {
		u.Age = p64(int64(5 + r.Intn(2)))
	}
	switch r.Intn(3) {
	case 0:
		u.Blob = []byte{}
	case 1:
		u.Blob = []byte("k")
	}
	if r.Intn(3) != 0 {
		u.Nick = pl(Label([]string{"x", "y"}[r.Intn(2)]))
	}
	return u
}

// Abs is the abstract form of a stored row: every column as text, NULL as "NULL".
func Abs(row []driver.Value) map[string]string {
	m := map[string]string{}
	for i, c := range Def.Cols {
		if row[i] == nil {
			m[c.Name] = "NULL"
			continue
		}
		switch x := row[i].(type) {
		case []byte:
			m[c.Name] = string(x)
		default:
			m[c.Name] = fmt.Sprint(x)
		}
	}
	return m
}

// AbsUser is Abs of the row a User struct is stored as.
func AbsUser(u *User) map[string]string {
	m := map[string]string{"id": fmt.Sprint(u.Id), "org": fmt.Sprint(u.Org), "name": u.Name, "age": "NULL", "nick": "NULL",
		"kind": fmt.Sprint(int64(u.Kind)), "small": fmt.Sprint(u.Small), "flag": "0", "note": "NULL", "blob": "NULL"}
	if u.Blob != nil {
		m["blob"] = string(u.Blob)
	}
	if u.Age != nil {
		m["age"] = fmt.Sprint(*u.Age)
	}
	if u.Nick != nil {
		m["nick"] = string(*u.Nick)
	}
	if u.Flag {
		m["flag"] = "1"
	}
	if u.Note != "" {
		m["note"] = u.Note
	}
	return m
}

// FVal is a filter value: the column value it denotes (text, "NULL" for nil) and the Go representation used.
type FVal struct {
	V   string `json:"v"`
	Rep string `json:"rep"`
}

// Reps lists, per column, the Go representations of a value that denote the same column value.
var Reps = map[string][]string{
	"id":    {"int64", "int", "int32", "ptr"},
	"org":   {"int64", "int", "ptr", "uint8"},
	"name":  {"string", "label", "ptr", "bytes"},
	"age":   {"int64", "int", "ptr", "nil"},
	"nick":  {"label", "string", "ptr", "nil", "bytes"},
	"kind":  {"named", "int64", "int"},
	"small": {"int32", "int64", "int"},
	"flag":  {"bool"},
	"note":  {"implicit"}, // implicitnull column: the Go zero value "" denotes NULL
	"blob":  {"bytes", "bytes", "nil"},
}

// Domains lists the values filters are drawn from, per column.
var Domains = map[string][]string{
	"id": {"1", "2", "3", "4", "9"}, "org": {"1", "2"}, "name": {"a", "b", "c", "zz"}, "age": {"5", "6", "7"}, "nick": {"x", "y"},
	"kind": {"0", "1"}, "small": {"0", "1"}, "flag": {"0", "1"}, "note": {"NULL", "n"}, "blob": {"", "k", ""},
}

// Go builds the Go value for (column, FVal).
func Go(col string, f FVal) interface{} {
	var n int64
	fmt.Sscan(f.V, &n)
	switch f.Rep {
	case "nil":
		return nil
	case "int64":
		return n
	case "int":
		return int(n)
	case "int32":
		return int32(n)
	case "uint8":
		return uint8(n)
	case "named":
		return Kind(n)
	case "bool":
		return n == 1
	case "bytes":
		return []byte(f.V)
	case "implicit":
		if f.V == "NULL" {
			return ""
		}
		return f.V
	case "string":
		return f.V
	case "label":
		return Label(f.V)
	case "ptr":
		switch col {
		case "name":
			s := f.V
			return &s
		case "nick":
			l := Label(f.V)
			return &l
		default:
			return &n
		}
	}
	panic("sqlzoo: unknown representation " + f.Rep)
}

// RandomFilter draws a filter over 0-2 columns.
func RandomFilter(r *rand.Rand, cols []string) (sqlgen.Filter, map[string]FVal) {
	f := sqlgen.Filter{}
	a := map[string]FVal{}
	n := r.Intn(3)
	if r.Intn(12) == 0 {
		n = 0
	} else if n == 0 {
		n = 1
	}
	perm := r.Perm(len(cols))
	for _, i := range perm[:n] {
		c := cols[i]
		rep := Reps[c][r.Intn(len(Reps[c]))]
		fv := FVal{Rep: rep, V: Domains[c][r.Intn(len(Domains[c]))]}
		if rep == "nil" {
			fv.V = "NULL"
		}
		a[c] = fv
		f[c] = Go(c, fv)
	}
	return f, a
}

// Ids extracts the sorted ids of a query result.
func Ids(us []*User) []string {
	out := []string{}
	for _, u := range us {
		if u == nil {
			out = append(out, "nil")
		} else {
			out = append(out, fmt.Sprint(u.Id))
		}
	}
	sort.Strings(out)
	return out
}
