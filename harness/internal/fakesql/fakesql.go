// Package fakesql is an in-memory database/sql driver that understands exactly the statements
// thunder's sqlgen emits (SELECT cols / COUNT(*) with WHERE built from `c = ?`, `c IS ?`,
// `c IN (?, ...)`, AND, OR and parentheses; ORDER BY / LIMIT / FOR UPDATE; single and multi-row
// INSERT, ON DUPLICATE KEY UPDATE c=VALUES(c); UPDATE ... SET; DELETE; the information_schema.columns
// query of livesql; transactions), evaluates them with MySQL's NULL semantics on typed tables,
// hands values back in the representations go-sql-driver/mysql uses, logs every statement it
// receives (C12), and emits a row-change event per committed write in the representation
// go-mysql's replication package uses for binlog rows (C07).
package fakesql

import (
	"context"
	"database/sql"
	"database/sql/driver"
	"errors"
	"fmt"
	"io"
	"sort"
	"strconv"
	"strings"
	"sync"
	"time"
)

type ColType int

const (
	Int ColType = iota
	Text
	Blob
	Float
	Bool // TINYINT(1)
	Time // DATETIME
)

type ColDef struct {
	Name     string
	Type     ColType
	Nullable bool
	AutoInc  bool
	Bits     int // width of an Int column in the binlog: 8, 16, 32 or 64 (0 = 64)
}

type TableDef struct {
	Name string
	Cols []ColDef
	PK   []string
}

// Stmt is one statement the driver received.
type Stmt struct {
	SQL      string
	Args     []driver.Value
	Kind     string // select | count | insert | upsert | update | delete | columns | begin | commit | rollback
	Table    string
	Where    *Expr // parsed WHERE (nil if none)
	Cols     []string
	Rows     [][]driver.Value // rows written (insert/upsert), or SET values (update: one row)
	InTx     bool
	Err      string
	Affected int
	Hit      [][]driver.Value // select: the full rows that matched
	Def      TableDef         // the table's definition when the statement ran (Table != "")
}

// Event is one committed row change: Before/After are full rows in table column order (nil = absent).
type Event struct {
	Def           TableDef // the table's definition when the statement ran
	Table         string
	TableID       uint64
	Kind          string // insert | update | delete
	Before, After []driver.Value
}

type table struct {
	def  TableDef
	rows [][]driver.Value
	next int64
	id   uint64
}

type DB struct {
	mu       sync.Mutex
	tables   map[string]*table
	log      []Stmt
	OnCommit func([]Event) // called (outside the lock) with the events of each committed statement / transaction
	// OnApply is called UNDER the lock at the moment a statement outside a transaction changes the
	// table (the linearization point of the write); OnStmt under the lock after every statement;
	// BeforeQuery outside the lock before a SELECT takes it (a place to park a reader).
	OnApply     func([]Event)
	OnStmt      func(Stmt)
	BeforeQuery func(sql string, args []driver.Value)
	AllText  bool          // hand every non-NULL value back as []byte text (MySQL's text protocol)
	Database string
	nextTID  uint64
}

func New(database string, defs ...TableDef) *DB {
	d := &DB{tables: map[string]*table{}, Database: database, nextTID: 100}
	for _, def := range defs {
		d.AddTable(def)
	}
	return d
}

func (d *DB) AddTable(def TableDef) {
	d.mu.Lock()
	defer d.mu.Unlock()
	d.nextTID++
	d.tables[def.Name] = &table{def: def, next: 1, id: d.nextTID}
}

// AlterAddColumn appends a nullable column (existing rows get NULL) and gives the table a new id,
// as MySQL does after ALTER TABLE.
func (d *DB) AlterAddColumn(tbl string, c ColDef) {
	d.mu.Lock()
	defer d.mu.Unlock()
	t := d.tables[tbl]
	t.def.Cols = append(t.def.Cols, c)
	for i := range t.rows {
		t.rows[i] = append(t.rows[i], nil)
	}
	d.nextTID++
	t.id = d.nextTID
}

// AlterDropColumn removes a column (and its values) and gives the table a new id.
func (d *DB) AlterDropColumn(tbl, name string) {
	d.mu.Lock()
	defer d.mu.Unlock()
	t := d.tables[tbl]
	k := -1
	for i, c := range t.def.Cols {
		if c.Name == name {
			k = i
		}
	}
	if k < 0 {
		return
	}
	cols := append([]ColDef{}, t.def.Cols[:k]...)
	t.def.Cols = append(cols, t.def.Cols[k+1:]...)
	for i := range t.rows {
		r := append([]driver.Value{}, t.rows[i][:k]...)
		t.rows[i] = append(r, t.rows[i][k+1:]...)
	}
	d.nextTID++
	t.id = d.nextTID
}

func (d *DB) Open() *sql.DB { return sql.OpenDB(&connector{d}) }

// Log returns a copy of the statement log; Reset clears it.
func (d *DB) Log() []Stmt {
	d.mu.Lock()
	defer d.mu.Unlock()
	return append([]Stmt{}, d.log...)
}
func (d *DB) ResetLog() {
	d.mu.Lock()
	defer d.mu.Unlock()
	d.log = nil
}

// Snapshot returns the rows of a table (column order), sorted by primary key text.
func (d *DB) Snapshot(tbl string) [][]driver.Value {
	d.mu.Lock()
	defer d.mu.Unlock()
	t := d.tables[tbl]
	out := make([][]driver.Value, len(t.rows))
	for i, r := range t.rows {
		out[i] = append([]driver.Value{}, r...)
	}
	sort.Slice(out, func(a, b int) bool { return fmt.Sprint(t.pk(out[a])) < fmt.Sprint(t.pk(out[b])) })
	return out
}

func (d *DB) Def(tbl string) TableDef {
	d.mu.Lock()
	defer d.mu.Unlock()
	return d.tables[tbl].def
}

// ---- driver plumbing

type connector struct{ d *DB }

func (c *connector) Connect(context.Context) (driver.Conn, error) { return &conn{d: c.d}, nil }
func (c *connector) Driver() driver.Driver                        { return drv{} }

type drv struct{}

func (drv) Open(string) (driver.Conn, error) { return nil, errors.New("fakesql: use DB.Open") }

type conn struct {
	d      *DB
	inTx   bool
	saved  map[string][][]driver.Value
	savedN map[string]int64
	events []Event
}

func (c *conn) Prepare(q string) (driver.Stmt, error) { return &stmt{c: c, q: q}, nil }
func (c *conn) Close() error                          { return nil }
func (c *conn) Begin() (driver.Tx, error) {
	c.d.mu.Lock()
	defer c.d.mu.Unlock()
	c.inTx = true
	c.saved = map[string][][]driver.Value{}
	c.savedN = map[string]int64{}
	for n, t := range c.d.tables {
		cp := make([][]driver.Value, len(t.rows))
		for i, r := range t.rows {
			cp[i] = append([]driver.Value{}, r...)
		}
		c.saved[n] = cp
		c.savedN[n] = t.next
	}
	c.events = nil
	c.d.log = append(c.d.log, Stmt{SQL: "BEGIN", Kind: "begin", InTx: true})
	return &tx{c}, nil
}

type tx struct{ c *conn }

func (t *tx) Commit() error {
	c := t.c
	c.d.mu.Lock()
	evs := c.events
	c.inTx, c.saved, c.events = false, nil, nil
	c.d.log = append(c.d.log, Stmt{SQL: "COMMIT", Kind: "commit"})
	cb := c.d.OnCommit
	c.d.mu.Unlock()
	if cb != nil && len(evs) > 0 {
		cb(evs)
	}
	return nil
}
func (t *tx) Rollback() error {
	c := t.c
	c.d.mu.Lock()
	defer c.d.mu.Unlock()
	if c.saved != nil {
		for n, rows := range c.saved {
			c.d.tables[n].rows = rows
			c.d.tables[n].next = c.savedN[n]
		}
	}
	c.inTx, c.saved, c.events = false, nil, nil
	c.d.log = append(c.d.log, Stmt{SQL: "ROLLBACK", Kind: "rollback"})
	return nil
}

type stmt struct {
	c *conn
	q string
}

func (s *stmt) Close() error  { return nil }
func (s *stmt) NumInput() int { return -1 }
func (s *stmt) Exec(args []driver.Value) (driver.Result, error) {
	return s.c.exec(s.q, args)
}
func (s *stmt) Query(args []driver.Value) (driver.Rows, error) {
	return s.c.query(s.q, args)
}

type result struct{ id, n int64 }

func (r result) LastInsertId() (int64, error) { return r.id, nil }
func (r result) RowsAffected() (int64, error) { return r.n, nil }

type rows struct {
	cols []string
	data [][]driver.Value
	i    int
}

func (r *rows) Columns() []string { return r.cols }
func (r *rows) Close() error      { return nil }
func (r *rows) Next(dest []driver.Value) error {
	if r.i >= len(r.data) {
		return io.EOF
	}
	copy(dest, r.data[r.i])
	r.i++
	return nil
}

// ---- lexer / parser

type Expr struct {
	Op   string  // or | and | eq | is | in
	Kids []*Expr // or / and
	Col  string
	Vals []driver.Value // eq/is: one; in: several
}

// Conjuncts returns, for an expression in disjunctive form, one map column -> required value (eq / is)
// or value set (in) per disjunct.
func (e *Expr) Disjuncts() []*Expr {
	if e == nil {
		return nil
	}
	if e.Op == "or" {
		var out []*Expr
		for _, k := range e.Kids {
			out = append(out, k.Disjuncts()...)
		}
		return out
	}
	return []*Expr{e}
}

// Preds lists the atomic predicates of a conjunction.
func (e *Expr) Preds() []*Expr {
	if e.Op == "and" {
		var out []*Expr
		for _, k := range e.Kids {
			out = append(out, k.Preds()...)
		}
		return out
	}
	return []*Expr{e}
}

func lex(q string) []string {
	var toks []string
	i := 0
	for i < len(q) {
		c := q[i]
		switch {
		case c == ' ' || c == '\n' || c == '\t' || c == '\r':
			i++
		case strings.ContainsRune("(),=?*", rune(c)):
			toks = append(toks, string(c))
			i++
		default:
			j := i
			for j < len(q) && !strings.ContainsRune(" \n\t\r(),=?*", rune(q[j])) {
				j++
			}
			toks = append(toks, q[i:j])
			i = j
		}
	}
	return toks
}

type parser struct {
	toks []string
	p    int
	args []driver.Value
	a    int
}

func (p *parser) peek() string {
	if p.p < len(p.toks) {
		return p.toks[p.p]
	}
	return ""
}
func (p *parser) peekUp() string { return strings.ToUpper(p.peek()) }
func (p *parser) next() string   { t := p.peek(); p.p++; return t }
func (p *parser) expect(t string) error {
	if got := p.next(); !strings.EqualFold(got, t) {
		return fmt.Errorf("fakesql: expected %q, got %q at token %d", t, got, p.p)
	}
	return nil
}
func (p *parser) arg() (driver.Value, error) {
	if err := p.expect("?"); err != nil {
		return nil, err
	}
	if p.a >= len(p.args) {
		return nil, errors.New("fakesql: not enough arguments")
	}
	v := p.args[p.a]
	p.a++
	return v, nil
}

func (p *parser) parseOr() (*Expr, error) {
	l, err := p.parseAnd()
	if err != nil {
		return nil, err
	}
	for p.peekUp() == "OR" {
		p.next()
		r, err := p.parseAnd()
		if err != nil {
			return nil, err
		}
		if l.Op == "or" {
			l.Kids = append(l.Kids, r)
		} else {
			l = &Expr{Op: "or", Kids: []*Expr{l, r}}
		}
	}
	return l, nil
}
func (p *parser) parseAnd() (*Expr, error) {
	l, err := p.parseAtom()
	if err != nil {
		return nil, err
	}
	for p.peekUp() == "AND" {
		p.next()
		r, err := p.parseAtom()
		if err != nil {
			return nil, err
		}
		if l.Op == "and" {
			l.Kids = append(l.Kids, r)
		} else {
			l = &Expr{Op: "and", Kids: []*Expr{l, r}}
		}
	}
	return l, nil
}
func (p *parser) parseAtom() (*Expr, error) {
	if p.peek() == "(" {
		p.next()
		e, err := p.parseOr()
		if err != nil {
			return nil, err
		}
		return e, p.expect(")")
	}
	col := p.next()
	switch op := strings.ToUpper(p.next()); op {
	case "=":
		v, err := p.arg()
		return &Expr{Op: "eq", Col: col, Vals: []driver.Value{v}}, err
	case "IS":
		v, err := p.arg()
		return &Expr{Op: "is", Col: col, Vals: []driver.Value{v}}, err
	case "IN":
		if err := p.expect("("); err != nil {
			return nil, err
		}
		e := &Expr{Op: "in", Col: col}
		for {
			v, err := p.arg()
			if err != nil {
				return nil, err
			}
			e.Vals = append(e.Vals, v)
			if p.peek() == "," {
				p.next()
				continue
			}
			break
		}
		return e, p.expect(")")
	default:
		return nil, fmt.Errorf("fakesql: unsupported predicate %s %s", col, op)
	}
}

// ---- values

func (t *table) col(name string) (int, error) {
	for i, c := range t.def.Cols {
		if c.Name == name {
			return i, nil
		}
	}
	return -1, fmt.Errorf("fakesql: Unknown column '%s' in table %s", name, t.def.Name)
}
func (t *table) pk(r []driver.Value) []driver.Value {
	var out []driver.Value
	for _, n := range t.def.PK {
		i, _ := t.col(n)
		out = append(out, r[i])
	}
	return out
}

// norm converts an argument to the stored form of a column (MySQL's implicit conversions).
func norm(c ColDef, v driver.Value) (driver.Value, error) {
	if v == nil {
		return nil, nil
	}
	switch c.Type {
	case Int, Bool:
		switch x := v.(type) {
		case int64:
			return x, nil
		case bool:
			if x {
				return int64(1), nil
			}
			return int64(0), nil
		case float64:
			return int64(x), nil
		case string:
			n, _ := strconv.ParseInt(strings.TrimSpace(x), 10, 64)
			return n, nil
		case []byte:
			n, _ := strconv.ParseInt(strings.TrimSpace(string(x)), 10, 64)
			return n, nil
		}
	case Float:
		switch x := v.(type) {
		case int64:
			return float64(x), nil
		case float64:
			return x, nil
		case string:
			f, _ := strconv.ParseFloat(x, 64)
			return f, nil
		case []byte:
			f, _ := strconv.ParseFloat(string(x), 64)
			return f, nil
		}
	case Text:
		switch x := v.(type) {
		case string:
			return x, nil
		case []byte:
			return string(x), nil
		case int64:
			return strconv.FormatInt(x, 10), nil
		case float64:
			return strconv.FormatFloat(x, 'g', -1, 64), nil
		case bool:
			if x {
				return "1", nil
			}
			return "0", nil
		case time.Time:
			return x.UTC().Format("2006-01-02 15:04:05"), nil
		}
	case Blob:
		switch x := v.(type) {
		case []byte:
			return append([]byte{}, x...), nil
		case string:
			return []byte(x), nil
		case int64:
			return []byte(strconv.FormatInt(x, 10)), nil
		}
	case Time:
		switch x := v.(type) {
		case time.Time:
			return x.UTC().Truncate(time.Second), nil
		case string:
			tm, err := time.Parse("2006-01-02 15:04:05", x)
			return tm, err
		case []byte:
			tm, err := time.Parse("2006-01-02 15:04:05", string(x))
			return tm, err
		}
	}
	return nil, fmt.Errorf("fakesql: cannot store %T in column %s", v, c.Name)
}

func same(a, b driver.Value) bool {
	if a == nil || b == nil {
		return false
	}
	switch x := a.(type) {
	case []byte:
		y, ok := b.([]byte)
		return ok && string(x) == string(y)
	case time.Time:
		y, ok := b.(time.Time)
		return ok && x.Equal(y)
	}
	return a == b
}

func (t *table) eval(e *Expr, r []driver.Value) (bool, error) {
	switch e.Op {
	case "or":
		for _, k := range e.Kids {
			ok, err := t.eval(k, r)
			if err != nil || ok {
				return ok, err
			}
		}
		return false, nil
	case "and":
		for _, k := range e.Kids {
			ok, err := t.eval(k, r)
			if err != nil || !ok {
				return false, err
			}
		}
		return true, nil
	}
	i, err := t.col(e.Col)
	if err != nil {
		return false, err
	}
	switch e.Op {
	case "is":
		if e.Vals[0] != nil {
			return false, fmt.Errorf("fakesql: You have an error in your SQL syntax near 'IS ?' with a non-NULL argument")
		}
		return r[i] == nil, nil
	default: // eq, in: NULL on either side never matches
		for _, v := range e.Vals {
			nv, err := norm(t.def.Cols[i], v)
			if err != nil {
				return false, err
			}
			if same(r[i], nv) {
				return true, nil
			}
		}
		return false, nil
	}
}

// out converts a stored value to what the MySQL driver hands back.
func (d *DB) out(c ColDef, v driver.Value) driver.Value {
	if v == nil {
		return nil
	}
	if d.AllText {
		switch x := v.(type) {
		case int64:
			return []byte(strconv.FormatInt(x, 10))
		case float64:
			return []byte(strconv.FormatFloat(x, 'g', -1, 64))
		case string:
			return []byte(x)
		case time.Time:
			return []byte(x.Format("2006-01-02 15:04:05"))
		}
		return v
	}
	switch x := v.(type) {
	case string:
		return []byte(x)
	case []byte:
		return append([]byte{}, x...)
	}
	return v
}

// BinlogRow converts a stored row to the values go-mysql's replication package produces.
func BinlogRow(def TableDef, r []driver.Value) []interface{} {
	if r == nil {
		return nil
	}
	out := make([]interface{}, len(r))
	for i, v := range r {
		if v == nil {
			continue
		}
		c := def.Cols[i]
		switch c.Type {
		case Int:
			n := v.(int64)
			switch c.Bits {
			case 8:
				out[i] = int8(n)
			case 16:
				out[i] = int16(n)
			case 32:
				out[i] = int32(n)
			default:
				out[i] = n
			}
		case Bool:
			out[i] = int8(v.(int64))
		case Float:
			out[i] = v.(float64)
		case Text:
			out[i] = v.(string)
		case Blob:
			out[i] = append([]byte{}, v.([]byte)...)
		case Time:
			out[i] = v.(time.Time).Format("2006-01-02 15:04:05")
		}
	}
	return out
}

// ---- statements

func (c *conn) logStmt(s Stmt, err error) {
	if err != nil {
		s.Err = err.Error()
	}
	s.InTx = c.inTx
	if t, ok := c.d.tables[s.Table]; ok {
		s.Def = t.def
	}
	c.d.log = append(c.d.log, s)
	if h := c.d.OnStmt; h != nil {
		h(s)
	}
}

func (c *conn) query(q string, args []driver.Value) (driver.Rows, error) {
	d := c.d
	if bq := d.BeforeQuery; bq != nil {
		bq(q, args)
	}
	d.mu.Lock()
	defer d.mu.Unlock()
	st := Stmt{SQL: q, Args: append([]driver.Value{}, args...)}
	r, err := c.doQuery(q, args, &st)
	c.logStmt(st, err)
	return r, err
}

func (c *conn) doQuery(q string, args []driver.Value, st *Stmt) (driver.Rows, error) {
	d := c.d
	if strings.Contains(q, "information_schema.columns") {
		st.Kind = "columns"
		if len(args) != 2 {
			return nil, errors.New("fakesql: columns query needs 2 args")
		}
		t, ok := d.tables[fmt.Sprint(args[1])]
		out := &rows{cols: []string{"column_name"}}
		if ok && fmt.Sprint(args[0]) == d.Database {
			for _, cdef := range t.def.Cols {
				out.data = append(out.data, []driver.Value{[]byte(cdef.Name)})
			}
		}
		st.Table = fmt.Sprint(args[1])
		return out, nil
	}
	p := &parser{toks: lex(q), args: args}
	if err := p.expect("SELECT"); err != nil {
		return nil, err
	}
	count := false
	var cols []string
	if p.peekUp() == "COUNT" {
		count = true
		for _, t := range []string{"COUNT", "(", "*", ")"} {
			if err := p.expect(t); err != nil {
				return nil, err
			}
		}
	} else {
		for {
			cols = append(cols, p.next())
			if p.peek() == "," {
				p.next()
				continue
			}
			break
		}
	}
	if err := p.expect("FROM"); err != nil {
		return nil, err
	}
	tn := p.next()
	st.Table, st.Cols = tn, cols
	st.Kind = "select"
	if count {
		st.Kind = "count"
	}
	t, ok := d.tables[tn]
	if !ok {
		return nil, fmt.Errorf("fakesql: Table '%s' doesn't exist", tn)
	}
	var where *Expr
	if p.peekUp() == "WHERE" {
		p.next()
		var err error
		where, err = p.parseOr()
		if err != nil {
			return nil, err
		}
	}
	st.Where = where
	orderCol, desc, limit := "", false, -1
	if p.peekUp() == "ORDER" {
		p.next()
		if err := p.expect("BY"); err != nil {
			return nil, err
		}
		orderCol = p.next()
		if p.peekUp() == "DESC" {
			p.next()
			desc = true
		} else if p.peekUp() == "ASC" {
			p.next()
		}
	}
	if p.peekUp() == "LIMIT" {
		p.next()
		n, err := strconv.Atoi(p.next())
		if err != nil {
			return nil, err
		}
		limit = n
	}
	if p.peekUp() == "FOR" {
		p.next()
		if err := p.expect("UPDATE"); err != nil {
			return nil, err
		}
	}
	if p.p < len(p.toks) {
		return nil, fmt.Errorf("fakesql: unsupported SQL near %q in %q", p.peek(), q)
	}
	if p.a != len(args) {
		return nil, fmt.Errorf("fakesql: %d arguments for %d placeholders", len(args), p.a)
	}
	var idx []int
	for _, cn := range cols {
		i, err := t.col(cn)
		if err != nil {
			return nil, err
		}
		idx = append(idx, i)
	}
	var hit [][]driver.Value
	for _, r := range t.rows {
		ok := true
		if where != nil {
			var err error
			ok, err = t.eval(where, r)
			if err != nil {
				return nil, err
			}
		}
		if ok {
			hit = append(hit, r)
		}
	}
	st.Affected = len(hit)
	for _, r := range hit {
		st.Hit = append(st.Hit, append([]driver.Value{}, r...))
	}
	if count {
		return &rows{cols: []string{"COUNT(*)"}, data: [][]driver.Value{{int64(len(hit))}}}, nil
	}
	// MySQL returns rows in primary key order unless told otherwise
	oi := -1
	if orderCol != "" {
		var err error
		if oi, err = t.col(orderCol); err != nil {
			return nil, err
		}
	}
	sort.SliceStable(hit, func(a, b int) bool {
		if oi >= 0 {
			x, y := fmt.Sprintf("%020v", hit[a][oi]), fmt.Sprintf("%020v", hit[b][oi])
			if x != y {
				return (x < y) != desc
			}
		}
		return fmt.Sprintf("%020v", t.pk(hit[a])) < fmt.Sprintf("%020v", t.pk(hit[b]))
	})
	if limit >= 0 && len(hit) > limit {
		hit = hit[:limit]
	}
	out := &rows{cols: cols}
	for _, r := range hit {
		row := make([]driver.Value, len(idx))
		for k, i := range idx {
			row[k] = d.out(t.def.Cols[i], r[i])
		}
		out.data = append(out.data, row)
	}
	return out, nil
}

func (c *conn) exec(q string, args []driver.Value) (driver.Result, error) {
	d := c.d
	d.mu.Lock()
	st := Stmt{SQL: q, Args: append([]driver.Value{}, args...)}
	res, evs, err := c.doExec(q, args, &st)
	c.logStmt(st, err)
	var cb func([]Event)
	if err == nil {
		if c.inTx {
			c.events = append(c.events, evs...)
		} else if len(evs) > 0 {
			cb = d.OnCommit
			if h := d.OnApply; h != nil {
				h(evs)
			}
		}
	}
	d.mu.Unlock()
	if cb != nil {
		cb(evs)
	}
	return res, err
}

func (c *conn) doExec(q string, args []driver.Value, st *Stmt) (driver.Result, []Event, error) {
	d := c.d
	p := &parser{toks: lex(q), args: args}
	switch strings.ToUpper(p.next()) {
	case "INSERT":
		if err := p.expect("INTO"); err != nil {
			return nil, nil, err
		}
		tn := p.next()
		st.Table, st.Kind = tn, "insert"
		t, ok := d.tables[tn]
		if !ok {
			return nil, nil, fmt.Errorf("fakesql: Table '%s' doesn't exist", tn)
		}
		if err := p.expect("("); err != nil {
			return nil, nil, err
		}
		var cols []string
		for p.peek() != ")" {
			cols = append(cols, p.next())
			if p.peek() == "," {
				p.next()
			}
		}
		p.next()
		st.Cols = cols
		if err := p.expect("VALUES"); err != nil {
			return nil, nil, err
		}
		var tuples [][]driver.Value
		for {
			if err := p.expect("("); err != nil {
				return nil, nil, err
			}
			var tup []driver.Value
			for p.peek() != ")" {
				v, err := p.arg()
				if err != nil {
					return nil, nil, err
				}
				tup = append(tup, v)
				if p.peek() == "," {
					p.next()
				}
			}
			p.next()
			if len(tup) != len(cols) {
				return nil, nil, errors.New("fakesql: Column count doesn't match value count")
			}
			tuples = append(tuples, tup)
			if p.peek() == "," {
				p.next()
				continue
			}
			break
		}
		st.Rows = tuples
		var updCols []string
		if p.peekUp() == "ON" {
			st.Kind = "upsert"
			for _, tk := range []string{"ON", "DUPLICATE", "KEY", "UPDATE"} {
				if err := p.expect(tk); err != nil {
					return nil, nil, err
				}
			}
			for p.p < len(p.toks) {
				cn := p.next()
				for _, tk := range []string{"=", "VALUES", "(", cn, ")"} {
					if err := p.expect(tk); err != nil {
						return nil, nil, err
					}
				}
				updCols = append(updCols, cn)
				if p.peek() == "," {
					p.next()
				}
			}
		}
		if p.p < len(p.toks) {
			return nil, nil, fmt.Errorf("fakesql: unsupported SQL near %q", p.peek())
		}
		var evs []Event
		var lastID, n int64
		// all-or-nothing per statement
		backup := append([][]driver.Value{}, t.rows...)
		backupNext := t.next
		fail := func(err error) (driver.Result, []Event, error) {
			t.rows, t.next = backup, backupNext
			return nil, nil, err
		}
		for _, tup := range tuples {
			row := make([]driver.Value, len(t.def.Cols))
			given := make([]bool, len(t.def.Cols))
			for k, cn := range cols {
				i, err := t.col(cn)
				if err != nil {
					return fail(err)
				}
				v, err := norm(t.def.Cols[i], tup[k])
				if err != nil {
					return fail(err)
				}
				row[i], given[i] = v, true
			}
			for i, cd := range t.def.Cols {
				if cd.AutoInc && (row[i] == nil || row[i] == int64(0)) {
					row[i] = t.next
					lastID = t.next
				}
				if cd.AutoInc && row[i] != nil && row[i].(int64) >= t.next {
					t.next = row[i].(int64) + 1
				}
				if row[i] == nil && !cd.Nullable {
					if given[i] {
						return fail(fmt.Errorf("fakesql: Column '%s' cannot be null", cd.Name))
					}
					return fail(fmt.Errorf("fakesql: Field '%s' doesn't have a default value", cd.Name))
				}
			}
			dup := -1
			for ri, r := range t.rows {
				if fmt.Sprint(t.pk(r)) == fmt.Sprint(t.pk(row)) {
					dup = ri
				}
			}
			switch {
			case dup < 0:
				t.rows = append(t.rows, row)
				evs = append(evs, Event{Def: t.def, Table: tn, TableID: t.id, Kind: "insert", After: append([]driver.Value{}, row...)})
				n++
			case st.Kind == "upsert":
				before := append([]driver.Value{}, t.rows[dup]...)
				after := append([]driver.Value{}, before...)
				changed := false
				for _, cn := range updCols {
					i, err := t.col(cn)
					if err != nil {
						return fail(err)
					}
					if !same(after[i], row[i]) && !(after[i] == nil && row[i] == nil) {
						changed = true
					}
					after[i] = row[i]
				}
				if changed {
					t.rows = append(append(append([][]driver.Value{}, t.rows[:dup]...), after), t.rows[dup+1:]...)
					evs = append(evs, Event{Def: t.def, Table: tn, TableID: t.id, Kind: "update", Before: before, After: after})
					n += 2
				}
			default:
				return fail(fmt.Errorf("fakesql: Duplicate entry '%v' for key 'PRIMARY'", t.pk(row)))
			}
		}
		st.Affected = int(n)
		return result{lastID, n}, evs, nil
	case "UPDATE":
		tn := p.next()
		st.Table, st.Kind = tn, "update"
		t, ok := d.tables[tn]
		if !ok {
			return nil, nil, fmt.Errorf("fakesql: Table '%s' doesn't exist", tn)
		}
		if err := p.expect("SET"); err != nil {
			return nil, nil, err
		}
		var cols []string
		var vals []driver.Value
		for {
			cols = append(cols, p.next())
			if err := p.expect("="); err != nil {
				return nil, nil, err
			}
			v, err := p.arg()
			if err != nil {
				return nil, nil, err
			}
			vals = append(vals, v)
			if p.peek() == "," {
				p.next()
				continue
			}
			break
		}
		st.Cols, st.Rows = cols, [][]driver.Value{vals}
		var where *Expr
		if p.peekUp() == "WHERE" {
			p.next()
			var err error
			if where, err = p.parseOr(); err != nil {
				return nil, nil, err
			}
		}
		st.Where = where
		if p.p < len(p.toks) {
			return nil, nil, fmt.Errorf("fakesql: unsupported SQL near %q", p.peek())
		}
		var evs []Event
		newRows := make([][]driver.Value, len(t.rows))
		copy(newRows, t.rows)
		for ri, r := range t.rows {
			ok := true
			if where != nil {
				var err error
				if ok, err = t.eval(where, r); err != nil {
					return nil, nil, err
				}
			}
			if !ok {
				continue
			}
			after := append([]driver.Value{}, r...)
			changed := false
			for k, cn := range cols {
				i, err := t.col(cn)
				if err != nil {
					return nil, nil, err
				}
				v, err := norm(t.def.Cols[i], vals[k])
				if err != nil {
					return nil, nil, err
				}
				if v == nil && !t.def.Cols[i].Nullable {
					return nil, nil, fmt.Errorf("fakesql: Column '%s' cannot be null", cn)
				}
				if !same(after[i], v) && !(after[i] == nil && v == nil) {
					changed = true
				}
				after[i] = v
			}
			if changed {
				newRows[ri] = after
				evs = append(evs, Event{Def: t.def, Table: tn, TableID: t.id, Kind: "update", Before: append([]driver.Value{}, r...), After: after})
			}
		}
		t.rows = newRows
		st.Affected = len(evs)
		return result{0, int64(len(evs))}, evs, nil
	case "DELETE":
		if err := p.expect("FROM"); err != nil {
			return nil, nil, err
		}
		tn := p.next()
		st.Table, st.Kind = tn, "delete"
		t, ok := d.tables[tn]
		if !ok {
			return nil, nil, fmt.Errorf("fakesql: Table '%s' doesn't exist", tn)
		}
		var where *Expr
		if p.peekUp() == "WHERE" {
			p.next()
			var err error
			if where, err = p.parseOr(); err != nil {
				return nil, nil, err
			}
		}
		st.Where = where
		if p.p < len(p.toks) {
			return nil, nil, fmt.Errorf("fakesql: unsupported SQL near %q", p.peek())
		}
		var evs []Event
		var keep [][]driver.Value
		for _, r := range t.rows {
			ok := true
			if where != nil {
				var err error
				if ok, err = t.eval(where, r); err != nil {
					return nil, nil, err
				}
			}
			if ok {
				evs = append(evs, Event{Def: t.def, Table: tn, TableID: t.id, Kind: "delete", Before: append([]driver.Value{}, r...)})
			} else {
				keep = append(keep, r)
			}
		}
		t.rows = keep
		st.Affected = len(evs)
		return result{0, int64(len(evs))}, evs, nil
	}
	return nil, nil, fmt.Errorf("fakesql: unsupported statement %q", q)
}
