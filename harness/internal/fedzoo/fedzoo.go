// Package fedzoo builds, from ONE logical schema and data set, (a) a monolith server that implements
// every field and (b) for any partition of the fields over the services s1..s3 one schemabuilder
// schema per service plus the federation gateway over them. C06 compares the two.
package fedzoo

import (
	"context"
	"fmt"
	"sort"

	"github.com/samsarahq/thunder/federation"
	"github.com/samsarahq/thunder/graphql"
	"github.com/samsarahq/thunder/graphql/schemabuilder"

	tj "verifharness/internal/tagjson"
	"verifharness/internal/zoo"
)

type User struct {
	Id    int64
	OrgId int64
	Name  string
}
type Device struct {
	Id   int64
	IsOn bool
}
type Admin struct {
	Id    int64
	Power string
}
type Everyone struct {
	schemabuilder.Union
	*User
	*Admin
}

// Solo is a union with a single member.
type Solo struct {
	schemabuilder.Union
	*User
}

// data
var users = map[int64]*User{1: {1, 10, "ann"}, 2: {2, 10, "bob"}, 3: {3, 20, "cy"}}
var devices = map[int64]*Device{7: {7, true}, 8: {8, false}}
var admins = map[int64]*Admin{5: {5, "fly"}}
var userDevice = map[int64]int64{1: 7, 2: 0, 3: 8}           // 0 = nil
var userDevices = map[int64][]int64{1: {7, 8}, 2: {}, 3: {8}} // user 2: empty list
var userTags = map[int64][]string{1: {"a", "b"}, 2: nil, 3: {"c"}}
var deviceOwner = map[int64]int64{7: 1, 8: 0}
var rootUsers = []int64{2, 1, 3}
var rootEveryone = []string{"u1", "a5", "u3"}

func dev(id int64) *Device {
	if id == 0 {
		return nil
	}
	d := *devices[id]
	return &d
}
func usr(id int64) *User {
	if id == 0 {
		return nil
	}
	u := *users[id]
	return &u
}

// Distributable fields: "Type.field".
var Fields = []string{"User.secret", "User.score", "User.device", "User.devices", "User.tags", "User.scaled", "Device.temp", "Device.owner",
	"Query.users", "Query.user1", "Query.nobody", "Query.everyone", "Query.solo", "Query.devices", "Query.devicesN", "Query.count", "Query.userById",
	"Mutation.newUser", "Mutation.touch"}

// Rendered: the logical (argument-free) fields the reference sees for the fields with arguments.
var Rendered = map[string][2]string{
	"User.scaled2": {"scaled", "(by: 2)"}, "User.scaled3": {"scaled", "(by: 3)"},
	// mutations: for the reference they are two more fields of the root object; a query that selects them
	// selects nothing else at the top level and is sent as a mutation
	"MRoot.mNewUser": {"newUser", ""}, "MRoot.mTouch": {"touch", ""},
	"Query.userById1": {"userById", "(id: 1)"}, "Query.userById3": {"userById", "(id: 3)"}, "Query.userById9": {"userById", "(id: 9)"},
}

var Services = []string{"s1", "s2", "s3"}

// Partition maps every distributable field to the (non-empty) set of services that serve it.
type Partition map[string][]string

func has(ss []string, s string) bool {
	for _, x := range ss {
		if x == s {
			return true
		}
	}
	return false
}

// build registers on schema s every field f with serves(f).
// the keys a service asks for when User objects are handed to it: all fields, the id only, id and orgId
type userKey1 struct{ Id int64 }
type userKey2 struct {
	Id    int64
	OrgId int64
}

func build(s *schemabuilder.Schema, serves func(f string) bool, keyStyle int) {
	needUser := serves("User.secret") || serves("User.score") || serves("User.device") || serves("User.devices") || serves("User.tags") ||
		serves("User.scaled") || serves("Query.userById") || serves("Query.solo") || serves("Query.users") || serves("Query.user1") || serves("Query.nobody") || serves("Query.everyone") || serves("Device.owner") || serves("Mutation.newUser")
	needDevice := serves("Device.temp") || serves("Device.owner") || serves("Query.devices") || serves("Query.devicesN") || serves("User.device") || serves("User.devices") || serves("Mutation.touch")
	q := s.Query()
	if serves("Query.count") {
		q.FieldFunc("count", func() int64 { return 3 })
	}
	if needUser {
		var fetch schemabuilder.ObjectOption
		switch keyStyle {
		case 1:
			fetch = schemabuilder.FetchObjectFromKeys(func(args struct{ Keys []userKey1 }) []*User {
				out := make([]*User, 0, len(args.Keys))
				for _, k := range args.Keys {
					out = append(out, usr(k.Id))
				}
				return out
			})
		case 2:
			fetch = schemabuilder.FetchObjectFromKeys(func(args struct{ Keys []userKey2 }) []*User {
				out := make([]*User, 0, len(args.Keys))
				for _, k := range args.Keys {
					u := usr(k.Id)
					u.OrgId = k.OrgId // what the gateway handed over, not what this service could look up
					out = append(out, u)
				}
				return out
			})
		default:
			fetch = schemabuilder.FetchObjectFromKeys(func(args struct{ Keys []*User }) []*User { return args.Keys })
		}
		u := s.Object("User", User{}, fetch)
		u.Key("id")
		if serves("User.secret") {
			u.FieldFunc("secret", func(ctx context.Context, x *User) string { return fmt.Sprintf("s%d", x.Id) })
		}
		if serves("User.score") {
			u.FieldFunc("score", func(ctx context.Context, x *User) int64 { return x.Id * 11 })
		}
		if serves("User.device") {
			u.FieldFunc("device", func(ctx context.Context, x *User) *Device { return dev(userDevice[x.Id]) })
		}
		if serves("User.devices") {
			u.FieldFunc("devices", func(ctx context.Context, x *User) []*Device {
				out := []*Device{}
				for _, id := range userDevices[x.Id] {
					out = append(out, dev(id))
				}
				return out
			})
		}
		if serves("User.tags") {
			u.FieldFunc("tags", func(ctx context.Context, x *User) []string { return userTags[x.Id] })
		}
		if serves("User.scaled") {
			u.FieldFunc("scaled", func(ctx context.Context, x *User, args struct{ By int64 }) int64 { return x.Id * args.By })
		}
	}
	if needDevice {
		d := s.Object("Device", Device{}, schemabuilder.FetchObjectFromKeys(func(args struct{ Keys []*Device }) []*Device { return args.Keys }))
		d.Key("id")
		if serves("Device.temp") {
			d.FieldFunc("temp", func(ctx context.Context, x *Device) int64 { return x.Id + 60 })
		}
		if serves("Device.owner") {
			d.FieldFunc("owner", func(ctx context.Context, x *Device) *User { return usr(deviceOwner[x.Id]) })
		}
	}
	if serves("Query.users") {
		q.FieldFunc("users", func(ctx context.Context) []*User {
			out := []*User{}
			for _, id := range rootUsers {
				out = append(out, usr(id))
			}
			return out
		})
	}
	if serves("Query.user1") {
		q.FieldFunc("user1", func(ctx context.Context) *User { return usr(1) })
	}
	if serves("Query.userById") {
		q.FieldFunc("userById", func(ctx context.Context, args struct{ Id int64 }) *User {
			if _, ok := users[args.Id]; !ok {
				return nil
			}
			return usr(args.Id)
		})
	}
	if serves("Query.nobody") {
		q.FieldFunc("nobody", func(ctx context.Context) *User { return nil })
	}
	if serves("Query.devices") {
		q.FieldFunc("devices", func(ctx context.Context) []*Device { return []*Device{dev(8), dev(7)} })
	}
	if serves("Query.solo") {
		q.FieldFunc("solo", func(ctx context.Context) *Solo { return &Solo{User: usr(3)} })
	}
	if serves("Query.devicesN") {
		// a list with a nil entry in the middle
		q.FieldFunc("devicesN", func(ctx context.Context) []*Device { return []*Device{dev(7), nil, dev(8)} })
	}
	if serves("Query.everyone") {
		a := s.Object("Admin", Admin{}, schemabuilder.FetchObjectFromKeys(func(args struct{ Keys []*Admin }) []*Admin { return args.Keys }))
		a.Key("id")
		q.FieldFunc("everyone", func(ctx context.Context) []*Everyone {
			out := []*Everyone{}
			for _, n := range rootEveryone {
				var id int64
				fmt.Sscanf(n[1:], "%d", &id)
				if n[0] == 'u' {
					out = append(out, &Everyone{User: usr(id)})
				} else {
					a := *admins[id]
					out = append(out, &Everyone{Admin: &a})
				}
			}
			return out
		})
	}
	m := s.Mutation()
	if serves("Mutation.newUser") {
		m.FieldFunc("newUser", func(ctx context.Context) *User { return usr(2) })
	}
	if serves("Mutation.touch") {
		m.FieldFunc("touch", func(ctx context.Context) *Device { return dev(7) })
	}
}

// keyStyleOf: s1 wants all fields of a User as keys, s2 the id only, s3 id and orgId.
func keyStyleOf(svc string) int { return map[string]int{"s1": 0, "s2": 1, "s3": 2}[svc] }

// BuildInto registers on s what service svc serves under partition p; false if it serves nothing.
func BuildInto(s *schemabuilder.Schema, p Partition, svc string) bool {
	any := false
	for _, f := range Fields {
		if has(p[f], svc) {
			any = true
		}
	}
	if !any {
		return false
	}
	build(s, func(f string) bool { return has(p[f], svc) }, keyStyleOf(svc))
	return true
}

// Monolith returns the single server implementing everything.
func Monolith() *graphql.Schema {
	s := schemabuilder.NewSchemaWithName("mono")
	build(s, func(string) bool { return true }, 0)
	return s.MustBuild()
}

// Recorder wraps an ExecutorClient and records the sub-queries sent to its service.
type Recorder struct {
	Service string
	Inner   federation.ExecutorClient
	Log     func(service string, q *graphql.Query)
}

func (r *Recorder) Execute(ctx context.Context, req *federation.QueryRequest) (*federation.QueryResponse, error) {
	if r.Log != nil {
		r.Log(r.Service, req.Query)
	}
	return r.Inner.Execute(ctx, req)
}

// Exposed lists what a built service schema really exposes, as "Type.field" (ground truth for
// "each sub-query only uses fields that service exposes"), by walking its graphql types.
func Exposed(schema *graphql.Schema) []string {
	seen := map[string]bool{}
	out := []string{}
	var walk func(t graphql.Type)
	walk = func(t graphql.Type) {
		switch t := t.(type) {
		case *graphql.NonNull:
			walk(t.Type)
		case *graphql.List:
			walk(t.Type)
		case *graphql.Union:
			for _, m := range t.Types {
				walk(m)
			}
		case *graphql.Object:
			if seen[t.Name] {
				return
			}
			seen[t.Name] = true
			for n, f := range t.Fields {
				out = append(out, t.Name+"."+n)
				walk(f.Type)
			}
		}
	}
	walk(schema.Query)
	if mo, ok := schema.Mutation.(*graphql.Object); ok {
		for n, f := range mo.Fields {
			out = append(out, "Mutation."+n)
			walk(f.Type)
		}
	}
	sort.Strings(out)
	return out
}

// LastExposed is what the services of the most recently built Gateway expose, by service.
var LastExposed map[string][]string

// Gateway builds the services for partition p and the federation executor over them.
// selector (may be nil) picks the service when several can serve a field.
func Gateway(ctx context.Context, p Partition, selector federation.ServiceSelector, log func(string, *graphql.Query), syncSeconds int64) (*federation.Executor, error) {
	execs := map[string]federation.ExecutorClient{}
	LastExposed = map[string][]string{}
	for _, svc := range Services {
		svc := svc
		any := false
		for _, f := range Fields {
			if has(p[f], svc) {
				any = true
			}
		}
		if !any {
			continue
		}
		s := schemabuilder.NewSchemaWithName(svc)
		build(s, func(f string) bool { return has(p[f], svc) }, keyStyleOf(svc))
		built := s.MustBuild()
		LastExposed[svc] = Exposed(built)
		srv, err := federation.NewServer(built)
		if err != nil {
			return nil, err
		}
		execs[svc] = &Recorder{Service: svc, Inner: &federation.DirectExecutorClient{Client: srv}, Log: log}
	}
	var syncer federation.SchemaSyncer = federation.NewIntrospectionSchemaSyncer(ctx, execs, nil)
	if selector != nil {
		syncer = &selectingSyncer{execs: execs, selector: selector}
	}
	cfg := &federation.SchemaSyncerConfig{SchemaSyncer: syncer}
	if syncSeconds > 0 {
		cfg.SchemaSyncIntervalSeconds = func(context.Context) int64 { return syncSeconds }
	}
	return federation.NewExecutor(ctx, execs, cfg)
}

// selectingSyncer is the stock introspection syncer with a service selector handed to the planner.
type selectingSyncer struct {
	execs    map[string]federation.ExecutorClient
	selector federation.ServiceSelector
}

func (s *selectingSyncer) FetchPlannerAndSchema(ctx context.Context) (*federation.Planner, *graphql.Schema, error) {
	return federation.VerifPlannerWithSelector(ctx, s.execs, s.selector)
}

// Describe emits the logical schema + data graph in the format Exec.tla reads (see zoo.Describe).
func Describe() zoo.Desc {
	named := func(n string) zoo.TRef { return zoo.TRef{K: "named", Name: n} }
	list := func(t zoo.TRef) zoo.TRef { return zoo.TRef{K: "list", Of: &t} }
	d := zoo.Desc{Types: map[string]zoo.TypeDesc{}, Objs: map[string]zoo.ObjDesc{}, Root: "q"}
	sc := func() zoo.TypeDesc { return zoo.TypeDesc{Kind: "SCALAR", Fields: map[string]zoo.TRef{}, Members: []string{}} }
	d.Types["Int"], d.Types["String"], d.Types["Bool"] = sc(), sc(), sc()
	d.Types["Everyone"] = zoo.TypeDesc{Kind: "UNION", Fields: map[string]zoo.TRef{}, Members: []string{"User", "Admin"}}
	d.Types["Solo"] = zoo.TypeDesc{Kind: "UNION", Fields: map[string]zoo.TRef{}, Members: []string{"User"}}
	d.Types["Query"] = zoo.TypeDesc{Kind: "OBJECT", Members: []string{}, Fields: map[string]zoo.TRef{
		"users": list(named("User")), "user1": named("User"), "nobody": named("User"), "everyone": list(named("Everyone")), "solo": named("Solo"),
		"devices": list(named("Device")), "devicesN": list(named("Device")), "count": named("Int"),
		"userById1": named("User"), "userById3": named("User"), "userById9": named("User"),
		"mNewUser": named("User"), "mTouch": named("Device")}}
	d.Types["User"] = zoo.TypeDesc{Kind: "OBJECT", Key: "id", Members: []string{}, Fields: map[string]zoo.TRef{
		"id": named("Int"), "orgId": named("Int"), "name": named("String"), "secret": named("String"), "score": named("Int"),
		"device": named("Device"), "devices": list(named("Device")), "tags": list(named("String")),
		"scaled2": named("Int"), "scaled3": named("Int")}}
	d.Types["Device"] = zoo.TypeDesc{Kind: "OBJECT", Key: "id", Members: []string{}, Fields: map[string]zoo.TRef{
		"id": named("Int"), "isOn": named("Bool"), "temp": named("Int"), "owner": named("User")}}
	d.Types["Admin"] = zoo.TypeDesc{Kind: "OBJECT", Key: "id", Members: []string{}, Fields: map[string]zoo.TRef{
		"id": named("Int"), "power": named("String")}}
	ref := func(n string) tj.T {
		if n == "" {
			return tj.T{K: "n"}
		}
		return tj.T{K: "ref", S: &n}
	}
	refs := func(ns []string) tj.T {
		a := make([]tj.T, len(ns))
		for i, n := range ns {
			a[i] = ref(n)
		}
		return tj.T{K: "a", A: &a}
	}
	un := func(id int64) string {
		if id == 0 {
			return ""
		}
		return fmt.Sprintf("u%d", id)
	}
	dn := func(id int64) string {
		if id == 0 {
			return ""
		}
		return fmt.Sprintf("d%d", id)
	}
	var ru []string
	for _, id := range rootUsers {
		ru = append(ru, un(id))
	}
	d.Objs["q"] = zoo.ObjDesc{Type: "Query", M: map[string]tj.T{"users": refs(ru), "user1": ref("u1"), "nobody": ref(""), "solo": ref("u3"),
		"everyone": refs(rootEveryone), "devices": refs([]string{"d8", "d7"}), "devicesN": refs([]string{"d7", "", "d8"}), "count": tj.From(3),
		"userById1": ref("u1"), "userById3": ref("u3"), "userById9": ref(""), "mNewUser": ref("u2"), "mTouch": ref("d7")}}
	ids := []int64{}
	for id := range users {
		ids = append(ids, id)
	}
	sort.Slice(ids, func(i, j int) bool { return ids[i] < ids[j] })
	for _, id := range ids {
		u := users[id]
		var ds []string
		for _, x := range userDevices[id] {
			ds = append(ds, dn(x))
		}
		tags := []tj.T{}
		for _, t := range userTags[id] {
			tags = append(tags, tj.From(t))
		}
		d.Objs[un(id)] = zoo.ObjDesc{Type: "User", M: map[string]tj.T{"id": tj.From(u.Id), "orgId": tj.From(u.OrgId), "name": tj.From(u.Name),
			"secret": tj.From(fmt.Sprintf("s%d", id)), "score": tj.From(id * 11), "device": ref(dn(userDevice[id])), "devices": refs(ds),
			"tags": {K: "a", A: &tags}, "scaled2": tj.From(id * 2), "scaled3": tj.From(id * 3)}}
	}
	for id, dv := range devices {
		d.Objs[dn(id)] = zoo.ObjDesc{Type: "Device", M: map[string]tj.T{"id": tj.From(dv.Id), "isOn": tj.From(dv.IsOn), "temp": tj.From(id + 60),
			"owner": ref(un(deviceOwner[id]))}}
	}
	for id, a := range admins {
		d.Objs[fmt.Sprintf("a%d", id)] = zoo.ObjDesc{Type: "Admin", M: map[string]tj.T{"id": tj.From(a.Id), "power": tj.From(a.Power)}}
	}
	return d
}
