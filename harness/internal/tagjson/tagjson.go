// Package tagjson converts between Go JSON values (as encoding/json produces
// them) and the tagged form the TLA+ specifications read:
//
//	null    {"k":"n"}
//	bool    {"k":"b","s":"true"}
//	number  {"k":"i","s":"12"}        (decimal text; TLC never compares a string with a number)
//	string  {"k":"s","s":"..."}
//	array   {"k":"a","a":[...]}
//	object  {"k":"o","m":{name: value}}
package tagjson

import (
	"bytes"
	"encoding/json"
	"fmt"
	"math"
	"reflect"
	"sort"
	"strconv"
)

// T is a tagged value.
type T struct {
	K string        `json:"k"`
	S *string       `json:"s,omitempty"`
	A *[]T          `json:"a,omitempty"`
	M *map[string]T `json:"m,omitempty"`
}

func str(s string) *string { return &s }

// UnmarshalJSON accepts TLC's rendering of an empty function ("m":[]).
func (t *T) UnmarshalJSON(b []byte) error {
	var raw struct {
		K string          `json:"k"`
		S *string         `json:"s"`
		A *[]T            `json:"a"`
		M json.RawMessage `json:"m"`
	}
	if err := json.Unmarshal(b, &raw); err != nil {
		return err
	}
	t.K, t.S, t.A = raw.K, raw.S, raw.A
	if raw.K == "a" && t.A == nil {
		e := []T{}
		t.A = &e
	}
	if raw.K == "o" {
		m := map[string]T{}
		if len(raw.M) > 0 && raw.M[0] == '{' {
			if err := json.Unmarshal(raw.M, &m); err != nil {
				return err
			}
		}
		t.M = &m
	}
	return nil
}

// FmtNum renders a number the way the specs expect: integers without
// exponent or fraction.
func FmtNum(f float64) string {
	if f == math.Trunc(f) && math.Abs(f) < 1e15 {
		return strconv.FormatInt(int64(f), 10)
	}
	return strconv.FormatFloat(f, 'g', -1, 64)
}

// From converts a Go value (any JSON-like value, including the typed ints,
// fixed-size arrays and []byte that thunder produces) to tagged form.
func From(v interface{}) T {
	switch v := v.(type) {
	case nil:
		return T{K: "n"}
	case bool:
		return T{K: "b", S: str(strconv.FormatBool(v))}
	case string:
		return T{K: "s", S: str(v)}
	case float64:
		return T{K: "i", S: str(FmtNum(v))}
	case float32:
		return T{K: "i", S: str(FmtNum(float64(v)))}
	case json.Number:
		if f, err := v.Float64(); err == nil && f == math.Trunc(f) && math.Abs(f) < 1e15 {
			return T{K: "i", S: str(FmtNum(f))} // 2.0 and 2 are the same number
		}
		return T{K: "i", S: str(v.String())}
	case map[string]interface{}:
		m := make(map[string]T, len(v))
		for k, x := range v {
			m[k] = From(x)
		}
		return T{K: "o", M: &m}
	case []interface{}:
		a := make([]T, len(v))
		for i, x := range v {
			a[i] = From(x)
		}
		return T{K: "a", A: &a}
	}
	rv := reflect.ValueOf(v)
	switch rv.Kind() {
	case reflect.Int, reflect.Int8, reflect.Int16, reflect.Int32, reflect.Int64:
		return T{K: "i", S: str(strconv.FormatInt(rv.Int(), 10))}
	case reflect.Uint, reflect.Uint8, reflect.Uint16, reflect.Uint32, reflect.Uint64:
		return T{K: "i", S: str(strconv.FormatUint(rv.Uint(), 10))}
	case reflect.Slice, reflect.Array:
		a := make([]T, rv.Len())
		for i := range a {
			a[i] = From(rv.Index(i).Interface())
		}
		return T{K: "a", A: &a}
	case reflect.Ptr:
		if rv.IsNil() {
			return T{K: "n"}
		}
		return From(rv.Elem().Interface())
	case reflect.String:
		return T{K: "s", S: str(rv.String())}
	case reflect.Bool:
		return T{K: "b", S: str(strconv.FormatBool(rv.Bool()))}
	case reflect.Float32, reflect.Float64:
		return T{K: "i", S: str(FmtNum(rv.Float()))}
	case reflect.Map:
		m := map[string]T{}
		for _, k := range rv.MapKeys() {
			m[fmt.Sprint(k.Interface())] = From(rv.MapIndex(k).Interface())
		}
		return T{K: "o", M: &m}
	}
	// Anything else: go through encoding/json.
	b, err := json.Marshal(v)
	if err != nil {
		return T{K: "s", S: str(fmt.Sprintf("<unencodable %T>", v))}
	}
	var x interface{}
	if err := json.Unmarshal(b, &x); err != nil {
		return T{K: "s", S: str(string(b))}
	}
	return From(x)
}

// FromJSON parses JSON text and tags it.
func FromJSON(b []byte) (T, error) {
	var x interface{}
	d := json.NewDecoder(bytes.NewReader(b))
	d.UseNumber() // keep integers beyond 2^53 and the integer/float distinction of the text
	if err := d.Decode(&x); err != nil {
		return T{}, err
	}
	return From(x), nil
}

// To converts a tagged value to the Go form encoding/json would have
// produced (numbers as float64).
func (t T) To() interface{} {
	switch t.K {
	case "n":
		return nil
	case "b":
		return *t.S == "true"
	case "s":
		return *t.S
	case "i":
		f, _ := strconv.ParseFloat(*t.S, 64)
		return f
	case "a":
		a := make([]interface{}, len(*t.A))
		for i, x := range *t.A {
			a[i] = x.To()
		}
		return a
	case "o":
		m := make(map[string]interface{}, len(*t.M))
		for k, x := range *t.M {
			m[k] = x.To()
		}
		return m
	}
	panic("tagjson: bad tag " + t.K)
}

// Keys returns the sorted field names of an object.
func (t T) Keys() []string {
	var ks []string
	if t.M != nil {
		for k := range *t.M {
			ks = append(ks, k)
		}
	}
	sort.Strings(ks)
	return ks
}

// String renders the plain JSON of the value (for samples and replays).
func (t T) String() string {
	b, _ := json.Marshal(t.To())
	return string(b)
}
