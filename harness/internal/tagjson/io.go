package tagjson

import (
	"bufio"
	"encoding/json"
	"os"
)

// ReadValues reads an ndjson file of tagged values.
func ReadValues(path string) ([]T, error) {
	f, err := os.Open(path)
	if err != nil {
		return nil, err
	}
	defer f.Close()
	var out []T
	sc := bufio.NewScanner(f)
	sc.Buffer(make([]byte, 1<<20), 1<<26)
	for sc.Scan() {
		if len(sc.Bytes()) == 0 {
			continue
		}
		var t T
		if err := json.Unmarshal(sc.Bytes(), &t); err != nil {
			return nil, err
		}
		out = append(out, t)
	}
	return out, sc.Err()
}

// Writer writes ndjson lines.
type Writer struct {
	f *os.File
	w *bufio.Writer
	N int
}

func NewWriter(path string) (*Writer, error) {
	f, err := os.Create(path)
	if err != nil {
		return nil, err
	}
	return &Writer{f: f, w: bufio.NewWriterSize(f, 1<<20)}, nil
}

func (w *Writer) Write(v interface{}) error {
	b, err := json.Marshal(v)
	if err != nil {
		return err
	}
	w.N++
	w.w.Write(b)
	return w.w.WriteByte('\n')
}

func (w *Writer) Close() error {
	if err := w.w.Flush(); err != nil {
		return err
	}
	return w.f.Close()
}
