// Package gate holds small helpers shared by the schedule-controlling drivers.
package gate

import (
	"bytes"
	"runtime"
	"strconv"
)

// GoID returns the id of the calling goroutine (parsed from runtime.Stack).
func GoID() int64 {
	var buf [64]byte
	n := runtime.Stack(buf[:], false)
	// "goroutine 123 [running]:"
	b := buf[:n]
	b = b[len("goroutine "):]
	i := bytes.IndexByte(b, ' ')
	id, _ := strconv.ParseInt(string(b[:i]), 10, 64)
	return id
}
