// Package zoo is the fixed family of schemabuilder schemas ("the zoo") over a
// small seeded data graph that the execution properties (C01, C19, C16) are
// checked on.  The same logical field can be registered in every execution
// mode thunder offers (plain FieldFunc, Expensive, BatchFieldFunc, batch with
// fallback on/off, NumParallelInvocationsFunc), and resolvers can be made to
// fail in the ways C16 talks about.
//
// Describe() emits the logical schema and the data graph as JSON for Exec.tla:
// the specification's reference evaluation runs on exactly that description.
package zoo

import (
	"context"
	"errors"
	"fmt"
	"math/rand"
	"sort"
	"sync"

	"github.com/samsarahq/thunder/batch"
	"github.com/samsarahq/thunder/graphql"
	"github.com/samsarahq/thunder/graphql/schemabuilder"

	tj "verifharness/internal/tagjson"
)

// A and B are the two object types; U is their union. (Union members are found
// by Go field name, so the Go type names are the GraphQL names.)
type A struct {
	Id   int64 `graphql:"id,key"`
	X    int64
	Name string

	name string // object name in the data graph: "a1"
	w    *World
}

type B struct {
	Id  int64 `graphql:"id,key"`
	Y   int64
	Tag string

	name string
	w    *World
}

type U struct {
	schemabuilder.Union
	*A
	*B
}

// World is the data graph.
type World struct {
	As   map[string]*A
	Bs   map[string]*B
	Link map[string]string   // "a1.b" -> "b2" | "" (nil)
	List map[string][]string // "a1.bs" -> ["b1", "", "b3"]  ("" = nil entry)

	mu    sync.Mutex
	Fail  map[string]string // "a1.b" -> plain | safe | wrapped | panic
	Calls map[string]int    // resolver invocations per logical field (for C16/C18-style counting)
}

var ANames = []string{"a1", "a2", "a3"}
var BNames = []string{"b1", "b2", "b3"}

// NewWorld builds a seeded data graph.
func NewWorld(seed int64) *World {
	r := rand.New(rand.NewSource(seed))
	w := &World{As: map[string]*A{}, Bs: map[string]*B{}, Link: map[string]string{}, List: map[string][]string{},
		Fail: map[string]string{}, Calls: map[string]int{}}
	for i, n := range ANames {
		w.As[n] = &A{Id: int64(i + 1), X: int64(r.Intn(4)), Name: fmt.Sprintf("n%d", r.Intn(3)), name: n, w: w}
	}
	for i, n := range BNames {
		w.Bs[n] = &B{Id: int64(i + 11), Y: int64(r.Intn(4)), Tag: fmt.Sprintf("t%d", r.Intn(2)), name: n, w: w}
	}
	pick := func(names []string, nilOK bool) string {
		if nilOK && r.Intn(4) == 0 {
			return ""
		}
		return names[r.Intn(len(names))]
	}
	pickList := func(names []string) []string {
		if r.Intn(6) == 0 {
			return nil // nil slice
		}
		n := r.Intn(4)
		l := make([]string, 0, n)
		for i := 0; i < n; i++ {
			l = append(l, pick(names, true))
		}
		return l
	}
	both := append(append([]string{}, ANames...), BNames...)
	for _, n := range ANames {
		w.Link[n+".b"] = pick(BNames, true)
		w.List[n+".bs"] = pickList(BNames)
		w.Link[n+".u"] = pick(both, true)
	}
	for _, n := range BNames {
		w.Link[n+".a"] = pick(ANames, true)
		w.List[n+".as"] = pickList(ANames)
	}
	w.Link["q.a1"] = "a1"
	w.Link["q.aNil"] = ""
	w.List["q.as"] = []string{"a2", "", "a1", "a3", "a2"}
	w.Link["q.u1"] = "a" + fmt.Sprint(1+r.Intn(3))
	w.Link["q.u2"] = "b" + fmt.Sprint(1+r.Intn(3))
	w.Link["q.uNil"] = ""
	w.List["q.us"] = []string{"a1", "b1", "", "b2", "a3"}
	return w
}

func (w *World) objA(n string) *A {
	if n == "" {
		return nil
	}
	return w.As[n]
}
func (w *World) objB(n string) *B {
	if n == "" {
		return nil
	}
	return w.Bs[n]
}
func (w *World) objU(n string) *U {
	switch {
	case n == "":
		return nil
	case n[0] == 'a':
		return &U{A: w.As[n]}
	}
	return &U{B: w.Bs[n]}
}

// ErrPlain etc. are the inner texts of injected failures; they must never reach a client
// unless the kind is safe.
func (w *World) fail(key string) error {
	w.mu.Lock()
	w.Calls[key]++
	kind := w.Fail[key]
	w.mu.Unlock()
	switch kind {
	case "plain":
		return errors.New("secret-plain:" + key)
	case "safe":
		return graphql.NewSafeError("safe:" + key)
	case "wrapped":
		return graphql.WrapAsSafeError(errors.New("secret-inner:"+key), "wrapped:"+key)
	case "panic":
		panic("secret-panic:" + key)
	}
	return nil
}

// ---- registration of one logical field in a given execution mode ----

// Modes a moded field can be registered in.
var Modes = []string{"plain", "expensive", "batch", "fbOn", "fbOff", "batchPar2", "plainPar2", "expPar3"}

func par(k int) schemabuilder.FieldFuncOption {
	return schemabuilder.NumParallelInvocationsFunc(func(ctx context.Context, n int) int { return k })
}

func reg[S any, R any](obj *schemabuilder.Object, name, mode string, get func(*S) (R, error)) {
	one := func(ctx context.Context, s *S) (R, error) { return get(s) }
	many := func(ctx context.Context, m map[batch.Index]*S) (map[batch.Index]R, error) {
		out := make(map[batch.Index]R, len(m))
		// deterministic order so that "which error" does not depend on map iteration
		for idx, s := range m {
			r, err := get(s)
			if err != nil {
				return nil, err
			}
			out[idx] = r
		}
		return out, nil
	}
	switch mode {
	case "plain":
		obj.FieldFunc(name, one)
	case "expensive":
		obj.FieldFunc(name, one, schemabuilder.Expensive)
	case "batch":
		obj.BatchFieldFunc(name, many)
	case "fbOn":
		obj.BatchFieldFuncWithFallback(name, many, one, func(context.Context) bool { return true })
	case "fbOff":
		obj.BatchFieldFuncWithFallback(name, many, one, func(context.Context) bool { return false })
	case "batchPar2":
		obj.BatchFieldFunc(name, many, par(2))
	case "plainPar2":
		obj.FieldFunc(name, one, par(2))
	case "expPar3":
		obj.FieldFunc(name, one, schemabuilder.Expensive, par(3))
	default:
		panic("zoo: unknown mode " + mode)
	}
}

// ModedFields lists the logical fields whose execution mode is chosen per schema.
var ModedFields = []string{"A.b", "A.bs", "A.u", "A.sq", "B.a", "B.as"}

// Build builds the schema with the given mode per moded field (missing = plain).
func Build(w *World, modes map[string]string) *graphql.Schema {
	mode := func(f string) string {
		if m, ok := modes[f]; ok {
			return m
		}
		return "plain"
	}
	s := schemabuilder.NewSchema()
	q := s.Query()
	top := func(m string) []schemabuilder.FieldFuncOption {
		if m == "expensive" {
			return []schemabuilder.FieldFuncOption{schemabuilder.Expensive}
		}
		return nil
	}
	q.FieldFunc("a1", func(ctx context.Context) (*A, error) { return w.objA(w.Link["q.a1"]), w.fail("q.a1") }, top(mode("Query.a1"))...)
	q.FieldFunc("aNil", func(ctx context.Context) (*A, error) { return nil, w.fail("q.aNil") })
	q.FieldFunc("as", func(ctx context.Context) ([]*A, error) {
		var l []*A
		for _, n := range w.List["q.as"] {
			l = append(l, w.objA(n))
		}
		return l, w.fail("q.as")
	}, top(mode("Query.as"))...)
	q.FieldFunc("u1", func(ctx context.Context) (*U, error) { return w.objU(w.Link["q.u1"]), w.fail("q.u1") })
	q.FieldFunc("u2", func(ctx context.Context) (*U, error) { return w.objU(w.Link["q.u2"]), w.fail("q.u2") })
	q.FieldFunc("uNil", func(ctx context.Context) (*U, error) { return nil, w.fail("q.uNil") })
	q.FieldFunc("us", func(ctx context.Context) ([]*U, error) {
		var l []*U
		for _, n := range w.List["q.us"] {
			l = append(l, w.objU(n))
		}
		return l, w.fail("q.us")
	}, top(mode("Query.us"))...)
	q.FieldFunc("n", func(ctx context.Context) (int64, error) { return 7, w.fail("q.n") })

	a := s.Object("A", A{})
	reg(a, "b", mode("A.b"), func(x *A) (*B, error) { return w.objB(w.Link[x.name+".b"]), w.fail(x.name + ".b") })
	reg(a, "bs", mode("A.bs"), func(x *A) ([]*B, error) {
		ns := w.List[x.name+".bs"]
		if ns == nil {
			return nil, w.fail(x.name + ".bs")
		}
		l := make([]*B, 0, len(ns))
		for _, n := range ns {
			l = append(l, w.objB(n))
		}
		return l, w.fail(x.name + ".bs")
	})
	// the same objects handed over BY VALUE: batch functions that take map[batch.Index]*B then work on copies
	a.FieldFunc("vbs", func(ctx context.Context, x *A) ([]B, error) {
		l := []B{}
		for _, n := range w.List[x.name+".bs"] {
			if b := w.objB(n); b != nil {
				l = append(l, *b)
			}
		}
		return l, nil
	})
	// a batch field returning structs by value; sources without a B get no entry in the result map (-> null)
	a.BatchFieldFunc("bv", func(ctx context.Context, m map[batch.Index]*A) (map[batch.Index]B, error) {
		out := map[batch.Index]B{}
		for i, x := range m {
			if b := w.objB(w.Link[x.name+".b"]); b != nil {
				out[i] = *b
			}
		}
		return out, nil
	})
	reg(a, "u", mode("A.u"), func(x *A) (*U, error) { return w.objU(w.Link[x.name+".u"]), w.fail(x.name + ".u") })
	reg(a, "sq", mode("A.sq"), func(x *A) (*int64, error) { v := x.X * x.X; return &v, w.fail(x.name + ".sq") })

	b := s.Object("B", B{})
	reg(b, "a", mode("B.a"), func(x *B) (*A, error) { return w.objA(w.Link[x.name+".a"]), w.fail(x.name + ".a") })
	reg(b, "as", mode("B.as"), func(x *B) ([]*A, error) {
		ns := w.List[x.name+".as"]
		if ns == nil {
			return nil, w.fail(x.name + ".as")
		}
		l := make([]*A, 0, len(ns))
		for _, n := range ns {
			l = append(l, w.objA(n))
		}
		return l, w.fail(x.name + ".as")
	})
	s.Mutation()
	return s.MustBuild()
}

// ---- description for the specification ----

type TRef struct {
	K    string `json:"k"` // named | list | nn
	Name string `json:"name"`
	Of   *TRef  `json:"of,omitempty"`
}

func named(n string) TRef { return TRef{K: "named", Name: n} }
func list(t TRef) TRef    { return TRef{K: "list", Of: &t} }
func nn(t TRef) TRef      { return TRef{K: "nn", Of: &t} }

type TypeDesc struct {
	Kind    string          `json:"kind"` // OBJECT | UNION | SCALAR
	Key     string          `json:"key"`
	Fields  map[string]TRef `json:"fields"`
	Members []string        `json:"members"`
}

type ObjDesc struct {
	Type string          `json:"type"`
	M    map[string]tj.T `json:"m"`
}

type Desc struct {
	Types map[string]TypeDesc `json:"types"`
	Objs  map[string]ObjDesc  `json:"objs"`
	Root  string              `json:"root"`
}

func ref(n string) tj.T {
	if n == "" {
		return tj.T{K: "n"}
	}
	s := n
	return tj.T{K: "ref", S: &s}
}

func refs(ns []string) tj.T {
	a := make([]tj.T, len(ns))
	for i, n := range ns {
		a[i] = ref(n)
	}
	return tj.T{K: "a", A: &a}
}

// Describe emits the logical schema and the data graph.
func (w *World) Describe() Desc {
	d := Desc{Types: map[string]TypeDesc{}, Objs: map[string]ObjDesc{}, Root: "q"}
	d.Types["Int"] = TypeDesc{Kind: "SCALAR", Fields: map[string]TRef{}, Members: []string{}}
	d.Types["String"] = TypeDesc{Kind: "SCALAR", Fields: map[string]TRef{}, Members: []string{}}
	d.Types["U"] = TypeDesc{Kind: "UNION", Fields: map[string]TRef{}, Members: []string{"A", "B"}}
	d.Types["Query"] = TypeDesc{Kind: "OBJECT", Members: []string{}, Fields: map[string]TRef{
		"a1": named("A"), "aNil": named("A"), "as": list(named("A")), "u1": named("U"), "u2": named("U"),
		"uNil": named("U"), "us": list(named("U")), "n": nn(named("Int")),
	}}
	d.Types["A"] = TypeDesc{Kind: "OBJECT", Key: "id", Members: []string{}, Fields: map[string]TRef{
		"id": nn(named("Int")), "x": nn(named("Int")), "name": nn(named("String")),
		"b": named("B"), "bv": named("B"), "bs": list(named("B")), "vbs": list(named("B")), "u": named("U"), "sq": named("Int"),
	}}
	d.Types["B"] = TypeDesc{Kind: "OBJECT", Key: "id", Members: []string{}, Fields: map[string]TRef{
		"id": nn(named("Int")), "y": nn(named("Int")), "tag": nn(named("String")),
		"a": named("A"), "as": list(named("A")),
	}}
	d.Objs["q"] = ObjDesc{Type: "Query", M: map[string]tj.T{
		"a1": ref(w.Link["q.a1"]), "aNil": ref(""), "as": refs(w.List["q.as"]), "u1": ref(w.Link["q.u1"]),
		"u2": ref(w.Link["q.u2"]), "uNil": ref(""), "us": refs(w.List["q.us"]), "n": tj.From(7),
	}}
	for n, a := range w.As {
		d.Objs[n] = ObjDesc{Type: "A", M: map[string]tj.T{
			"id": tj.From(a.Id), "x": tj.From(a.X), "name": tj.From(a.Name),
			"b": ref(w.Link[n+".b"]), "bv": ref(w.Link[n+".b"]), "bs": refs(w.List[n+".bs"]), "vbs": refs(nonEmpty(w.List[n+".bs"])), "u": ref(w.Link[n+".u"]), "sq": tj.From(a.X * a.X),
		}}
	}
	for n, b := range w.Bs {
		d.Objs[n] = ObjDesc{Type: "B", M: map[string]tj.T{
			"id": tj.From(b.Id), "y": tj.From(b.Y), "tag": tj.From(b.Tag),
			"a": ref(w.Link[n+".a"]), "as": refs(w.List[n+".as"]),
		}}
	}
	return d
}

func nonEmpty(ns []string) []string {
	out := []string{}
	for _, n := range ns {
		if n != "" {
			out = append(out, n)
		}
	}
	return out
}

// FailKeys lists every place a failure can be injected ("<object>.<field>").
func (w *World) FailKeys() []string {
	ks := []string{"q.a1", "q.as", "q.u1", "q.u2", "q.us", "q.n"}
	for _, n := range ANames {
		ks = append(ks, n+".b", n+".bs", n+".u", n+".sq")
	}
	for _, n := range BNames {
		ks = append(ks, n+".a", n+".as")
	}
	sort.Strings(ks)
	return ks
}
