// Package gallery is the "shape gallery": one schemabuilder schema that uses every Go
// shape the builder accepts for outputs (structs, pointers, slices of both, scalars of
// every width, named scalars, []byte, time.Time, enums, unions, text marshalers by value
// and by pointer, methods with every signature form and option).  C14 compares what
// introspection advertises for it with what validation accepts and execution returns.
package gallery

import (
	"context"
	"fmt"
	"time"

	"github.com/samsarahq/thunder/batch"
	"github.com/samsarahq/thunder/graphql"
	"github.com/samsarahq/thunder/graphql/introspection"
	"github.com/samsarahq/thunder/graphql/schemabuilder"
)

type MyString string
type MyInt int32
type Color int

const (
	Red Color = iota + 1
	Green
)

// TM marshals as text (value receiver).
type TM struct{ V string }

func (t TM) MarshalText() ([]byte, error) { return []byte("tm:" + t.V), nil }

// PTM marshals as text (pointer receiver).
type PTM struct{ V string }

func (t *PTM) MarshalText() ([]byte, error) { return []byte("ptm:" + t.V), nil }

type Leaf struct {
	Id   int64
	Name string
}

type Other struct {
	Code  string
	Color Color
}

type Either struct {
	schemabuilder.Union
	*Leaf
	*Other
}

type Inner struct {
	Flag bool
	N    int16
}

// Shapes holds one struct field per supported Go shape.
type Level8 uint8
type Blob8 []byte

type Shapes struct {
	Bool      bool
	Int       int
	Int8      int8
	Int16     int16
	Int32     int32
	Int64     int64
	Uint      uint
	Uint8     uint8
	Uint16    uint16
	Uint32    uint32
	Uint64    uint64
	Float32   float32
	Float64   float64
	String    string
	MyString  MyString
	MyInt     MyInt
	Bytes     []byte
	NilBytes  []byte
	Time      time.Time
	PString   *string
	NilString *string
	PInt64    *int64
	NilInt64  *int64
	PTime     *time.Time
	NilTime   *time.Time
	Color     Color
	Strings   []string
	NilStrs   []string
	Levels    []Level8 // a list of a named uint8: advertised as a list, not as the bytes scalar
	NamedBlob Blob8    // a named byte slice: likewise a list of uint8
	Int32s    []int32
	PStrings  []*string
	Leaf      *Leaf
	NilLeaf   *Leaf
	Inner     Inner
	Leaves    []*Leaf
	NilLeaves []*Leaf
	InnerList []Inner
	Either    *Either
	NilEither *Either
	Eithers   []*Either
	TM        TM
	PTM       *PTM
	NilPTM    *PTM
	Colors    []Color
	Skipped   string `graphql:"-"`
	unexported int
}

func sp(s string) *string { return &s }
func ip(i int64) *int64   { return &i }

var t0 = time.Date(2020, 1, 2, 3, 4, 5, 0, time.UTC)

// NewShapes returns the gallery's data.
func NewShapes() *Shapes {
	l1, l2 := &Leaf{Id: 1, Name: "one"}, &Leaf{Id: 2, Name: "two"}
	return &Shapes{
		Bool: true, Int: -1, Int8: -8, Int16: 16, Int32: -32, Int64: 1 << 40, Uint: 1, Uint8: 255, Uint16: 65535, Uint32: 1 << 31,
		Uint64: 1 << 50, Float32: 1.5, Float64: -2.25, String: "s", MyString: "ms", MyInt: 7, Bytes: []byte("hi"), Time: t0,
		PString: sp("ps"), PInt64: ip(64), PTime: &t0, Color: Green, Strings: []string{"a", "b"}, PStrings: []*string{sp("x"), nil},
		Leaf: l1, Inner: Inner{Flag: true, N: 3}, Leaves: []*Leaf{l1, nil, l2}, InnerList: []Inner{{N: 1}, {N: 2}},
		Either: &Either{Leaf: l2}, Eithers: []*Either{{Leaf: l1}, {Other: &Other{Code: "c", Color: Red}}, nil},
		TM: TM{"v"}, PTM: &PTM{"p"}, Colors: []Color{Red, Green},
		Levels: []Level8{1, 2, 200}, NamedBlob: Blob8{7, 8}, Int32s: []int32{-1, 5},
	}
}

type Args struct {
	N int64
}

// Build builds the gallery schema.
func Build() *schemabuilder.Schema {
	s := schemabuilder.NewSchema()
	s.Enum(Color(0), map[string]Color{"RED": Red, "GREEN": Green})
	data := NewShapes()
	q := s.Query()
	q.FieldFunc("shapes", func() *Shapes { return data })
	q.FieldFunc("shapeList", func() []*Shapes { return []*Shapes{data, nil} })
	q.FieldFunc("nothing", func() *Shapes { return nil })

	sh := s.Object("Shapes", Shapes{})
	// every signature form
	sh.FieldFunc("m0", func() string { return "m0" })
	sh.FieldFunc("mCtx", func(ctx context.Context) int64 { return 1 })
	sh.FieldFunc("mSrc", func(x *Shapes) *Leaf { return x.Leaf })
	sh.FieldFunc("mCtxSrcErr", func(ctx context.Context, x *Shapes) ([]*Leaf, error) { return x.Leaves, nil })
	sh.FieldFunc("mArgs", func(x *Shapes, a Args) int64 { return a.N + 1 })
	sh.FieldFunc("mAll", func(ctx context.Context, x *Shapes, a Args, ss *graphql.SelectionSet) (*Leaf, error) {
		return &Leaf{Id: a.N, Name: "arg"}, nil
	})
	sh.FieldFunc("mErrOnly", func(x *Shapes) error { return nil })
	sh.FieldFunc("mNonNull", func(x *Shapes) *Leaf { return x.Leaf }, schemabuilder.NonNullable)
	sh.FieldFunc("mNil", func(x *Shapes) *Leaf { return nil })
	sh.FieldFunc("mExpensive", func(x *Shapes) *Other { return &Other{Code: "e", Color: Red} }, schemabuilder.Expensive)
	sh.FieldFunc("mUnion", func(x *Shapes) *Either { return &Either{Other: &Other{Code: "u", Color: Green}} })
	sh.FieldFunc("mEnum", func(x *Shapes) Color { return Red })
	sh.FieldFunc("mEnums", func(x *Shapes) []Color { return []Color{Green} })
	sh.FieldFunc("mPaged", func(x *Shapes) []*Leaf { return []*Leaf{{Id: 1, Name: "one"}, {Id: 2, Name: "two"}, {Id: 3, Name: "three"}} },
		schemabuilder.Paginated)
	sh.FieldFunc("mListNN", func(x *Shapes) []*Leaf { return []*Leaf{{Id: 9, Name: "nine"}} }, schemabuilder.ListEntryNonNullable)
	sh.BatchFieldFunc("mBatch", func(ctx context.Context, m map[batch.Index]*Shapes) (map[batch.Index]*Leaf, error) {
		out := map[batch.Index]*Leaf{}
		for i, x := range m {
			out[i] = x.Leaf
		}
		return out, nil
	})
	sh.BatchFieldFunc("mBatchMissing", func(ctx context.Context, m map[batch.Index]*Shapes) (map[batch.Index]*Leaf, error) {
		return map[batch.Index]*Leaf{}, nil // no entry for anybody
	})
	// batch results with no entry for a source, for scalar kinds whose Go type is a slice or a value
	sh.BatchFieldFunc("mBatchBytesMissing", func(m map[batch.Index]*Shapes) map[batch.Index][]byte {
		return map[batch.Index][]byte{}
	})
	sh.BatchFieldFunc("mBatchStringMissing", func(m map[batch.Index]*Shapes) map[batch.Index]string {
		return map[batch.Index]string{}
	})
	sh.BatchFieldFunc("mBatchBytes", func(m map[batch.Index]*Shapes) map[batch.Index][]byte {
		out := map[batch.Index][]byte{}
		for i := range m {
			out[i] = []byte("bb")
		}
		return out
	})
	sh.BatchFieldFunc("mBatchScalar", func(m map[batch.Index]*Shapes) map[batch.Index]string {
		out := map[batch.Index]string{}
		for i := range m {
			out[i] = "bs"
		}
		return out
	})
	sh.BatchFieldFuncWithFallback("mFallback",
		func(ctx context.Context, m map[batch.Index]*Shapes) (map[batch.Index]*Other, error) {
			out := map[batch.Index]*Other{}
			for i := range m {
				out[i] = &Other{Code: "b", Color: Red}
			}
			return out, nil
		},
		func(ctx context.Context, x *Shapes) (*Other, error) { return &Other{Code: "f", Color: Green}, nil },
		func(context.Context) bool { return false })

	leaf := s.Object("Leaf", Leaf{})
	leaf.Key("id")
	leaf.FieldFunc("upper", func(l *Leaf) string { return fmt.Sprint(l.Name, "!") })
	s.Object("Other", Other{})
	s.Object("Inner", Inner{})
	s.Mutation()
	return s
}

// Advertised returns the introspection JSON of the gallery and the executable schema.
func Advertised() ([]byte, *graphql.Schema, error) {
	sb := Build()
	js, err := introspection.ComputeSchemaJSON(*sb)
	if err != nil {
		return nil, nil, err
	}
	return js, sb.MustBuild(), nil
}

// FixedArgs gives, for the fields that take arguments, the argument text the generator uses.
var FixedArgs = map[string]string{"Shapes.mArgs": "(n: 4)", "Shapes.mAll": "(n: 5)"}
