// Package argzoo is the "argument gallery": one echo field per argument shape the
// schema builder supports. Each resolver returns a canonical JSON rendering of the Go
// value it received and counts its invocations, so that C18 can compare what arrived
// with what was sent, whatever the transport (literal, variable, variable default).
package argzoo

import (
	"encoding/base64"
	"encoding/json"
	"fmt"
	"reflect"
	"sync"
	"time"

	"github.com/samsarahq/thunder/graphql"
	"github.com/samsarahq/thunder/graphql/schemabuilder"
)

type MyString string
type MyInt int32
type Color int

const (
	Red Color = iota + 1
	Green
)

var colorNames = map[Color]string{Red: "RED", Green: "GREEN"}

// TU is filled through encoding.TextUnmarshaler.
type TU struct{ V string }

func (t *TU) UnmarshalText(b []byte) error {
	if len(b) > 0 && b[0] == '!' {
		return fmt.Errorf("bad text")
	}
	t.V = "tu:" + string(b)
	return nil
}

type Inner struct {
	A int64
	B *string
	C []int32
}

// Canon renders an argument value canonically (as JSON-like Go data).
func Canon(v reflect.Value) interface{} {
	switch x := v.Interface().(type) {
	case time.Time:
		return x.UTC().Format(time.RFC3339Nano)
	case []byte:
		if x == nil {
			return nil
		}
		return base64.StdEncoding.EncodeToString(x)
	case Color:
		if n, ok := colorNames[x]; ok {
			return n
		}
		return fmt.Sprintf("Color(%d)", int(x))
	case TU:
		return x.V
	}
	switch v.Kind() {
	case reflect.Ptr:
		if v.IsNil() {
			return nil
		}
		return Canon(v.Elem())
	case reflect.Slice:
		if v.IsNil() {
			return nil
		}
		out := make([]interface{}, v.Len())
		for i := range out {
			out[i] = Canon(v.Index(i))
		}
		return out
	case reflect.Struct:
		m := map[string]interface{}{}
		for i := 0; i < v.NumField(); i++ {
			name := v.Type().Field(i).Name
			m[string(name[0]|0x20)+name[1:]] = Canon(v.Field(i))
		}
		return m
	case reflect.Int, reflect.Int8, reflect.Int16, reflect.Int32, reflect.Int64:
		return json.Number(fmt.Sprint(v.Int()))
	case reflect.Uint, reflect.Uint8, reflect.Uint16, reflect.Uint32, reflect.Uint64:
		return json.Number(fmt.Sprint(v.Uint()))
	case reflect.Float32:
		return float64(float32(v.Float()))
	}
	return v.Interface()
}

// Counter counts resolver runs per field.
type Counter struct {
	mu sync.Mutex
	N  map[string]int
}

func (c *Counter) bump(f string) {
	c.mu.Lock()
	c.N[f]++
	c.mu.Unlock()
}

func (c *Counter) Get(f string) int {
	c.mu.Lock()
	defer c.mu.Unlock()
	return c.N[f]
}

// TypeDesc describes an argument type for Args.tla.
type TypeDesc struct {
	K      string              `json:"k"` // int | float | bool | string | enum | bytes | time | text | ptr | opt | list | obj
	Of     *TypeDesc           `json:"of,omitempty"`
	Fields map[string]TypeDesc `json:"fields,omitempty"`
	Names  []string            `json:"names"` // field names of an obj (sorted), enum values of an enum
	Bits   int                 `json:"bits"`  // width for int kinds (0 = n/a); negative = unsigned
}

func td(k string) TypeDesc         { return TypeDesc{K: k, Names: []string{}} }
func tint(bits int) TypeDesc       { return TypeDesc{K: "int", Bits: bits, Names: []string{}} }
func of(k string, t TypeDesc) TypeDesc { return TypeDesc{K: k, Of: &t, Names: []string{}} }

var innerDesc = TypeDesc{K: "obj", Names: []string{"a", "b", "c"}, Fields: map[string]TypeDesc{
	"a": tint(64), "b": of("ptr", td("string")), "c": of("list", tint(32))}}

// Node is a self-referential input object; the fields after the self-reference matter (a parser built while the
// type is still being walked must not stop at it).
type Node struct {
	Children []*Node
	Weight   int64
	Label    *string
}

// nodeDesc unrolls the recursive type to the depth the values reach: at the deepest level only [] and [null] are
// lists of children (an enum without values has no good value).
func nodeDesc(depth int) TypeDesc {
	child := TypeDesc{K: "enum", Names: []string{}}
	if depth > 0 {
		child = nodeDesc(depth - 1)
	}
	return TypeDesc{K: "obj", Names: []string{"children", "label", "weight"}, Fields: map[string]TypeDesc{
		"children": of("list", of("ptr", child)), "weight": tint(64), "label": of("ptr", td("string"))}}
}

// Fields maps echo field name -> description of its argument x.
var Fields = map[string]TypeDesc{}

func echo[T any](q *schemabuilder.Object, c *Counter, name string, d TypeDesc) {
	Fields[name] = d
	q.FieldFunc(name, func(args struct{ X T }) (string, error) {
		c.bump(name)
		b, err := json.Marshal(Canon(reflect.ValueOf(args.X)))
		return string(b), err
	})
}

func echoOpt[T any](q *schemabuilder.Object, c *Counter, name string, d TypeDesc) {
	Fields[name] = of("opt", d)
	q.FieldFunc(name, func(args struct {
		X T `graphql:",optional"`
	}) (string, error) {
		c.bump(name)
		b, err := json.Marshal(Canon(reflect.ValueOf(args.X)))
		return string(b), err
	})
}

// Build builds the argument gallery.
func Build() (*graphql.Schema, *Counter) {
	c := &Counter{N: map[string]int{}}
	s := schemabuilder.NewSchema()
	s.Enum(Color(0), map[string]Color{"RED": Red, "GREEN": Green})
	q := s.Query()
	enum := TypeDesc{K: "enum", Names: []string{"GREEN", "RED"}}
	echo[int64](q, c, "echoI64", tint(64))
	echo[int32](q, c, "echoI32", tint(32))
	echo[int16](q, c, "echoI16", tint(16))
	echo[int8](q, c, "echoI8", tint(8))
	echo[int](q, c, "echoInt", tint(64))
	echo[uint](q, c, "echoU", tint(-64))
	echo[uint8](q, c, "echoU8", tint(-8))
	echo[uint16](q, c, "echoU16", tint(-16))
	echo[uint32](q, c, "echoU32", tint(-32))
	echo[uint64](q, c, "echoU64", tint(-64))
	echo[float32](q, c, "echoF32", td("float"))
	echo[float64](q, c, "echoF64", td("float"))
	echo[bool](q, c, "echoBool", td("bool"))
	echo[string](q, c, "echoStr", td("string"))
	echo[MyString](q, c, "echoMyStr", td("string"))
	echo[MyInt](q, c, "echoMyInt", tint(32))
	echo[Color](q, c, "echoEnum", enum)
	echo[[]byte](q, c, "echoBytes", td("bytes"))
	echo[time.Time](q, c, "echoTime", td("time"))
	echo[TU](q, c, "echoText", td("text"))
	echo[*int64](q, c, "echoPI64", of("ptr", tint(64)))
	echo[*string](q, c, "echoPStr", of("ptr", td("string")))
	echo[*Color](q, c, "echoPEnum", of("ptr", enum))
	echo[*time.Time](q, c, "echoPTime", of("ptr", td("time")))
	echo[*bool](q, c, "echoPBool", of("ptr", td("bool")))
	echoOpt[int64](q, c, "echoOptI64", tint(64))
	echoOpt[string](q, c, "echoOptStr", td("string"))
	echoOpt[Inner](q, c, "echoOptObj", innerDesc)
	echo[Inner](q, c, "echoObj", innerDesc)
	echo[*Inner](q, c, "echoPObj", of("ptr", innerDesc))
	echo[[]int64](q, c, "echoList", of("list", tint(64)))
	echo[[]*int64](q, c, "echoPList", of("list", of("ptr", tint(64))))
	echo[[]Inner](q, c, "echoObjList", of("list", innerDesc))
	echo[[][]string](q, c, "echoListList", of("list", of("list", td("string"))))
	echo[[]Color](q, c, "echoEnumList", of("list", enum))
	echo[Node](q, c, "echoNode", nodeDesc(2))
	s.Mutation()
	return s.MustBuild(), c
}
