// Package codeczoo is the struct zoo for C13: one registered table struct with every supported kind
// of column (ints and uints of every width, floats, bool, string and named scalar types, []byte, time,
// pointers, text / binary / json encoded fields, implicit NULLs), the value classes each column is
// exercised with, and the source representations a SQL value can arrive in.
package codeczoo

import (
	"database/sql/driver"
	"encoding/binary"
	"encoding/hex"
	"math/rand"
	"fmt"
	"math"
	"strconv"
	"strings"
	"time"

	"github.com/samsarahq/thunder/sqlgen"
)

type Label string
type Level int16

// IP is stored through its text form (tag "string").
type IP struct{ A, B byte }

func (ip IP) MarshalText() ([]byte, error) { return []byte(fmt.Sprintf("%d.%d", ip.A, ip.B)), nil }
func (ip *IP) UnmarshalText(b []byte) error {
	p := strings.Split(string(b), ".")
	if len(p) != 2 {
		return fmt.Errorf("bad ip %q", b)
	}
	a, err := strconv.Atoi(p[0])
	if err != nil {
		return err
	}
	c, err := strconv.Atoi(p[1])
	if err != nil {
		return err
	}
	ip.A, ip.B = byte(a), byte(c)
	return nil
}

// Blob is stored through its binary form (tag "binary").
type Blob struct{ N int32 }

func (b Blob) MarshalBinary() ([]byte, error) {
	out := make([]byte, 4)
	binary.BigEndian.PutUint32(out, uint32(b.N))
	return out, nil
}
func (b *Blob) UnmarshalBinary(d []byte) error {
	if len(d) != 4 {
		return fmt.Errorf("bad blob length %d", len(d))
	}
	b.N = int32(binary.BigEndian.Uint32(d))
	return nil
}

// Meta is stored as JSON (tag "json").
type Meta struct {
	K string `json:"k"`
	N int    `json:"n"`
}

// VMeta converts itself (driver.Valuer / sql.Scanner, text form "k|n") and is ALSO tagged json in Row: the
// type's own conversion has to be the one used in both directions.
type VMeta struct {
	K string `json:"k"`
	N int    `json:"n"`
}

func (m VMeta) Value() (driver.Value, error) { return fmt.Sprintf("%s|%d", m.K, m.N), nil }
func (m *VMeta) Scan(src interface{}) error {
	var s string
	switch x := src.(type) {
	case string:
		s = x
	case []byte:
		s = string(x)
	default:
		return fmt.Errorf("VMeta: cannot scan %T", src)
	}
	i := strings.LastIndex(s, "|")
	if i < 0 {
		return fmt.Errorf("VMeta: not in k|n form: %q", s)
	}
	n, err := strconv.Atoi(s[i+1:])
	if err != nil {
		return err
	}
	m.K, m.N = s[:i], n
	return nil
}

type Row struct {
	Id      int64 `sql:",primary"`
	hidden  int    // unexported: not a column
	Skipped string `sql:"-"` // explicitly not a column; both sit in front of every other column
	I8      int8
	I16   int16
	I32   int32
	U8    uint8
	U16   uint16
	U32   uint32
	U64   uint64
	F32   float32
	F64   float64
	B     bool
	S     string
	L     Label
	Lv    Level
	Bytes []byte
	T     time.Time
	PI    *int64
	PS    *string
	PB    *bool
	PF    *float64
	PT    *time.Time
	PL    *Label
	Txt   IP    `sql:",string"`
	PTxt  *IP   `sql:",string"`
	Bin   Blob  `sql:",binary"`
	Js    Meta  `sql:",json"`
	PJs   *Meta `sql:",json"`
	Imp   string `sql:",implicitnull"`
	ImpI  int64  `sql:",implicitnull"`
	VJs   VMeta  `sql:",json"`
	VPl   VMeta
}

const Table = "codec"

func Schema() *sqlgen.Schema {
	s := sqlgen.NewSchema()
	s.MustRegisterType(Table, sqlgen.UniqueId, Row{})
	return s
}

// TrySchema is Schema without the panic: registration validates every column by a round trip of its zero value.
func TrySchema() (*sqlgen.Schema, error) {
	s := sqlgen.NewSchema()
	if err := s.RegisterType(Table, sqlgen.UniqueId, Row{}); err != nil {
		return nil, err
	}
	return s, nil
}

// Col describes one column for the TLA+ side: its value classes and the source forms of its SQL value.
type Col struct {
	Name  string   `json:"name"`
	Kind  string   `json:"kind"` // int | uint | float | bool | text | bytes | time | encoded
	Bits  int      `json:"bits"`
	Vals  []string `json:"vals"`
	Forms []string `json:"forms"`
}

var intVals = map[int][]string{8: {"0", "1", "-1", "-128", "127"}, 16: {"0", "1", "-1", "-32768", "32767"},
	32: {"0", "1", "-1", "-2147483648", "2147483647"}, 64: {"0", "1", "-1", "-9223372036854775808", "9223372036854775807"}}
var uintVals = map[int][]string{8: {"0", "1", "200", "255"}, 16: {"0", "1", "40000", "65535"}, 32: {"0", "1", "3000000000", "4294967295"},
	64: {"0", "1", "9223372036854775807", "9223372036854775808", "18446744073709551615"}}
var intForms = []string{"native", "bytes", "string", "binlog"}
var times = []string{"zero", "2020-01-02 03:04:05", "1999-12-31 23:59:59"}

// Cols is the case matrix.
var Cols = []Col{
	{"i8", "int", 8, intVals[8], intForms}, {"i16", "int", 16, intVals[16], intForms}, {"i32", "int", 32, intVals[32], intForms},
	{"id", "int", 64, intVals[64], intForms},
	{"u8", "uint", 8, uintVals[8], intForms}, {"u16", "uint", 16, uintVals[16], intForms}, {"u32", "uint", 32, uintVals[32], intForms},
	{"u64", "uint", 64, uintVals[64], intForms},
	{"f32", "float", 32, []string{"0", "1.5", "-2.25", "0.1", "16777216"}, []string{"native", "bytes", "string", "binlog"}},
	{"f64", "float", 64, []string{"0", "1.5", "-2.25", "0.1", "1e100"}, []string{"native", "bytes", "string", "binlog"}},
	{"b", "bool", 0, []string{"true", "false"}, []string{"native", "int64", "bytes", "binlog"}},
	{"s", "text", 0, []string{"", "a", "utf8", "123", "NULL"}, []string{"native", "bytes", "binlog"}}, // "utf8" stands for "héllo ✓"
	{"l", "text", 0, []string{"", "lbl"}, []string{"native", "bytes", "binlog"}},
	{"lv", "int", 16, []string{"0", "7", "-3"}, intForms},
	{"bytes", "bytes", 0, []string{"nil", "empty", "ab", "00ff"}, []string{"native", "string"}},
	{"t", "time", 0, times, []string{"native", "bytes", "string"}},
	{"p_i", "int", 64, []string{"nil", "0", "42"}, intForms},
	{"p_s", "text", 0, []string{"nil", "", "x"}, []string{"native", "bytes", "binlog"}},
	{"p_b", "bool", 0, []string{"nil", "true", "false"}, []string{"native", "int64", "bytes", "binlog"}},
	{"p_f", "float", 64, []string{"nil", "0", "2.5"}, []string{"native", "bytes", "binlog"}},
	{"p_t", "time", 0, []string{"nil", "2020-01-02 03:04:05"}, []string{"native", "bytes", "string"}},
	{"p_l", "text", 0, []string{"nil", "", "lbl"}, []string{"native", "bytes", "binlog"}},
	{"txt", "encoded", 0, []string{"0.0", "10.7"}, []string{"native", "string"}},
	{"p_txt", "encoded", 0, []string{"nil", "10.7"}, []string{"native", "string"}},
	{"bin", "encoded", 0, []string{"0", "258"}, []string{"native"}},
	{"js", "encoded", 0, []string{"zero", "k1"}, []string{"native", "string"}},
	{"p_js", "encoded", 0, []string{"nil", "k1"}, []string{"native", "string"}},
	{"imp", "text", 0, []string{"", "v"}, []string{"native", "bytes", "binlog"}},
	{"imp_i", "int", 64, []string{"0", "5"}, intForms},
	{"v_js", "encoded", 0, []string{"zero", "k1"}, []string{"native", "string"}},
	{"v_pl", "encoded", 0, []string{"zero", "k1"}, []string{"native", "string"}},
}

func mustInt(s string) int64 { n, _ := strconv.ParseInt(s, 10, 64); return n }
func mustUint(s string) uint64 {
	n, _ := strconv.ParseUint(s, 10, 64)
	return n
}
func mustFloat(s string) float64 { f, _ := strconv.ParseFloat(s, 64); return f }
func mustTime(s string) time.Time {
	if s == "zero" {
		return time.Time{}
	}
	t, _ := time.Parse("2006-01-02 15:04:05", s)
	return t
}

// Random draws a value (in the text form Set understands, prefixed "rand:") for column c.
func Random(r *rand.Rand, c Col) (string, bool) {
	switch c.Kind {
	case "int":
		bits := c.Bits
		n := r.Int63()
		if r.Intn(2) == 0 {
			n = -n
		}
		if bits < 64 {
			n >>= uint(64 - bits)
		}
		return "rand:" + strconv.FormatInt(n, 10), true
	case "uint":
		n := r.Uint64()
		if c.Bits < 64 {
			n >>= uint(64 - c.Bits)
		}
		return "rand:" + strconv.FormatUint(n, 10), true
	case "float":
		f := r.NormFloat64() * math.Pow(10, float64(r.Intn(12)-4))
		if c.Bits == 32 {
			f = float64(float32(f))
		}
		return "rand:" + strconv.FormatFloat(f, 'g', -1, 64), true
	case "text":
		b := make([]byte, r.Intn(6))
		for i := range b {
			b[i] = byte(32 + r.Intn(95))
		}
		return "rand:" + string(b), true
	case "bytes":
		b := make([]byte, 1+r.Intn(6))
		r.Read(b)
		return "rand:" + hex.EncodeToString(b), true
	case "time":
		return "rand:" + time.Unix(int64(r.Intn(2000000000)), 0).UTC().Format("2006-01-02 15:04:05"), true
	}
	return "", false
}

// Set puts value class v into column col of r.
func Set(r *Row, col, v string) {
	if strings.HasPrefix(v, "rand:") {
		v = v[5:]
		if col == "bytes" {
			r.Bytes, _ = hex.DecodeString(v)
			return
		}
	}
	switch col {
	case "id":
		r.Id = mustInt(v)
	case "i8":
		r.I8 = int8(mustInt(v))
	case "i16":
		r.I16 = int16(mustInt(v))
	case "i32":
		r.I32 = int32(mustInt(v))
	case "u8":
		r.U8 = uint8(mustUint(v))
	case "u16":
		r.U16 = uint16(mustUint(v))
	case "u32":
		r.U32 = uint32(mustUint(v))
	case "u64":
		r.U64 = mustUint(v)
	case "f32":
		r.F32 = float32(mustFloat(v))
	case "f64":
		r.F64 = mustFloat(v)
	case "b":
		r.B = v == "true"
	case "s":
		r.S = v
		if v == "utf8" {
			r.S = "héllo ✓"
		}
	case "l":
		r.L = Label(v)
	case "lv":
		r.Lv = Level(mustInt(v))
	case "bytes":
		switch v {
		case "nil":
			r.Bytes = nil
		case "empty":
			r.Bytes = []byte{}
		case "ab":
			r.Bytes = []byte("ab")
		default:
			r.Bytes = []byte{0, 255}
		}
	case "t":
		r.T = mustTime(v)
	case "p_i":
		if v != "nil" {
			n := mustInt(v)
			r.PI = &n
		}
	case "p_s":
		if v != "nil" {
			s := v
			r.PS = &s
		}
	case "p_b":
		if v != "nil" {
			b := v == "true"
			r.PB = &b
		}
	case "p_f":
		if v != "nil" {
			f := mustFloat(v)
			r.PF = &f
		}
	case "p_t":
		if v != "nil" {
			t := mustTime(v)
			r.PT = &t
		}
	case "p_l":
		if v != "nil" {
			l := Label(v)
			r.PL = &l
		}
	case "txt":
		_ = r.Txt.UnmarshalText([]byte(v))
	case "p_txt":
		if v != "nil" {
			ip := &IP{}
			_ = ip.UnmarshalText([]byte(v))
			r.PTxt = ip
		}
	case "bin":
		r.Bin = Blob{N: int32(mustInt(v))}
	case "js":
		if v == "k1" {
			r.Js = Meta{K: "k", N: 1}
		}
	case "p_js":
		if v == "k1" {
			r.PJs = &Meta{K: "k", N: 1}
		}
	case "v_js":
		if v == "k1" {
			r.VJs = VMeta{K: "k", N: 1}
		}
	case "v_pl":
		if v == "k1" {
			r.VPl = VMeta{K: "k", N: 1}
		}
	case "imp":
		r.Imp = v
	case "imp_i":
		r.ImpI = mustInt(v)
	default:
		panic("codeczoo: unknown column " + col)
	}
}

// Reform converts the SQL value the Valuer produced into another source representation of the same
// SQL value (ok = false: the form does not apply to this value).
func Reform(c Col, v driver.Value, form string) (interface{}, bool) {
	if v == nil {
		return nil, true // NULL is NULL in every form
	}
	text := func() string {
		switch x := v.(type) {
		case int64:
			return strconv.FormatInt(x, 10)
		case float64:
			if c.Bits == 32 {
				return strconv.FormatFloat(x, 'g', -1, 32)
			}
			return strconv.FormatFloat(x, 'g', -1, 64)
		case bool:
			if x {
				return "1"
			}
			return "0"
		case string:
			return x
		case []byte:
			return string(x)
		case time.Time:
			return x.Format("2006-01-02 15:04:05")
		}
		return fmt.Sprint(v)
	}
	switch form {
	case "native":
		return v, true
	case "bytes":
		return []byte(text()), true
	case "string":
		return text(), true
	case "int64": // TINYINT(1) as the MySQL driver hands it back
		if b, ok := v.(bool); ok {
			if b {
				return int64(1), true
			}
			return int64(0), true
		}
		return nil, false
	case "binlog": // go-mysql's replication rows: sized signed ints, float32/64, string for text
		switch x := v.(type) {
		case int64:
			switch c.Bits {
			case 8:
				return int8(x), true
			case 16:
				return int16(x), true
			case 32:
				return int32(x), true
			}
			return x, true
		case float64:
			if c.Bits == 32 {
				return float32(x), true
			}
			return x, true
		case bool:
			if x {
				return int8(1), true
			}
			return int8(0), true
		case string:
			return x, true
		case []byte:
			return string(x), true
		}
	}
	return nil, false
}

var _ = math.MaxInt64
