// Package u2: the union Any with the single member Item.
package u2

import (
	"github.com/samsarahq/thunder/graphql/schemabuilder"

	"verifharness/internal/verzoo/base"
)

type Any struct {
	schemabuilder.Union
	*base.Item
}
