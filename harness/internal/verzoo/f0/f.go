// Package f0: variant 0 of the input object ItemFilter.
package f0

type ItemFilter struct {
	Min *int64
}
