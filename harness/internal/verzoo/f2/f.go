// Package f2: variant 2 of the input object ItemFilter.
package f2

type ItemFilter struct {
	Min *int64
	Max *int64
}
