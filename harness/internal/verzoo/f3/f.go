// Package f3: variant 3 of the input object ItemFilter (a list of non-null ints).
package f3

type ItemFilter struct {
	Min *int64
	Ids []int64
}
