// Package f1: variant 1 of the input object ItemFilter.
package f1

type ItemFilter struct {
	Min int64
}
