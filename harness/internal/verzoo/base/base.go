// Package base holds the object types shared by every version in verzoo.
package base

type Item struct{ Id int64 }
type Other struct{ Id int64 }
type Kind int64
