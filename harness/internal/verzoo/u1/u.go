// Package u1: the union Any with members Item and Other.
package u1

import (
	"github.com/samsarahq/thunder/graphql/schemabuilder"

	"verifharness/internal/verzoo/base"
)

type Any struct {
	schemabuilder.Union
	*base.Item
	*base.Other
}
