// Package f4: variant 4 of the input object ItemFilter (a list of nullable ints).
package f4

type ItemFilter struct {
	Min *int64
	Ids []*int64
}
