// Package verzoo builds real schemabuilder schemas ("versions of a service") from a feature vector,
// so that C09 merges what thunder's own introspection says about real servers and validates queries
// with thunder's own PrepareQuery against each version. The vocabulary is fixed (Query.item with
// arguments id / filter / kind, Query.count, Query.any, Item.name/kind/tags, input object ItemFilter,
// enum Kind, union Any); a feature vector says which of it a version has and in which variant.
package verzoo

import (
	"context"
	"fmt"
	"math/rand"
	"reflect"

	"github.com/samsarahq/thunder/graphql"
	"github.com/samsarahq/thunder/graphql/introspection"
	"github.com/samsarahq/thunder/graphql/schemabuilder"

	"verifharness/internal/verzoo/base"
	"verifharness/internal/verzoo/f0"
	"verifharness/internal/verzoo/f1"
	"verifharness/internal/verzoo/f2"
	"verifharness/internal/verzoo/f3"
	"verifharness/internal/verzoo/f4"
	"verifharness/internal/verzoo/u1"
	"verifharness/internal/verzoo/u2"
)

// Feat is a feature vector; every component's 0 means "absent".
type Feat struct {
	Item   int `json:"item"`   // Query.item: 1 returns *Item (nullable), 2 returns Item (non-null)
	Id     int `json:"id"`     // argument id of item: 1 optional (*int64), 2 required (int64)
	Filter int `json:"filter"` // argument filter of item (optional *ItemFilter): 1 {min}, 2 {min!}, 3 {min, max}, 4 {min, ids: [int!]}, 5 {min, ids: [int]}
	Ids    int `json:"ids"`    // argument ids of item: 1 []int64, 2 []*int64
	KindA  int `json:"kinda"`  // argument kind of item: 1 optional (*Kind)
	Name   int `json:"name"`   // Item.name: 1 string (non-null), 2 *string
	Kind   int `json:"kind"`   // enum Kind and Item.kind: 1 {A,B}, 2 {A,B,C}, 3 {A,C}, 4 {B,C,D}
	Tags   int `json:"tags"`   // Item.tags: 1 []string, 2 []*string
	Any    int `json:"any"`    // Query.any: 1 union {Item, Other}, 2 union {Item}
	Count  int `json:"count"`  // Query.count: 1 int64, 2 *int64
	Items  int `json:"items"`  // Query.items: 1 []*Item, 2 []Item
}


// Random draws a feature vector; consistent() repairs dependencies (an argument needs its field, the
// kind argument and Item.kind need the enum, a version needs at least one root field).
func Random(r *rand.Rand) Feat {
	f := Feat{Item: r.Intn(3), Id: r.Intn(3), Filter: r.Intn(6), Ids: r.Intn(3), KindA: r.Intn(2), Name: r.Intn(3), Kind: r.Intn(5), Tags: r.Intn(3),
		Any: r.Intn(3), Count: r.Intn(3), Items: r.Intn(3)}
	return f.Consistent()
}

func (f Feat) Consistent() Feat {
	if f.Item == 0 {
		f.Id, f.Filter, f.KindA, f.Ids = 0, 0, 0, 0
	}
	if f.Kind == 0 {
		f.KindA = 0
	}
	if f.Item == 0 && f.Any == 0 && f.Count == 0 && f.Items == 0 {
		f.Count = 1
	}
	return f
}

// Mutate changes one component (a version differs from its predecessor by little).
func (f Feat) Mutate(r *rand.Rand) Feat {
	switch r.Intn(11) {
	case 10:
		f.Ids = r.Intn(3)
	case 0:
		f.Item = r.Intn(3)
	case 1:
		f.Id = r.Intn(3)
	case 2:
		f.Filter = r.Intn(6)
	case 3:
		f.KindA = r.Intn(2)
	case 4:
		f.Name = r.Intn(3)
	case 5:
		f.Kind = r.Intn(5)
	case 6:
		f.Tags = r.Intn(3)
	case 7:
		f.Any = r.Intn(3)
	case 8:
		f.Count = r.Intn(3)
	default:
		f.Items = r.Intn(3)
	}
	return f.Consistent()
}

// regItem registers Query.item returning R with an argument struct assembled from the feature vector.
func regItem(q *schemabuilder.Object, f Feat, ret reflect.Type) error {
	var fs []reflect.StructField
	add := func(name string, t reflect.Type) { fs = append(fs, reflect.StructField{Name: name, Type: t}) }
	switch f.Id {
	case 1:
		add("Id", reflect.TypeOf((*int64)(nil)))
	case 2:
		add("Id", reflect.TypeOf(int64(0)))
	}
	switch f.Filter {
	case 1:
		add("Filter", reflect.TypeOf((*f0.ItemFilter)(nil)))
	case 2:
		add("Filter", reflect.TypeOf((*f1.ItemFilter)(nil)))
	case 3:
		add("Filter", reflect.TypeOf((*f2.ItemFilter)(nil)))
	case 4:
		add("Filter", reflect.TypeOf((*f3.ItemFilter)(nil)))
	case 5:
		add("Filter", reflect.TypeOf((*f4.ItemFilter)(nil)))
	}
	if f.KindA == 1 {
		add("Kind", reflect.TypeOf((*base.Kind)(nil)))
	}
	switch f.Ids {
	case 1:
		add("Ids", reflect.TypeOf([]int64(nil)))
	case 2:
		add("Ids", reflect.TypeOf([]*int64(nil)))
	}
	ctxT := reflect.TypeOf((*context.Context)(nil)).Elem()
	in := []reflect.Type{ctxT}
	if len(fs) > 0 {
		in = append(in, reflect.StructOf(fs))
	}
	fn := reflect.MakeFunc(reflect.FuncOf(in, []reflect.Type{ret}, false), func([]reflect.Value) []reflect.Value {
		return []reflect.Value{reflect.Zero(ret)}
	})
	q.FieldFunc("item", fn.Interface())
	return nil
}

// Build makes the real thunder schema of the version described by f (introspection added, as a
// federation server would serve it).
func Build(f Feat) (schema *graphql.Schema, err error) {
	defer func() {
		if p := recover(); p != nil {
			err = fmt.Errorf("building %+v: %v", f, p)
		}
	}()
	s := schemabuilder.NewSchema()
	q := s.Query()
	s.Mutation()
	if f.Kind > 0 {
		vals := map[string]base.Kind{"A": 0, "B": 1}
		switch f.Kind {
		case 2:
			vals["C"] = 2
		case 3:
			vals = map[string]base.Kind{"A": 0, "C": 2}
		case 4:
			vals = map[string]base.Kind{"B": 1, "C": 2, "D": 3}
		}
		s.Enum(base.Kind(0), vals)
	}
	item := s.Object("Item", base.Item{})
	switch f.Name {
	case 1:
		item.FieldFunc("name", func(x *base.Item) string { return "n" })
	case 2:
		item.FieldFunc("name", func(x *base.Item) *string { return nil })
	}
	if f.Kind > 0 {
		item.FieldFunc("kind", func(x *base.Item) base.Kind { return 0 })
	}
	switch f.Tags {
	case 1:
		item.FieldFunc("tags", func(x *base.Item) []string { return nil })
	case 2:
		item.FieldFunc("tags", func(x *base.Item) []*string { return nil })
	}
	switch f.Item {
	case 1:
		if err := regItem(q, f, reflect.TypeOf((*base.Item)(nil))); err != nil {
			return nil, err
		}
	case 2:
		if err := regItem(q, f, reflect.TypeOf(base.Item{})); err != nil {
			return nil, err
		}
	}
	switch f.Items {
	case 1:
		q.FieldFunc("items", func() []*base.Item { return nil })
	case 2:
		q.FieldFunc("items", func() []base.Item { return nil })
	}
	switch f.Count {
	case 1:
		q.FieldFunc("count", func() int64 { return 1 })
	case 2:
		q.FieldFunc("count", func() *int64 { return nil })
	}
	switch f.Any {
	case 1:
		s.Object("Other", base.Other{})
		q.FieldFunc("any", func() *u1.Any { return nil })
	case 2:
		q.FieldFunc("any", func() *u2.Any { return nil })
	}
	schema, err = s.Build()
	if err != nil {
		return nil, err
	}
	introspection.AddIntrospectionToSchema(schema)
	return schema, nil
}
