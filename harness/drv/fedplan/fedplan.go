// Package fedplan asks thunder's real federation planner for the plan of every (ownership, query) case
// the planner model Fed.tla was checked on, and records it in the model's vocabulary (service, type,
// local selection tree, sub-plans with their paths) so that Fed_Trace2.tla can compare it with the
// model's own Plan.
package fedplan

import (
	"context"
	"encoding/json"
	"flag"
	"fmt"
	"os"
	"sort"
	"strings"

	"github.com/samsarahq/thunder/federation"
	"github.com/samsarahq/thunder/graphql"
	"github.com/samsarahq/thunder/graphql/schemabuilder"

	"verifharness/internal/fedzoo"
	tj "verifharness/internal/tagjson"
)

type Sel struct {
	F   string `json:"f"`
	Sub []Sel  `json:"sub"`
}
type After struct {
	Path []string `json:"path"`
	Plan Plan     `json:"plan"`
}
type Plan struct {
	Svc   string  `json:"svc"`
	T     string  `json:"t"`
	Local []Sel   `json:"local"`
	After []After `json:"after"`
}
type Case struct {
	Owner map[string]string `json:"owner"`
	Q     []Sel             `json:"q"`
}
type Rec struct {
	Case
	Text string `json:"text"`
	Ok   bool   `json:"ok"`
	Err  string `json:"err"`
	Plan Plan   `json:"plan"`
}

func render(sels []Sel) string {
	var b strings.Builder
	b.WriteString("{")
	for _, s := range sels {
		b.WriteString(" " + s.F)
		if len(s.Sub) > 0 {
			b.WriteString(" " + render(s.Sub))
		}
	}
	b.WriteString(" }")
	return b.String()
}

func absSels(ss *graphql.SelectionSet) []Sel {
	out := []Sel{}
	if ss == nil {
		return out
	}
	for _, s := range ss.Selections {
		x := Sel{F: s.Alias, Sub: []Sel{}}
		if s.Name != "_federation" {
			x.Sub = absSels(s.SelectionSet)
		}
		out = append(out, x)
	}
	sort.Slice(out, func(i, j int) bool { return out[i].F < out[j].F })
	return out
}

func absPlan(p *federation.Plan) Plan {
	out := Plan{Svc: p.Service, T: p.Type, Local: absSels(p.SelectionSet), After: []After{}}
	if p.Service == "gateway-coordinator-service" {
		out.Svc = "gateway"
	}
	for _, a := range p.After {
		path := []string{}
		for _, st := range a.Path {
			path = append(path, st.Name)
		}
		out.After = append(out.After, After{Path: path, Plan: absPlan(a)})
	}
	return out
}

// planners are cached per ownership
var planners = map[string]*federation.Planner{}

func plannerFor(owner map[string]string) (*federation.Planner, error) {
	key := fmt.Sprint(owner)
	if p, ok := planners[key]; ok {
		return p, nil
	}
	part := fedzoo.Partition{}
	for _, f := range fedzoo.Fields {
		if s, ok := owner[f]; ok {
			part[f] = []string{s}
		} else {
			part[f] = []string{"s1"}
		}
	}
	execs := map[string]federation.ExecutorClient{}
	for _, svc := range fedzoo.Services {
		s := schemabuilder.NewSchemaWithName(svc)
		if !fedzoo.BuildInto(s, part, svc) {
			continue
		}
		srv, err := federation.NewServer(s.MustBuild())
		if err != nil {
			return nil, err
		}
		execs[svc] = &federation.DirectExecutorClient{Client: srv}
	}
	p, _, err := federation.VerifPlannerWithSelector(context.Background(), execs, nil)
	if err != nil {
		return nil, err
	}
	planners[key] = p
	return p, nil
}

// Main: vh fedplan -cases cases.ndjson -out recs.ndjson
func Main(args []string) error {
	fs := flag.NewFlagSet("fedplan", flag.ContinueOnError)
	cases := fs.String("cases", "", "")
	out := fs.String("out", "", "")
	if err := fs.Parse(args); err != nil {
		return err
	}
	f, err := os.Open(*cases)
	if err != nil {
		return err
	}
	defer f.Close()
	w, err := tj.NewWriter(*out)
	if err != nil {
		return err
	}
	dec := json.NewDecoder(f)
	for dec.More() {
		var c Case
		if err := dec.Decode(&c); err != nil {
			return err
		}
		rec := Rec{Case: c, Text: render(c.Q), Plan: Plan{Local: []Sel{}, After: []After{}}}
		p, err := plannerFor(c.Owner)
		if err == nil {
			var q *graphql.Query
			q, err = graphql.Parse(rec.Text, map[string]interface{}{})
			if err == nil {
				var pl *federation.Plan
				pl, err = federation.VerifPlan(p, q)
				if err == nil {
					rec.Ok, rec.Plan = true, absPlan(pl)
				}
			}
		}
		if err != nil {
			rec.Err = err.Error()
		}
		w.Write(rec)
	}
	return w.Close()
}
