// Package c18 sends every (echo field, value) case of the argument gallery to the real
// Parse/PrepareQuery/Execute by literal, by variable and by variable default, and records
// what the resolver received (or how the request was rejected) for Args_Trace.tla.
package c18

import (
	"bufio"
	"encoding/base64"
	"context"
	"encoding/json"
	"flag"
	"fmt"
	"math/rand"
	"os"
	"sort"
	"strings"

	"github.com/samsarahq/thunder/graphql"

	"verifharness/internal/argzoo"
	tj "verifharness/internal/tagjson"
)

type Case struct {
	F string `json:"f"`
	J tj.T   `json:"j"`
}

type Rec struct {
	F         string `json:"f"`
	J         tj.T   `json:"j"`
	Transport string `json:"transport"`
	Text      string `json:"text"`
	Vars      string `json:"vars"`
	Outcome   string `json:"outcome"` // ok | client_error | other_error | crash
	Err       string `json:"err"`
	Echo      tj.T   `json:"echo"`
	Runs      int    `json:"runs"`
}

// literal renders a tagged JSON value as a GraphQL literal for argument type d.
// literalVars renders t like literal, except that every element of every list is a variable of its own
// ([$e0, $e1], {inner: [$e2]}); vars receives their values. n counts the variables.
func literalVars(t tj.T, d argzoo.TypeDesc, vars map[string]interface{}, n *int) string {
	for d.K == "ptr" || d.K == "opt" {
		d = *d.Of
	}
	switch t.K {
	case "a":
		var parts []string
		for _, e := range *t.A {
			name := fmt.Sprintf("e%d", *n)
			*n++
			vars[name] = e.To()
			parts = append(parts, "$"+name)
		}
		return "[" + strings.Join(parts, ", ") + "]"
	case "o":
		var parts []string
		for _, k := range t.Keys() {
			fd := argzoo.TypeDesc{K: "string"}
			if d.K == "obj" {
				if x, ok := d.Fields[k]; ok {
					fd = x
				}
			}
			parts = append(parts, k+": "+literalVars((*t.M)[k], fd, vars, n))
		}
		return "{" + strings.Join(parts, ", ") + "}"
	}
	return literal(t, d)
}

func literal(t tj.T, d argzoo.TypeDesc) string {
	for d.K == "ptr" || d.K == "opt" {
		d = *d.Of
	}
	switch t.K {
	case "n":
		return "null"
	case "b", "i":
		return *t.S
	case "s":
		if d.K == "enum" {
			return *t.S // enum literals are bare names
		}
		b, _ := json.Marshal(*t.S)
		return string(b)
	case "a":
		var parts []string
		of := d
		if d.K == "list" {
			of = *d.Of
		}
		for _, e := range *t.A {
			parts = append(parts, literal(e, of))
		}
		return "[" + strings.Join(parts, ", ") + "]"
	case "o":
		var parts []string
		for _, k := range t.Keys() {
			fd := argzoo.TypeDesc{K: "string"}
			if d.K == "obj" {
				if x, ok := d.Fields[k]; ok {
					fd = x
				}
			}
			parts = append(parts, k+": "+literal((*t.M)[k], fd))
		}
		return "{" + strings.Join(parts, ", ") + "}"
	}
	return "null"
}

func hasNull(t tj.T) bool {
	switch t.K {
	case "n":
		return true
	case "a":
		for _, e := range *t.A {
			if hasNull(e) {
				return true
			}
		}
	case "o":
		for _, e := range *t.M {
			if hasNull(e) {
				return true
			}
		}
	}
	return false
}

func runOne(schema *graphql.Schema, c *argzoo.Counter, f, text string, vars map[string]interface{}) (r Rec) {
	r.Echo = tj.T{K: "n"}
	before := c.Get(f)
	defer func() {
		if p := recover(); p != nil {
			r.Outcome, r.Err = "crash", fmt.Sprint(p)
		}
		r.Runs = c.Get(f) - before
	}()
	fail := func(err error) {
		r.Err = err.Error()
		if _, ok := err.(graphql.SanitizedError); ok {
			r.Outcome = "client_error"
		} else {
			r.Outcome = "other_error"
		}
	}
	q, err := graphql.Parse(text, vars)
	if err != nil {
		fail(err)
		return
	}
	if err := graphql.PrepareQuery(context.Background(), schema.Query, q.SelectionSet); err != nil {
		fail(err)
		return
	}
	val, err := graphql.NewExecutor(graphql.NewImmediateGoroutineScheduler()).Execute(context.Background(), schema.Query, nil, q)
	if err != nil {
		fail(err)
		return
	}
	s, _ := val.(map[string]interface{})["r"].(string)
	t, err := tj.FromJSON([]byte(s))
	if err != nil {
		r.Outcome, r.Err = "other_error", "echo is not JSON: "+s
		return
	}
	r.Outcome, r.Echo = "ok", t
	return
}

// Main: vh c18 -types argtypes.json | -cases cases.ndjson -out recs.ndjson -seed 1
func Main(args []string) error {
	fs := flag.NewFlagSet("c18", flag.ContinueOnError)
	typesOut := fs.String("types", "", "write the argument type descriptions here")
	cases := fs.String("cases", "", "ndjson of {f, j} cases (from Args_Gen)")
	out := fs.String("out", "", "")
	seed := fs.Int64("seed", 1, "")
	nrand := fs.Int("rand", 0, "extra seeded random cases")
	if err := fs.Parse(args); err != nil {
		return err
	}
	schema, counter := argzoo.Build()
	if *typesOut != "" {
		b, _ := json.Marshal(argzoo.Fields)
		if err := os.WriteFile(*typesOut, b, 0o644); err != nil {
			return err
		}
	}
	if *cases == "" {
		return nil
	}
	f, err := os.Open(*cases)
	if err != nil {
		return err
	}
	defer f.Close()
	w, err := tj.NewWriter(*out)
	if err != nil {
		return err
	}
	r := rand.New(rand.NewSource(*seed))
	var all []Case
	sc := bufio.NewScanner(f)
	sc.Buffer(make([]byte, 1<<20), 1<<24)
	for sc.Scan() {
		var c Case
		if err := json.Unmarshal(sc.Bytes(), &c); err != nil {
			return err
		}
		all = append(all, c)
	}
	// seeded random cases on top of the TLC-enumerated matrix
	var fnames []string
	for n := range argzoo.Fields {
		fnames = append(fnames, n)
	}
	sort.Strings(fnames)
	for i := 0; i < *nrand; i++ {
		fn := fnames[r.Intn(len(fnames))]
		all = append(all, Case{F: fn, J: randVal(argzoo.Fields[fn], r, 0)})
	}
	sort.SliceStable(all, func(i, j int) bool { return all[i].F < all[j].F })
	for _, c := range all {
		d := argzoo.Fields[c.F]
		emit := func(transport, text string, vars map[string]interface{}) {
			rec := runOne(schema, counter, c.F, text, vars)
			vb, _ := json.Marshal(vars)
			rec.F, rec.J, rec.Transport, rec.Text, rec.Vars = c.F, c.J, transport, text, string(vb)
			w.Write(rec)
		}
		absent := c.J.K == "absent"
		// literal (the old graphql-go grammar has no null literal: null only travels by variable / omission)
		if absent {
			emit("literal", fmt.Sprintf("{ r: %s }", c.F), nil)
		} else if !hasNull(c.J) {
			emit("literal", fmt.Sprintf("{ r: %s(x: %s) }", c.F, literal(c.J, d)), nil)
		}
		// variable
		if absent {
			emit("variable", fmt.Sprintf("query Q($v: T) { r: %s(x: $v) }", c.F), map[string]interface{}{})
		} else {
			emit("variable", fmt.Sprintf("query Q($v: T) { r: %s(x: $v) }", c.F), map[string]interface{}{"v": c.J.To()})
		}
		// variable default: used exactly when no non-null value is supplied
		if !absent && !hasNull(c.J) {
			lit := literal(c.J, d)
			emit("default", fmt.Sprintf("query Q($v: T = %s) { r: %s(x: $v) }", lit, c.F), map[string]interface{}{})
			emit("default_null", fmt.Sprintf("query Q($v: T = %s) { r: %s(x: $v) }", lit, c.F), map[string]interface{}{"v": nil})
		}
		// a list literal whose elements are variables (also inside an object literal)
		if !absent && !hasNullOutsideLists(c.J) {
			vars := map[string]interface{}{}
			n := 0
			text := literalVars(c.J, d, vars, &n)
			if n > 0 {
				var decl []string
				for i := 0; i < n; i++ {
					decl = append(decl, fmt.Sprintf("$e%d: T", i))
				}
				emit("list_element_variables", fmt.Sprintf("query Q(%s) { r: %s(x: %s) }", strings.Join(decl, ", "), c.F, text), vars)
			}
		}
		// the same through a named fragment (its arguments are parsed apart from the operation's) and an inline one
		for _, fq := range [][2]string{{"frag", "{ ...F } fragment F on Query { r: %[1]s(x: %[2]s) }"}, {"inline", "{ ... on Query { r: %[1]s(x: %[2]s) } }"}} {
			if absent {
				emit(fq[0]+"_variable", fmt.Sprintf("query Q($v: T) "+fq[1], c.F, "$v"), map[string]interface{}{})
			} else {
				emit(fq[0]+"_variable", fmt.Sprintf("query Q($v: T) "+fq[1], c.F, "$v"), map[string]interface{}{"v": c.J.To()})
			}
			if !absent && !hasNull(c.J) {
				lit := literal(c.J, d)
				emit(fq[0]+"_literal", fmt.Sprintf(fq[1], c.F, lit), nil)
				emit(fq[0]+"_default", fmt.Sprintf("query Q($v: T = %[3]s) "+fq[1], c.F, "$v", lit), map[string]interface{}{})
				emit(fq[0]+"_default_null", fmt.Sprintf("query Q($v: T = %[3]s) "+fq[1], c.F, "$v", lit), map[string]interface{}{"v": nil})
			}
		}
		if !absent && c.J.K != "n" {
			// a supplied non-null value wins over the default
			other := map[string]string{"i": "12345", "s": "\"other\"", "b": "false", "a": "[]", "o": "{zzz: 1}"}[c.J.K]
			if c.J.K == "b" && *c.J.S == "false" {
				other = "true"
			}
			emit("default_overridden", fmt.Sprintf("query Q($v: T = %s) { r: %s(x: $v) }", other, c.F), map[string]interface{}{"v": c.J.To()})
		}
	}
	return w.Close()
}

// hasNullOutsideLists: a null that is not a list element cannot be written as a literal (list elements travel by variable here)
func hasNullOutsideLists(t tj.T) bool {
	switch t.K {
	case "n":
		return true
	case "o":
		for _, v := range *t.M {
			if hasNullOutsideLists(v) {
				return true
			}
		}
	}
	return false
}

func tstr(k, s string) tj.T { return tj.T{K: k, S: &s} }

// randVal draws a (mostly well-typed) value for argument type d.
func randVal(d argzoo.TypeDesc, r *rand.Rand, depth int) tj.T {
	if depth == 0 && r.Intn(12) == 0 { // a value of some wrong JSON kind now and then
		b := d
		for b.K == "ptr" || b.K == "opt" {
			b = *b.Of
		}
		switch b.K {
		case "string", "text", "bytes", "time", "enum":
			// a string would be the right kind here (its content is not what C18 is about)
			return []tj.T{tstr("b", "true"), tstr("i", "7")}[r.Intn(2)]
		}
		return []tj.T{tstr("s", "zz"), tstr("b", "true"), tstr("i", "7")}[r.Intn(3)]
	}
	switch d.K {
	case "ptr", "opt":
		if r.Intn(4) == 0 {
			return tj.T{K: "n"}
		}
		return randVal(*d.Of, r, depth+1)
	case "int":
		bits := d.Bits
		neg := bits > 0 && r.Intn(2) == 0
		if bits < 0 {
			bits = -bits
		}
		if bits > 53 {
			bits = 53
		}
		max := int64(1)<<uint(bits-1) - 1
		if d.Bits < 0 {
			max = int64(1)<<uint(bits) - 1
		}
		v := r.Int63n(max + 1)
		if neg {
			v = -v
		}
		return tstr("i", fmt.Sprint(v))
	case "float":
		return tstr("i", tj.FmtNum(float64(r.Intn(2000)-1000)/8))
	case "bool":
		return tstr("b", fmt.Sprint(r.Intn(2) == 0))
	case "string", "text":
		alphabet := []rune("ab \"\\\n\té✓z")
		n := r.Intn(6)
		out := make([]rune, n)
		for i := range out {
			out[i] = alphabet[r.Intn(len(alphabet))]
		}
		if d.K == "text" && n > 0 && out[0] == '!' {
			out[0] = 'x'
		}
		return tstr("s", string(out))
	case "enum":
		if len(d.Names) == 0 { // the "no good value" type at the bottom of an unrolled recursive type
			return tj.T{K: "n"}
		}
		return tstr("s", d.Names[r.Intn(len(d.Names))])
	case "bytes":
		b := make([]byte, r.Intn(5))
		r.Read(b)
		return tstr("s", base64Std(b))
	case "time":
		return tstr("s", fmt.Sprintf("20%02d-0%d-1%dT0%d:00:0%dZ", r.Intn(30), 1+r.Intn(9), r.Intn(9), r.Intn(9), r.Intn(9)))
	case "list":
		n := r.Intn(4)
		a := make([]tj.T, n)
		for i := range a {
			a[i] = randVal(*d.Of, r, depth+1)
		}
		return tj.T{K: "a", A: &a}
	case "obj":
		m := map[string]tj.T{}
		for _, f := range d.Names {
			fd := d.Fields[f]
			if (fd.K == "ptr" || fd.K == "opt") && r.Intn(3) == 0 {
				continue
			}
			m[f] = randVal(fd, r, depth+1)
		}
		return tj.T{K: "o", M: &m}
	}
	return tj.T{K: "n"}
}

func base64Std(b []byte) string { return base64.StdEncoding.EncodeToString(b) }
