// Package c15 attacks the request path of thunder with untrusted input and with cancellation:
//
//	cancel  - fault enumeration: one HTTP request / one federated sub-request per cancellation point
//	          of the request context (before the request, at every rerunner hook, inside a resolver,
//	          after), measuring that the call returns and leaves no goroutine behind;
//	hostile - syntactically valid GraphQL that thunder does not support or must reject, and
//	          fragment-spread bombs of width w and depth d with the number of validation steps counted;
//	random  - seeded random bytes and mutated valid texts as query, variables and envelopes.
//
// Parse_Trace.tla judges every record (outcome alphabet, step bound); OneShot.tla is the model of the
// cancellation part.
package c15

import (
	"bytes"
	"context"
	"encoding/json"
	"flag"
	"fmt"
	"github.com/samsarahq/thunder/batch"
	"math/rand"
	"net/http"
	"net/http/httptest"
	"os"
	"os/exec"
	"runtime"
	"sort"
	"strings"
	"sync"
	"sync/atomic"
	"time"

	"github.com/samsarahq/thunder/federation"
	"github.com/samsarahq/thunder/graphql"
	"github.com/samsarahq/thunder/graphql/schemabuilder"
	rx "github.com/samsarahq/thunder/reactive"
	"github.com/samsarahq/thunder/thunderpb"

	tj "verifharness/internal/tagjson"
)

type Rec struct {
	Kind     string `json:"kind"` // cancel | construct | bomb | random
	Target   string `json:"target"`
	Point    string `json:"point"`
	Name     string `json:"name"`
	Outcome  string `json:"outcome"` // ok | error | crash | hang
	Returned bool   `json:"returned"`
	Leaked   int    `json:"leaked"`
	Inflight int    `json:"inflight"` // 1: the request returned while its resolver was still working
	Late     int    `json:"late"`     // uses of the ResponseWriter after ServeHTTP returned
	Ms       int    `json:"ms"`
	W        int    `json:"w"`
	D        int    `json:"d"`
	Size     int    `json:"size"`
	PSteps   int    `json:"psteps"`
	CSteps   int    `json:"csteps"`
	Text     string `json:"text"`
	Err      string `json:"err"`
}

type T struct {
	Id   int64
	Name string
}

type U struct {
	Id    int64
	Other string
}

var resolverGate func()

func schema() *schemabuilder.Schema {
	s := schemabuilder.NewSchema()
	q := s.Query()
	q.FieldFunc("t", func(ctx context.Context) *T {
		if g := resolverGate; g != nil {
			g()
		}
		return &T{1, "one"}
	})
	q.FieldFunc("ts", func(ctx context.Context) []*T { return []*T{{1, "one"}, {2, "two"}} })
	q.FieldFunc("boom", func(ctx context.Context) (int64, error) { panic("resolver panics") })
	q.FieldFunc("echo", func(args struct{ X *int64 }) int64 {
		if args.X == nil {
			return -1
		}
		return *args.X
	})
	// a second object type with other fields: one fragment spread under both types
	q.FieldFunc("u", func(ctx context.Context) *U { return &U{7, "seven"} })
	s.Object("U", U{})
	obj := s.Object("T", T{})
	obj.FieldFunc("self", func(t *T) *T { return t })
	obj.FieldFunc("friends", func(t *T) []*T { return []*T{t} })
	m := s.Mutation()
	m.FieldFunc("noop", func() bool { return true })
	return s
}

// waitGoroutines returns how many goroutines above base are still alive after the grace period.
func waitGoroutines(base int, grace time.Duration) int {
	deadline := time.Now().Add(grace)
	for {
		n := runtime.NumGoroutine()
		if n <= base {
			return 0
		}
		if time.Now().After(deadline) {
			return n - base
		}
		time.Sleep(time.Millisecond)
	}
}

// ---- cancellation ----

var cancelPoints = []string{"before", "run.locked", "run.cleaned", "comp.new", "resolver", "resolver.busy", "run.done", "arm", "after"}

func cancelCase(target, point string, gql *graphql.Schema, fed *federation.Server) Rec {
	rec := Rec{Kind: "cancel", Target: target, Point: point}
	base := runtime.NumGoroutine()
	ctx, cancel := context.WithCancel(context.Background())
	defer cancel()
	var once sync.Once
	fire := func() { once.Do(cancel) }
	rx.VerifHook = func(p string, args ...interface{}) {
		if p == point {
			fire()
		}
	}
	var busy, late int32
	resolverGate = func() {
		if point == "resolver" {
			fire()
		}
		if point == "resolver.busy" {
			// the resolver notices the cancellation and needs a while to wind down: the request
			// must not return underneath it (OneShot.tla NoRunAfterReturn)
			atomic.StoreInt32(&busy, 1)
			fire()
			time.Sleep(150 * time.Millisecond)
			atomic.StoreInt32(&busy, 0)
		}
	}
	defer func() { rx.VerifHook = nil; resolverGate = nil }()
	if point == "before" {
		fire()
	}
	done := make(chan string, 1)
	start := time.Now()
	go func() {
		defer func() {
			if p := recover(); p != nil {
				done <- fmt.Sprint("crash: ", p)
			}
		}()
		switch target {
		case "http":
			body, _ := json.Marshal(map[string]interface{}{"query": "{ t { id name self { id } } ts { name } }", "variables": map[string]interface{}{}})
			req := httptest.NewRequest("POST", "/graphql", bytes.NewReader(body)).WithContext(ctx)
			w := &lateWriter{ResponseWriter: httptest.NewRecorder(), late: &late}
			graphql.HTTPHandler(gql).ServeHTTP(w, req)
			atomic.StoreInt32(&w.returned, 1)
			if atomic.LoadInt32(&busy) == 1 {
				rec.Inflight = 1
			}
			done <- "ok"
		case "federation":
			q, err := graphql.Parse("{ t { id name } ts { name } }", nil)
			if err != nil {
				done <- "error: " + err.Error()
				return
			}
			pq, err := federation.MarshalQuery(q)
			if err != nil {
				done <- "error: " + err.Error()
				return
			}
			_, err = fed.Execute(ctx, &thunderpb.ExecuteRequest{Query: pq})
			if atomic.LoadInt32(&busy) == 1 {
				rec.Inflight = 1
			}
			if err != nil {
				done <- "error: " + err.Error()
			} else {
				done <- "ok"
			}
		}
	}()
	select {
	case o := <-done:
		rec.Returned = true
		rec.Outcome = strings.SplitN(o, ":", 2)[0]
		rec.Err = o
	case <-time.After(3 * time.Second):
		rec.Outcome = "hang"
	}
	if point == "after" {
		fire()
	}
	rec.Ms = int(time.Since(start) / time.Millisecond)
	cancel()
	rec.Leaked = waitGoroutines(base, 2*time.Second)
	rec.Late = int(atomic.LoadInt32(&late))
	return rec
}

// lateWriter counts uses of the ResponseWriter after ServeHTTP has returned.
type lateWriter struct {
	http.ResponseWriter
	returned int32
	late     *int32
}

func (w *lateWriter) note() {
	if atomic.LoadInt32(&w.returned) == 1 {
		atomic.AddInt32(w.late, 1)
	}
}
func (w *lateWriter) Header() http.Header         { w.note(); return w.ResponseWriter.Header() }
func (w *lateWriter) Write(b []byte) (int, error) { w.note(); return w.ResponseWriter.Write(b) }
func (w *lateWriter) WriteHeader(c int)           { w.note(); w.ResponseWriter.WriteHeader(c) }

// ---- cancellation over the websocket protocol ----

type wsMsg struct {
	ID      string          `json:"id"`
	Type    string          `json:"type"`
	Message json.RawMessage `json:"message"`
}

type wsock struct {
	in  chan wsMsg
	mu  sync.Mutex
	out []wsMsg
}

func (s *wsock) ReadJSON(v interface{}) error {
	m, ok := <-s.in
	if !ok {
		return fmt.Errorf("socket closed")
	}
	b, _ := json.Marshal(m)
	return json.Unmarshal(b, v)
}
func (s *wsock) WriteJSON(v interface{}) error {
	b, err := json.Marshal(v)
	if err != nil {
		return err
	}
	var m wsMsg
	json.Unmarshal(b, &m)
	s.mu.Lock()
	s.out = append(s.out, m)
	s.mu.Unlock()
	return nil
}
func (s *wsock) Close() error { return nil }
func (s *wsock) got(id, typ string) bool {
	s.mu.Lock()
	defer s.mu.Unlock()
	for _, m := range s.out {
		if m.ID == id && m.Type == typ {
			return true
		}
	}
	return false
}

var wsPoints = []string{"unsubscribe.during.run", "close.during.run", "ctx.during.run", "unsubscribe.during.run.ignoring"}

// wsCancelCase: a subscription whose resolver is still running (and honours cancellation by returning
// ctx.Err(), or ignores it and finishes) is ended by unsubscribe / socket close / connection context
// cancellation. The connection must keep serving its other subscriptions and ServeJSONSocket must return
// once the socket is closed, leaving no goroutine behind.
func wsCancelCase(point string) Rec {
	rec := Rec{Kind: "cancel", Target: "websocket", Point: point}
	base := runtime.NumGoroutine()
	started := make(chan struct{}, 4)
	release := make(chan struct{})
	s := schemabuilder.NewSchema()
	q := s.Query()
	q.FieldFunc("wait", func(ctx context.Context) (int64, error) {
		started <- struct{}{}
		if strings.HasSuffix(point, ".ignoring") {
			<-release
			return 1, nil
		}
		<-ctx.Done()
		return 0, ctx.Err()
	})
	q.FieldFunc("ping", func(ctx context.Context) int64 { return 1 })
	s.Mutation()
	sock := &wsock{in: make(chan wsMsg)}
	ctx, cancel := context.WithCancel(context.Background())
	defer cancel()
	conn := graphql.CreateConnection(ctx, sock, s.MustBuild())
	served := make(chan struct{})
	go func() { conn.ServeJSONSocket(); close(served) }()
	start := time.Now()
	send := func(id, typ, query string) bool {
		body, _ := json.Marshal(map[string]interface{}{"query": query, "variables": map[string]interface{}{}})
		select {
		case sock.in <- wsMsg{ID: id, Type: typ, Message: body}:
			return true
		case <-time.After(5 * time.Second):
			return false
		}
	}
	waitFor := func(f func() bool) bool {
		deadline := time.Now().Add(5 * time.Second)
		for time.Now().Before(deadline) {
			if f() {
				return true
			}
			time.Sleep(time.Millisecond)
		}
		return false
	}
	rec.Outcome, rec.Returned = "ok", true
	fail := func(what string) Rec {
		rec.Outcome, rec.Err, rec.Returned = "hang", what, false
		rec.Ms = int(time.Since(start) / time.Millisecond)
		return rec
	}
	if !send("1", "subscribe", "{ wait }") {
		return fail("subscribe not read")
	}
	select {
	case <-started:
	case <-time.After(5 * time.Second):
		return fail("resolver never started")
	}
	closed := false
	switch {
	case strings.HasPrefix(point, "unsubscribe"):
		if !send("1", "unsubscribe", "") {
			return fail("the connection no longer reads messages after the unsubscribe was sent")
		}
		if strings.HasSuffix(point, ".ignoring") {
			time.Sleep(5 * time.Millisecond)
			close(release)
		}
	case point == "ctx.during.run":
		cancel()
	default:
		close(sock.in)
		closed = true
	}
	if !closed && point != "ctx.during.run" {
		// the connection still serves another subscription
		if !send("2", "subscribe", "{ ping }") {
			return fail("the connection is stuck: a second subscribe is not read")
		}
		if !waitFor(func() bool { return sock.got("2", "update") }) {
			return fail("the connection is stuck: the second subscription is never answered")
		}
	}
	if !closed {
		close(sock.in)
	}
	select {
	case <-served:
	case <-time.After(5 * time.Second):
		return fail("ServeJSONSocket does not return after the socket was closed")
	}
	rec.Ms = int(time.Since(start) / time.Millisecond)
	cancel()
	rec.Leaked = waitGoroutines(base, 2*time.Second)
	return rec
}

// ---- panicking resolvers in every placement ----

type PItem struct {
	Id   int64
	Name string
}

// panicPlacements: where a resolver that panics can sit in a query -> the query that reaches it.
var panicPlacements = map[string]string{
	"field":            `{ pitems { edges { node { id boom } } } }`,
	"expensive_field":  `{ pitems { edges { node { id boomE } } } }`,
	"batch_field":      `{ pitems { edges { node { id boomB } } } }`,
	"root_field":       `{ rootBoom }`,
	"sort_field":       `{ pitems(sortBy: "boomS", sortOrder: "asc") { edges { node { id } } } }`,
	"expensive_sort":   `{ pitems(sortBy: "boomSE", sortOrder: "asc") { edges { node { id } } } }`,
	"batch_sort":       `{ pitems(sortBy: "boomSB", sortOrder: "asc") { edges { node { id } } } }`,
	"filter_field":     `{ pitemsF(filterText: "a") { edges { node { id } } } }`,
	"expensive_filter": `{ pitemsFE(filterText: "a") { edges { node { id } } } }`,
	"batch_filter":     `{ pitemsFB(filterText: "a") { edges { node { id } } } }`,
	"no_panic_control": `{ pitems(sortBy: "ok", sortOrder: "asc") { edges { node { id } } } }`,
}

func panicSchema() *graphql.Schema {
	s := schemabuilder.NewSchema()
	q := s.Query()
	list := func(ctx context.Context) []*PItem {
		return []*PItem{{1, "a"}, {2, "b"}, {3, "ab"}}
	}
	boom := func(it *PItem) string { panic("c15: resolver panics") }
	ok := func(it *PItem) string { return it.Name }
	boomBatch := func(m map[batch.Index]*PItem) (map[batch.Index]string, error) { panic("c15: batch resolver panics") }
	q.FieldFunc("pitems", list, schemabuilder.Paginated,
		schemabuilder.SortField("ok", ok), schemabuilder.SortField("boomS", boom),
		schemabuilder.SortField("boomSE", boom, schemabuilder.Expensive), schemabuilder.BatchSortField("boomSB", boomBatch))
	q.FieldFunc("pitemsF", list, schemabuilder.Paginated, schemabuilder.FilterField("boomF", boom))
	q.FieldFunc("pitemsFE", list, schemabuilder.Paginated, schemabuilder.FilterField("boomFE", boom, schemabuilder.Expensive))
	q.FieldFunc("pitemsFB", list, schemabuilder.Paginated, schemabuilder.BatchFilterField("boomFB", boomBatch))
	q.FieldFunc("rootBoom", func() string { panic("c15: root resolver panics") })
	it := s.Object("PItem", PItem{})
	it.Key("id")
	it.FieldFunc("boom", boom)
	it.FieldFunc("boomE", boom, schemabuilder.Expensive)
	it.BatchFieldFunc("boomB", boomBatch)
	s.Mutation()
	return s.MustBuild()
}

// panicChild runs one placement through the real HTTP handler and prints OUTCOME=<ok|error>; if the panic
// escapes, the process dies - which is what the parent observes.
func panicChild(name string) error {
	text, ok := panicPlacements[name]
	if !ok {
		return fmt.Errorf("unknown placement %s", name)
	}
	body, _ := json.Marshal(map[string]interface{}{"query": text, "variables": map[string]interface{}{}})
	req := httptest.NewRequest("POST", "/graphql", bytes.NewReader(body))
	w := httptest.NewRecorder()
	graphql.HTTPHandler(panicSchema()).ServeHTTP(w, req)
	var resp struct {
		Errors []string `json:"errors"`
	}
	json.Unmarshal(w.Body.Bytes(), &resp)
	// the server still answers a second request
	req2 := httptest.NewRequest("POST", "/graphql", bytes.NewReader([]byte(`{"query":"{ pitems { edges { node { id } } } }","variables":{}}`)))
	w2 := httptest.NewRecorder()
	graphql.HTTPHandler(panicSchema()).ServeHTTP(w2, req2)
	time.Sleep(20 * time.Millisecond) // goroutines spawned for expensive fields get to run
	if len(resp.Errors) > 0 {
		fmt.Printf("OUTCOME=error %s\n", cut(resp.Errors[0], 120))
	} else {
		fmt.Println("OUTCOME=ok")
	}
	return nil
}

func panicCase(name string) Rec {
	rec := Rec{Kind: "panic", Name: name, Text: panicPlacements[name]}
	start := time.Now()
	ctx, cancel := context.WithTimeout(context.Background(), 60*time.Second)
	defer cancel()
	out, err := exec.CommandContext(ctx, os.Args[0], "c15", "-panicchild", name).CombinedOutput()
	rec.Ms = int(time.Since(start) / time.Millisecond)
	rec.Returned = true
	s := string(out)
	switch {
	case strings.Contains(s, "OUTCOME=error"):
		rec.Outcome = "error"
	case strings.Contains(s, "OUTCOME=ok"):
		rec.Outcome = "ok"
	default:
		// the child process died: the panic was not contained
		rec.Outcome = "crash"
		if i := strings.Index(s, "panic:"); i >= 0 {
			rec.Err = cut(s[i:], 200)
		} else {
			rec.Err = cut(fmt.Sprint(err, " ", s), 200)
		}
	}
	return rec
}

// ---- hostile structured input ----

var constructs = map[string]string{
	"subscription_op":       "subscription { t { id } }",
	"two_operations":        "query A { t { id } } query B { t { id } }",
	"type_definition":       "type X { a: Int } { t { id } }",
	"undefined_fragment":    "{ t { ...Nope } }",
	"duplicate_fragment":    "{ t { ...F } } fragment F on T { id } fragment F on T { name }",
	"cyclic_fragments":      "{ t { ...A } } fragment A on T { ...B } fragment B on T { ...A }",
	"self_cyclic_fragment":  "{ t { ...A } } fragment A on T { self { ...A } }",
	"unused_fragment":       "{ t { id } } fragment F on T { id }",
	"variable_in_default":   "query Q($a: Int = $b, $b: Int) { echo(x: $a) }",
	"required_with_default": "query Q($a: Int! = 3) { echo(x: $a) }",
	"duplicate_args":        "{ echo(x: 1, x: 2) }",
	"object_literal_arg":    "{ echo(x: {a: 1}) }",
	"list_literal_arg":      "{ echo(x: [1, 2]) }",
	"nested_list_literal":   "{ echo(x: [[[[[[1]]]]]]) }",
	"skip_without_if":       "{ t @skip { id } }",
	"skip_if_string":        "{ t @skip(if: \"yes\") { id } }",
	"include_if_null_var":   "query Q($v: Boolean) { t @include(if: $v) { id } }",
	"unknown_directive":     "{ t @nope(if: true) { id } }",
	"alias_conflict_name":   "{ a: t { id } a: ts { id } }",
	"alias_conflict_args":   "{ a: echo(x: 1) a: echo(x: 2) }",
	"typename_with_args":    "{ __typename(x: 1) }",
	"typename_with_sub":     "{ t { __typename { x } } }",
	"empty_query":           "",
	"only_braces":           "{ }",
	"panicking_resolver":    "{ boom t { id } }",
	"mutation_on_query":     "mutation { t { id } }",
	"huge_int":              "{ echo(x: 99999999999999999999999999) }",
	"float_for_int":         "{ echo(x: 1.5e300) }",
	"unicode_escape":        "{ echo(x: \"\\u0000\\ud800\") }",
	"default_used":          "query Q($a: Int = 3) { echo(x: $a) }",
	"default_in_fragment":   "query Q($a: Int = 3) { ...F } fragment F on Query { echo(x: $a) }",
	"block_comment_garbage": "{ t { id } } # \x00\xff",
	// one named fragment spread under two object types, valid under the first one only
	"fragment_on_two_types_t_u":    "{ t { ...F } u { ...F } } fragment F on T { name }",
	"fragment_on_two_types_u_t":    "{ u { ...F } t { ...F } } fragment F on U { other }",
	"fragment_on_two_types_nested": "{ t { self { ...F } } u { ...F } } fragment F on T { id name }",
	"fragment_on_two_types_twice":  "{ t { ...F ...F } a: u { ...F } b: u { ...F } } fragment F on T { name }",
	"fragment_on_two_types_inner":  "{ t { ...F } u { ...G } } fragment F on T { self { ...H } } fragment G on U { ...H } fragment H on T { name }",
	"inline_fragment_other_type":   "{ u { ... on T { name } } }",
}

func deepNest(d int) string {
	var b strings.Builder
	b.WriteString("{ t ")
	for i := 0; i < d; i++ {
		b.WriteString("{ self ")
	}
	b.WriteString("{ id }")
	for i := 0; i < d; i++ {
		b.WriteString(" }")
	}
	b.WriteString(" }")
	return b.String()
}

// bomb builds a fragment-spread DAG: every level spreads the next level w times.
func bomb(w, d int, top bool) string {
	var b strings.Builder
	spread := func(name string) string { return strings.Repeat("..."+name+" ", w) }
	if top {
		// spreads directly in the operation's selection set (exercises detectConflicts)
		b.WriteString("{ " + spread("F0") + "}")
		for i := 0; i < d; i++ {
			next := fmt.Sprintf("F%d", i+1)
			fmt.Fprintf(&b, " fragment F%d on Query { %s}", i, spread(next))
		}
		fmt.Fprintf(&b, " fragment F%d on Query { __typename }", d)
		return b.String()
	}
	b.WriteString("{ t { " + spread("F0") + "} }")
	for i := 0; i < d; i++ {
		next := fmt.Sprintf("F%d", i+1)
		fmt.Fprintf(&b, " fragment F%d on T { self { %s} }", i, spread(next))
	}
	fmt.Fprintf(&b, " fragment F%d on T { id }", d)
	return b.String()
}

var pSteps, cSteps int64

func countHook(p string, args ...interface{}) {
	switch p {
	case "prepare.visit":
		atomic.AddInt64(&pSteps, 1)
	case "conflicts.visit":
		atomic.AddInt64(&cSteps, 1)
	}
}

// runText pushes one query text (and variables) through Parse / PrepareQuery / Execute with a time limit.
func runText(gql *graphql.Schema, text string, vars map[string]interface{}, limit time.Duration) (outcome, errText string, ms int) {
	done := make(chan [2]string, 1)
	start := time.Now()
	go func() {
		defer func() {
			if p := recover(); p != nil {
				done <- [2]string{"crash", fmt.Sprint(p)}
			}
		}()
		q, err := graphql.Parse(text, vars)
		if err != nil {
			done <- [2]string{"error", "parse: " + err.Error()}
			return
		}
		typ := gql.Query
		if q.Kind == "mutation" {
			typ = gql.Mutation
		}
		if err := graphql.PrepareQuery(context.Background(), typ, q.SelectionSet); err != nil {
			done <- [2]string{"error", "prepare: " + err.Error()}
			return
		}
		_, err = graphql.NewExecutor(&seq{}).Execute(context.Background(), typ, nil, q)
		if err != nil {
			done <- [2]string{"error", "execute: " + err.Error()}
			return
		}
		done <- [2]string{"ok", ""}
	}()
	select {
	case r := <-done:
		return r[0], r[1], int(time.Since(start) / time.Millisecond)
	case <-time.After(limit):
		return "hang", "", int(limit / time.Millisecond)
	}
}

// seq runs work units on the calling goroutine so that a panic inside the executor is recovered by runText.
type seq struct{}

func (s *seq) Run(resolver graphql.UnitResolver, units ...*graphql.WorkUnit) {
	q := append([]*graphql.WorkUnit{}, units...)
	for len(q) > 0 {
		u := q[0]
		q = append(q[1:], resolver(u)...)
	}
}

func cut(s string, n int) string {
	if len(s) > n {
		return s[:n]
	}
	return s
}

// Main: vh c15 -out recs.ndjson -seed 1 -rand 2000 -maxdepth 14
func Main(args []string) error {
	fs := flag.NewFlagSet("c15", flag.ContinueOnError)
	child := fs.String("panicchild", "", "internal: run one panicking-resolver placement and print its outcome")
	out := fs.String("out", "", "")
	seed := fs.Int64("seed", 1, "")
	nrand := fs.Int("rand", 1000, "")
	maxDepth := fs.Int("maxdepth", 14, "")
	if err := fs.Parse(args); err != nil {
		return err
	}
	if *child != "" {
		return panicChild(*child)
	}
	rx.WriteThenReadDelay = 0
	sb := schema()
	gql := sb.MustBuild()
	fed, err := federation.NewServer(schema().MustBuild())
	if err != nil {
		return err
	}
	w, err := tj.NewWriter(*out)
	if err != nil {
		return err
	}
	// a resolver that panics, in every placement, each in a process of its own
	{
		var names []string
		for n := range panicPlacements {
			names = append(names, n)
		}
		sort.Strings(names)
		for _, n := range names {
			w.Write(panicCase(n))
		}
	}
	// cancellation over the websocket protocol
	for rep := 0; rep < 2; rep++ {
		for _, p := range wsPoints {
			w.Write(wsCancelCase(p))
		}
	}
	// cancellation: fault enumeration
	for _, target := range []string{"http", "federation"} {
		for _, p := range cancelPoints {
			for rep := 0; rep < 3; rep++ {
				w.Write(cancelCase(target, p, gql, fed))
			}
		}
	}
	// hostile constructs
	graphql.VerifHook = countHook
	for name, text := range constructs {
		o, e, ms := runText(gql, text, map[string]interface{}{}, 5*time.Second)
		w.Write(Rec{Kind: "construct", Name: name, Outcome: o, Err: cut(e, 200), Ms: ms, Text: cut(text, 200), Returned: o != "hang"})
		// the same request without any variables (a body with no "variables" key, or null): a nil map
		o, e, ms = runText(gql, text, nil, 5*time.Second)
		w.Write(Rec{Kind: "construct", Name: name, Outcome: o, Err: cut(e, 200), Ms: ms, Text: cut(text, 200) + " (no variables)", Returned: o != "hang"})
	}
	for _, d := range []int{10, 100, 1000} {
		text := deepNest(d)
		o, e, ms := runText(gql, text, nil, 10*time.Second)
		w.Write(Rec{Kind: "construct", Name: fmt.Sprintf("deep_nesting_%d", d), Outcome: o, Err: cut(e, 200), Ms: ms, Size: len(text), Returned: o != "hang"})
	}
	// fragment bombs with step counting
	for _, top := range []bool{false, true} {
		for wd := 1; wd <= 3; wd++ {
			for d := 1; d <= *maxDepth; d++ {
				text := bomb(wd, d, top)
				atomic.StoreInt64(&pSteps, 0)
				atomic.StoreInt64(&cSteps, 0)
				o, e, ms := runText(gql, text, nil, 10*time.Second)
				name := "bomb_nested"
				if top {
					name = "bomb_toplevel"
				}
				w.Write(Rec{Kind: "bomb", Name: name, W: wd, D: d, Size: len(strings.Fields(text)), Outcome: o, Err: cut(e, 200), Ms: ms,
					PSteps: int(atomic.LoadInt64(&pSteps)), CSteps: int(atomic.LoadInt64(&cSteps)), Returned: o != "hang"})
				if o == "hang" {
					break // deeper ones only take longer
				}
			}
		}
	}
	graphql.VerifHook = nil
	// random bytes / mutated valid texts, as query text, as HTTP body, as variables
	r := rand.New(rand.NewSource(*seed))
	valid := []string{"{ t { id name self { id } } }", "query Q($x: int64) { echo(x: $x) ts { friends { name } } }",
		"{ t { ...F } } fragment F on T { id self { ...G } } fragment G on T { name }", "mutation { noop }"}
	alphabet := []byte("{}()[]:,.@$!=\"\\#\n\t abcdefgqrstuvxyz0123456789_-+eE\x00\xff\xc3\x28...on fragment query mutation true false null")
	mutate := func(s string) string {
		b := []byte(s)
		for k := r.Intn(4) + 1; k > 0; k-- {
			switch r.Intn(4) {
			case 0:
				if len(b) > 0 {
					i := r.Intn(len(b))
					b = append(b[:i], b[i+1:]...)
				}
			case 1:
				i := r.Intn(len(b) + 1)
				b = append(b[:i], append([]byte{alphabet[r.Intn(len(alphabet))]}, b[i:]...)...)
			case 2:
				if len(b) > 0 {
					b[r.Intn(len(b))] = alphabet[r.Intn(len(alphabet))]
				}
			default:
				if len(b) > 1 {
					i, j := r.Intn(len(b)), r.Intn(len(b))
					if i > j {
						i, j = j, i
					}
					b = append(b[:j], append(append([]byte{}, b[i:j]...), b[j:]...)...)
				}
			}
		}
		return string(b)
	}
	handler := graphql.HTTPHandler(gql)
	for i := 0; i < *nrand; i++ {
		var text string
		if r.Intn(3) == 0 {
			n := r.Intn(60)
			b := make([]byte, n)
			for j := range b {
				b[j] = alphabet[r.Intn(len(alphabet))]
			}
			text = string(b)
		} else {
			text = mutate(valid[r.Intn(len(valid))])
		}
		vars := map[string]interface{}{}
		switch r.Intn(4) {
		case 0:
			vars["x"] = "str"
		case 1:
			vars["x"] = []interface{}{1.0, nil, map[string]interface{}{"a": nil}}
		case 2:
			vars["x"] = 1e308
		}
		o, e, ms := runText(gql, text, vars, 5*time.Second)
		w.Write(Rec{Kind: "random", Name: "query_text", Outcome: o, Err: cut(e, 120), Ms: ms, Text: cut(fmt.Sprintf("%q", text), 200), Size: len(text), Returned: o != "hang"})
		// the same bytes as an HTTP body (envelope level)
		if i%4 == 0 {
			body := text
			if r.Intn(2) == 0 {
				bb, _ := json.Marshal(map[string]interface{}{"query": text, "variables": vars})
				body = mutate(string(bb))
			}
			done := make(chan string, 1)
			go func() {
				defer func() {
					if p := recover(); p != nil {
						done <- "crash"
					}
				}()
				req := httptest.NewRequest("POST", "/graphql", strings.NewReader(body))
				rw := httptest.NewRecorder()
				handler.ServeHTTP(rw, req)
				if rw.Code != http.StatusOK && rw.Code != http.StatusInternalServerError {
					done <- "error"
					return
				}
				var resp struct {
					Errors []string `json:"errors"`
				}
				if json.Unmarshal(rw.Body.Bytes(), &resp) == nil && len(resp.Errors) > 0 {
					done <- "error"
					return
				}
				done <- "ok"
			}()
			select {
			case o := <-done:
				w.Write(Rec{Kind: "random", Name: "http_body", Outcome: o, Text: cut(fmt.Sprintf("%q", body), 200), Size: len(body), Returned: true})
			case <-time.After(5 * time.Second):
				w.Write(Rec{Kind: "random", Name: "http_body", Outcome: "hang", Text: cut(fmt.Sprintf("%q", body), 200), Size: len(body)})
			}
		}
	}
	return w.Close()
}
