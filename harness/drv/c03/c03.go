// Package c03 pushes pairs of JSON values through thunder's real diff.Diff and
// merge.Merge (and, when node is available, the real client/src/merge.ts) and
// records what came out, for DiffMerge_Trace.tla to judge.
package c03

import (
	"bytes"
	"encoding/json"
	"flag"
	"fmt"
	"math/rand"
	"os"
	"os/exec"
	"path/filepath"
	"reflect"
	"sort"
	"strings"

	"github.com/samsarahq/thunder/diff"
	"github.com/samsarahq/thunder/merge"

	tj "verifharness/internal/tagjson"
)

type rec struct {
	U    string `json:"u"`
	I    int    `json:"i"`
	J    int    `json:"j"`
	D    tj.T   `json:"d"`            // delta after a JSON round trip ({"k":"nil"} = no change)
	GM   tj.T   `json:"gm"`           // merge.Merge(StripKey(old), delta) or {"k":"err"}
	JM   tj.T   `json:"jm"`           // merge.ts result or {"k":"none"}
	Mut  bool   `json:"mut"`          // Diff modified one of its arguments
	JSON bool   `json:"json"`         // the delta survived encoding/json
	Err  string `json:"err,omitempty"`
}

func s(x string) *string { return &x }

func deepCopy(v interface{}) interface{} {
	switch v := v.(type) {
	case map[string]interface{}:
		m := make(map[string]interface{}, len(v))
		for k, x := range v {
			m[k] = deepCopy(x)
		}
		return m
	case []interface{}:
		a := make([]interface{}, len(v))
		for i, x := range v {
			a[i] = deepCopy(x)
		}
		return a
	}
	return v
}

func viaJSON(v interface{}) interface{} {
	b, err := json.Marshal(v)
	if err != nil {
		return err.Error()
	}
	var out interface{}
	json.Unmarshal(b, &out)
	return out
}

// aliasPrefixes walks o and n in parallel; wherever an array of one side is a proper prefix (element-wise equal)
// of the array at the same place of the other side, the shorter one is replaced by a reslice of the longer one.
func aliasPrefixes(o, n interface{}) (interface{}, interface{}, bool) {
	switch ov := o.(type) {
	case []interface{}:
		nv, ok := n.([]interface{})
		if !ok {
			return o, n, false
		}
		short, long := ov, nv
		if len(nv) < len(ov) {
			short, long = nv, ov
		}
		if len(short) < len(long) && reflect.DeepEqual(short, long[:len(short)]) {
			if len(nv) < len(ov) {
				return ov, ov[:len(nv)], true
			}
			return nv[:len(ov)], nv, true
		}
		changed := false
		for i := 0; i < len(ov) && i < len(nv); i++ {
			a, b, c := aliasPrefixes(ov[i], nv[i])
			ov[i], nv[i] = a, b
			changed = changed || c
		}
		return ov, nv, changed
	case map[string]interface{}:
		nv, ok := n.(map[string]interface{})
		if !ok {
			return o, n, false
		}
		changed := false
		for k, x := range ov {
			if y, ok := nv[k]; ok {
				a, b, c := aliasPrefixes(x, y)
				ov[k], nv[k] = a, b
				changed = changed || c
			}
		}
		return ov, nv, changed
	}
	return o, n, false
}

func one(u string, i, j int, ot, nt tj.T) (r rec) {
	r = rec{U: u, I: i, J: j, JM: tj.T{K: "none"}, GM: tj.T{K: "none"}, D: tj.T{K: "nil"}, JSON: true}
	defer func() {
		if p := recover(); p != nil {
			r.Err = fmt.Sprint("panic: ", p)
			r.GM = tj.T{K: "err", S: s(r.Err)}
			r.D = tj.T{K: "err", S: s(r.Err)}
		}
	}()
	o, n := ot.To(), nt.To()
	oc, nc := deepCopy(o), deepCopy(n)
	d := diff.Diff(o, n)
	r.Mut = !reflect.DeepEqual(o, oc) || !reflect.DeepEqual(n, nc)
	// Diff is a function of the two VALUES: when one array is a prefix of the other, the same pair is diffed again
	// with the shorter array being a reslice of the longer one (a list truncated or grown in place shares its
	// backing array with its predecessor); a delta that differs is the one that gets judged
	if oa, na, ok := aliasPrefixes(deepCopy(o), deepCopy(n)); ok {
		da := diff.Diff(oa, na)
		if !reflect.DeepEqual(viaJSON(d), viaJSON(da)) {
			d, o, n = da, oa, na
			r.Err = "aliased arrays"
		}
	}
	if d == nil {
		return r
	}
	b, err := json.Marshal(d)
	if err != nil {
		r.JSON = false
		r.Err = err.Error()
		return r
	}
	var dj interface{}
	if err := json.Unmarshal(b, &dj); err != nil {
		r.JSON = false
		r.Err = err.Error()
		return r
	}
	r.D = tj.From(dj)
	gm, err := merge.Merge(diff.StripKey(o), dj)
	if err != nil {
		r.GM = tj.T{K: "err", S: s(err.Error())}
	} else {
		r.GM = tj.From(gm)
	}
	return r
}

// ---- random universe: pairs (old, mutated old) of larger values ----

type gen struct{ r *rand.Rand }

func (g *gen) scalar() interface{} {
	switch g.r.Intn(6) {
	case 0:
		return nil
	case 1:
		return g.r.Intn(2) == 0
	case 2:
		return float64(g.r.Intn(5))
	case 3:
		return string(rune('a' + g.r.Intn(4)))
	case 4:
		return float64(g.r.Intn(100)) + 0.5
	}
	return ""
}

func (g *gen) value(depth int) interface{} {
	if depth <= 0 || g.r.Intn(4) == 0 {
		return g.scalar()
	}
	switch g.r.Intn(3) {
	case 0:
		return g.object(depth, false)
	case 1:
		return g.list(depth)
	}
	return g.scalar()
}

var fieldNames = []string{"a", "b", "c", "id", "name", "x"}

func (g *gen) object(depth int, keyed bool) map[string]interface{} {
	m := map[string]interface{}{}
	if keyed {
		m["__key"] = float64(g.r.Intn(6))
		if g.r.Intn(5) == 0 {
			m["__key"] = string(rune('k' + g.r.Intn(3)))
		}
	}
	for _, f := range fieldNames {
		if g.r.Intn(3) == 0 {
			m[f] = g.value(depth - 1)
		}
	}
	return m
}

func (g *gen) list(depth int) []interface{} {
	n := g.r.Intn(7)
	a := make([]interface{}, 0, n)
	mode := g.r.Intn(3)
	for i := 0; i < n; i++ {
		switch mode {
		case 0:
			a = append(a, g.object(depth-1, true))
		case 1:
			a = append(a, g.scalar())
		default:
			a = append(a, g.value(depth-1))
		}
	}
	return a
}

// mutate returns a changed copy of v.
func (g *gen) mutate(v interface{}, depth int) interface{} {
	if g.r.Intn(8) == 0 {
		return g.value(depth)
	}
	switch v := v.(type) {
	case map[string]interface{}:
		m := map[string]interface{}{}
		for k, x := range v {
			if k == "__key" { // keys stay scalar (thunder only ever emits scalar keys)
				if g.r.Intn(6) != 0 {
					m[k] = x
				}
				continue
			}
			switch g.r.Intn(6) {
			case 0: // drop
			case 1:
				m[k] = g.mutate(x, depth-1)
			default:
				m[k] = deepCopy(x)
			}
		}
		if g.r.Intn(3) == 0 {
			m[fieldNames[g.r.Intn(len(fieldNames))]] = g.value(depth - 1)
		}
		if _, ok := m["__key"]; !ok {
			if k, had := v["__key"]; had && g.r.Intn(4) != 0 {
				m["__key"] = k
			}
		}
		return m
	case []interface{}:
		a := make([]interface{}, 0, len(v)+2)
		for _, x := range v {
			switch g.r.Intn(7) {
			case 0: // delete
			case 1:
				a = append(a, g.mutate(x, depth-1))
			case 2:
				a = append(a, deepCopy(x), deepCopy(x)) // duplicate
			default:
				a = append(a, deepCopy(x))
			}
		}
		if g.r.Intn(3) == 0 && len(a) > 1 { // reorder
			g.r.Shuffle(len(a), func(i, j int) { a[i], a[j] = a[j], a[i] })
		} else if g.r.Intn(3) == 0 && len(a) > 1 { // rotate: keeps long runs
			k := 1 + g.r.Intn(len(a)-1)
			a = append(append([]interface{}{}, a[k:]...), a[:k]...)
		}
		if g.r.Intn(3) == 0 {
			ins := g.r.Intn(len(a) + 1)
			var x interface{} = g.scalar()
			if len(v) > 0 {
				if _, ok := v[0].(map[string]interface{}); ok {
					x = g.object(depth-1, true)
				}
			}
			a = append(a[:ins], append([]interface{}{x}, a[ins:]...)...)
		}
		return a
	}
	if g.r.Intn(2) == 0 {
		return g.scalar()
	}
	return v
}

// Main: vh c03 -udir DIR -out FILE [-rand N -seed S] [-node SCRIPT -mergets FILE]
func Main(args []string) error {
	fs := flag.NewFlagSet("c03", flag.ContinueOnError)
	udir := fs.String("udir", "", "directory holding U_<name>.ndjson universes (written by DiffMerge_Gen)")
	out := fs.String("out", "", "records file")
	nrand := fs.Int("rand", 0, "number of random (old, mutated old) pairs")
	seed := fs.Int64("seed", 1, "seed")
	nodeScript := fs.String("node", "", "merge_run.js (empty: skip the JavaScript client)")
	mergeTS := fs.String("mergets", "", "path of client/src/merge.ts")
	if err := fs.Parse(args); err != nil {
		return err
	}
	files, _ := filepath.Glob(filepath.Join(*udir, "U_*.ndjson"))
	sort.Strings(files)
	var recs []rec
	unis := map[string][]tj.T{}
	for _, f := range files {
		name := strings.TrimSuffix(strings.TrimPrefix(filepath.Base(f), "U_"), ".ndjson")
		if name == "rand" {
			continue
		}
		vals, err := tj.ReadValues(f)
		if err != nil {
			return fmt.Errorf("%s: %v", f, err)
		}
		unis[name] = vals
		for i := range vals {
			for j := range vals {
				recs = append(recs, one(name, i+1, j+1, vals[i], vals[j]))
			}
		}
	}
	// random pairs
	g := &gen{r: rand.New(rand.NewSource(*seed))}
	var rv []tj.T
	for k := 0; k < *nrand; k++ {
		var o interface{}
		if g.r.Intn(4) == 0 {
			o = g.value(4)
		} else {
			o = g.object(4, false)
		}
		n := g.mutate(o, 4)
		if g.r.Intn(20) == 0 {
			n = deepCopy(o)
		}
		rv = append(rv, tj.From(o), tj.From(n))
		recs = append(recs, one("rand", 2*k+1, 2*k+2, rv[2*k], rv[2*k+1]))
	}
	unis["rand"] = rv
	uw, err := tj.NewWriter(filepath.Join(*udir, "U_rand.ndjson"))
	if err != nil {
		return err
	}
	for _, v := range rv {
		uw.Write(v)
	}
	uw.Close()

	if *nodeScript != "" {
		if err := runNode(*nodeScript, *mergeTS, unis, recs); err != nil {
			return err
		}
	}
	w, err := tj.NewWriter(*out)
	if err != nil {
		return err
	}
	for _, r := range recs {
		w.Write(r)
	}
	return w.Close()
}

// runNode applies the real merge.ts to every non-empty delta.
func runNode(script, mergeTS string, unis map[string][]tj.T, recs []rec) error {
	var in bytes.Buffer
	var idx []int
	for k, r := range recs {
		if r.D.K == "nil" || !r.JSON {
			continue
		}
		o := diff.StripKey(unis[r.U][r.I-1].To())
		b, err := json.Marshal(map[string]interface{}{"o": o, "d": r.D.To()})
		if err != nil {
			return err
		}
		in.Write(b)
		in.WriteByte('\n')
		idx = append(idx, k)
	}
	cmd := exec.Command("node", script, mergeTS)
	cmd.Stdin = &in
	cmd.Stderr = os.Stderr
	outb, err := cmd.Output()
	if err != nil {
		return fmt.Errorf("node: %v", err)
	}
	lines := bytes.Split(bytes.TrimRight(outb, "\n"), []byte("\n"))
	if len(lines) != len(idx) {
		return fmt.Errorf("node: %d results for %d inputs", len(lines), len(idx))
	}
	for n, k := range idx {
		var res struct {
			Undef bool            `json:"undef"`
			Err   string          `json:"err"`
			V     json.RawMessage `json:"v"`
		}
		if err := json.Unmarshal(lines[n], &res); err != nil {
			return fmt.Errorf("node line %d: %v", n, err)
		}
		switch {
		case res.Err != "":
			recs[k].JM = tj.T{K: "err", S: s(res.Err)}
		case res.Undef:
			recs[k].JM = tj.T{K: "n"}
		default:
			t, err := tj.FromJSON(res.V)
			if err != nil {
				return err
			}
			recs[k].JM = t
		}
	}
	return nil
}
