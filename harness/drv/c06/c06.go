// Package c06 compares the federation gateway with a single server that implements all fields over
// the same data: for seeded partitions of the fields over three services (fields served by several
// services included, with the service selector enumerated), random queries (duplicate aliases with
// different sub-selections, nested fragments, unions, directives, nulls, empty lists, multi-hop) are
// executed through the real gateway and on the monolith. Exec_Trace.tla judges both against the
// reference evaluation. A second part parks the background schema refresh inside its write to the
// executor map and checks (FedRefresh_Trace.tla) that no request reads the map meanwhile.
package c06

import (
	"context"
	"encoding/json"
	"flag"
	"fmt"
	"math/rand"
	"os"
	"sort"
	"strings"
	"sync"
	"sync/atomic"
	"time"

	"github.com/samsarahq/thunder/federation"
	"github.com/samsarahq/thunder/graphql"

	ex "verifharness/drv/exec"
	"verifharness/internal/fedzoo"
	tj "verifharness/internal/tagjson"
)

func f(t string, list bool) [2]interface{} { return [2]interface{}{t, list} }

var fields = map[string]map[string][2]interface{}{
	"Query": {"users": f("User", true), "user1": f("User", false), "nobody": f("User", false), "everyone": f("Everyone", true), "solo": f("Solo", false),
		"devices": f("Device", true), "devicesN": f("Device", true), "count": f("Int", false),
		"userById1": f("User", false), "userById3": f("User", false), "userById9": f("User", false)},
	"User": {"id": f("Int", false), "orgId": f("Int", false), "name": f("String", false), "secret": f("String", false),
		"score": f("Int", false), "device": f("Device", false), "devices": f("Device", true), "tags": f("String", true),
		"scaled2": f("Int", false), "scaled3": f("Int", false)},
	"Device": {"id": f("Int", false), "isOn": f("Bool", false), "temp": f("Int", false), "owner": f("User", false)},
	"Admin":  {"id": f("Int", false), "power": f("String", false)},
	// the root of a mutation (logical names; they render as newUser / touch) and the real Mutation type
	"MRoot":    {"mNewUser": f("User", false), "mTouch": f("Device", false)},
	"Mutation": {"newUser": f("User", false), "touch": f("Device", false)},
}

func randomPartition(r *rand.Rand) fedzoo.Partition {
	p := fedzoo.Partition{}
	for _, fld := range fedzoo.Fields {
		var ss []string
		for _, s := range fedzoo.Services {
			if r.Intn(3) == 0 {
				ss = append(ss, s)
			}
		}
		if len(ss) == 0 || strings.HasPrefix(fld, "Mutation.") {
			// a mutation field lives on exactly one service (two selections of one mutation field that two services
			// offer may be planned onto both, which the gateway refuses like any mutation spanning services)
			ss = []string{fedzoo.Services[r.Intn(len(fedzoo.Services))]}
		}
		p[fld] = ss
	}
	return p
}

func toTagged(v interface{}) (tj.T, error) {
	b, err := json.Marshal(v)
	if err != nil {
		return tj.T{K: "n"}, err
	}
	return tj.FromJSON(b)
}

func runGateway(e *federation.Executor, text string) (r ex.Run) {
	r.Res = tj.T{K: "n"}
	r.Modes = map[string]string{}
	defer func() {
		if p := recover(); p != nil {
			r.Outcome, r.Err = "crash", fmt.Sprint(p)
		}
	}()
	q, err := graphql.Parse(text, map[string]interface{}{"t": true, "f": false})
	if err != nil {
		r.Outcome, r.Err = "reject", "parse: "+err.Error()
		return
	}
	ctx, cancel := context.WithTimeout(context.Background(), 10*time.Second)
	defer cancel()
	val, _, err := e.Execute(ctx, q, nil)
	if err != nil {
		r.Outcome, r.Err = "error", err.Error()
		return
	}
	t, err := toTagged(val)
	if err != nil {
		r.Outcome, r.Err = "error", "marshal: "+err.Error()
		return
	}
	r.Outcome, r.Res = "ok", t
	return
}

// runGatewayWatched gives the gateway 60 s for one (tiny) query; a gateway that is still busy then is
// recorded as outcome "hang" (the single server answers these queries in well under a millisecond).
func runGatewayWatched(e *federation.Executor, text string) (ex.Run, bool) {
	ch := make(chan ex.Run, 1)
	go func() { ch <- runGateway(e, text) }()
	select {
	case r := <-ch:
		return r, false
	case <-time.After(60 * time.Second):
		return ex.Run{Outcome: "hang", Err: "the gateway did not answer within 60 s", Res: tj.T{K: "n"}, Modes: map[string]string{}}, true
	}
}

func runMonolith(schema *graphql.Schema, text string) (r ex.Run) {
	r.Res = tj.T{K: "n"}
	r.Modes = map[string]string{}
	q, err := graphql.Parse(text, map[string]interface{}{"t": true, "f": false})
	if err != nil {
		r.Outcome, r.Err = "reject", "parse: "+err.Error()
		return
	}
	root := schema.Query
	if q.Kind == "mutation" {
		root = schema.Mutation
	}
	if err := graphql.PrepareQuery(context.Background(), root, q.SelectionSet); err != nil {
		r.Outcome, r.Err = "reject", "prepare: "+err.Error()
		return
	}
	val, err := graphql.NewExecutor(graphql.NewImmediateGoroutineScheduler()).Execute(context.Background(), root, nil, q)
	if err != nil {
		r.Outcome, r.Err = "error", err.Error()
		return
	}
	t, err := toTagged(val)
	if err != nil {
		r.Outcome, r.Err = "error", err.Error()
		return
	}
	r.Outcome, r.Res = "ok", t
	return
}

// Sub is one sub-query a service received.
type Sub struct {
	Svc    string   `json:"svc"`
	Fields []string `json:"fields"` // "Type.field" used, in the service's own type names
	NKeys  int      `json:"nkeys"`  // keys passed through _federation (0 for a root sub-query)
}

// Rec is an exec record (query AST, gateway run, monolith run) plus what the services saw.
type Rec struct {
	ex.Rec
	Subs    []Sub               `json:"subs"`
	Exposes map[string][]string `json:"exposes"`
}

// usedFields lists the "Type.field" pairs a sub-query uses.
func usedFields(q *graphql.Query) (out []string, nkeys int) {
	seen := map[string]bool{}
	var walk func(t string, ss *graphql.SelectionSet)
	walk = func(t string, ss *graphql.SelectionSet) {
		if ss == nil {
			return
		}
		for _, sel := range ss.Selections {
			if sel.Name == "__typename" {
				continue
			}
			k := t + "." + sel.Name
			if !seen[k] {
				seen[k] = true
				out = append(out, k)
			}
			if ft, ok := fields[t][sel.Name]; ok {
				walk(ft[0].(string), sel.SelectionSet)
			} else if sel.Name == "userById" {
				walk("User", sel.SelectionSet)
			} // the key selections under _federation belong to the federation protocol, not to the schema
		}
		for _, fr := range ss.Fragments {
			walk(fr.On, fr.SelectionSet)
		}
	}
	ss := q.SelectionSet
	if len(ss.Selections) == 1 && ss.Selections[0].Name == "_federation" {
		inner := ss.Selections[0].SelectionSet
		for _, sel := range inner.Selections {
			typ := sel.Name
			if i := strings.Index(typ, "_"); i >= 0 {
				typ = typ[i+1:]
			}
			args := sel.UnparsedArgs
			if args == nil {
				if m, ok := sel.Args.(map[string]interface{}); ok {
					args = m
				}
			}
			if ks, ok := args["keys"].([]interface{}); ok {
				nkeys += len(ks)
			}
			walk(typ, sel.SelectionSet)
		}
		return
	}
	if q.Kind == "mutation" {
		walk("Mutation", ss)
		return
	}
	walk("Query", ss)
	return
}

type refreshEv struct {
	Ev  string `json:"ev"`
	Svc string `json:"svc"`
	Scn int    `json:"scn"`
}

// refreshScenario drives one request against the background schema refresh with both parked at
// their hooks, so that the interleaving is chosen by the driver and not by the clock:
//   kind "write-first": the poller is parked inside its write to Executor.Executors, then a request starts;
//   kind "read-first":  a request is parked at its read of Executor.Executors (after it got its planner),
//                       then the poller's tick arrives and it tries to write.
// Events are logged from the hooks in the order they really happen (a parked party logs when it resumes).
func refreshScenario(scn int, kind string) ([]refreshEv, error) {
	var mu sync.Mutex
	var evs []refreshEv
	log := func(ev, svc string) {
		mu.Lock()
		evs = append(evs, refreshEv{Ev: ev, Svc: svc, Scn: scn})
		mu.Unlock()
	}
	writerParked := make(chan struct{}, 1)
	releaseWriter := make(chan struct{})
	readerParked := make(chan struct{}, 1)
	writeEnded := make(chan struct{}, 1)
	releaseReader := make(chan struct{})
	var firstW, firstR int32 = 1, 1
	federation.VerifHook = func(point string, args ...interface{}) {
		switch point {
		case "executors.write.begin":
			log("write.begin", "")
			if atomic.CompareAndSwapInt32(&firstW, 1, 0) {
				writerParked <- struct{}{}
				<-releaseWriter
			}
		case "executors.write.end":
			log("write.end", "")
			select {
			case writeEnded <- struct{}{}:
			default:
			}
		case "executors.read":
			if kind == "read-first" && atomic.CompareAndSwapInt32(&firstR, 1, 0) {
				readerParked <- struct{}{}
				<-releaseReader
			}
			log("read", fmt.Sprint(args[0]))
		}
	}
	defer func() { federation.VerifHook = nil }()
	ctx, cancel := context.WithCancel(context.Background())
	defer cancel()
	p := fedzoo.Partition{}
	for i, fld := range fedzoo.Fields {
		p[fld] = []string{fedzoo.Services[i%3]}
	}
	log("reset", "")
	e, err := fedzoo.Gateway(ctx, p, nil, nil, 1)
	if err != nil {
		return nil, err
	}
	done := make(chan struct{})
	request := func() {
		runGateway(e, "{ users { id secret device { temp } } }")
		close(done)
	}
	switch kind {
	case "write-first":
		select {
		case <-writerParked:
		case <-time.After(5 * time.Second):
			return nil, fmt.Errorf("the schema poller never reached its write")
		}
		go request()
		// give the request time to reach (or block before) its read of the map
		time.Sleep(150 * time.Millisecond)
		log("release", "")
		close(releaseWriter)
	case "read-first":
		go request()
		select {
		case <-readerParked:
		case <-time.After(5 * time.Second):
			return nil, fmt.Errorf("the request never reached its read of the executor map")
		}
		// the poller ticks after 1 s: either it gets into its write while the reader sits at its read
		// (nothing keeps it out), or it waits for the reader
		select {
		case <-writerParked:
			close(releaseReader) // the read happens inside the write
			time.Sleep(100 * time.Millisecond)
			log("release", "")
			close(releaseWriter)
		case <-time.After(2500 * time.Millisecond):
			close(releaseReader)
			select {
			case <-writerParked:
				log("release", "")
				close(releaseWriter)
			case <-time.After(5 * time.Second):
				return nil, fmt.Errorf("the schema poller never reached its write")
			}
		}
	}
	select {
	case <-done:
		log("request.done", "")
	case <-time.After(10 * time.Second):
		log("request.hang", "")
	}
	// the released poller finishes its write before the next scenario installs its own hook
	select {
	case <-writeEnded:
	case <-time.After(5 * time.Second):
		return nil, fmt.Errorf("the schema poller never finished its write")
	}
	cancel()
	time.Sleep(20 * time.Millisecond)
	mu.Lock()
	defer mu.Unlock()
	return evs, nil
}

// Main: vh c06 -zoo zoo.json -out recs.ndjson -partitions 20 -queries 40 -seed 1 [-dirs] [-refresh file -nrefresh 2]
func Main(args []string) error {
	fs := flag.NewFlagSet("c06", flag.ContinueOnError)
	zooOut := fs.String("zoo", "", "")
	out := fs.String("out", "", "")
	nparts := fs.Int("partitions", 10, "")
	nq := fs.Int("queries", 30, "")
	seed := fs.Int64("seed", 1, "")
	dirs := fs.Bool("dirs", false, "")
	refresh := fs.String("refresh", "", "write the refresh-race trace here")
	nrefresh := fs.Int("nrefresh", 2, "")
	one := fs.String("query", "", "run one query text (debugging)")
	dup := fs.Int("dup", 25, "percent of object selections repeated under the same response key")
	if err := fs.Parse(args); err != nil {
		return err
	}
	ex.UseSchema(fields, map[string][]string{"Everyone": {"User", "Admin"}, "Solo": {"User"}})
	ex.UseRendered(fedzoo.Rendered)
	ex.UseDupBias(*dup)
	if *zooOut != "" {
		b, _ := json.Marshal(fedzoo.Describe())
		if err := os.WriteFile(*zooOut, b, 0o644); err != nil {
			return err
		}
	}
	if *refresh != "" {
		w, err := tj.NewWriter(*refresh)
		if err != nil {
			return err
		}
		for i := 0; i < *nrefresh; i++ {
			evs, err := refreshScenario(i+1, []string{"read-first", "write-first"}[i%2])
			if err != nil {
				return err
			}
			for _, e := range evs {
				w.Write(e)
			}
		}
		if err := w.Close(); err != nil {
			return err
		}
	}
	if *one != "" {
		// debugging aid: one query text through a fixed round-robin partition and the monolith
		p := fedzoo.Partition{}
		for i, fld := range fedzoo.Fields {
			p[fld] = []string{fedzoo.Services[i%3]}
		}
		e, err := fedzoo.Gateway(context.Background(), p, nil, nil, 0)
		if err != nil {
			return err
		}
		g := runGateway(e, *one)
		m := runMonolith(fedzoo.Monolith(), *one)
		gb, _ := json.Marshal(g.Res.To())
		mb, _ := json.Marshal(m.Res.To())
		fmt.Printf("GW   %s %s %s\nMONO %s %s %s\n", g.Outcome, g.Err, gb, m.Outcome, m.Err, mb)
		return nil
	}
	if *out == "" {
		return nil
	}
	r := rand.New(rand.NewSource(*seed))
	mono := fedzoo.Monolith()
	w, err := tj.NewWriter(*out)
	if err != nil {
		return err
	}
	i := 0
	for pi := 0; pi < *nparts; pi++ {
		p := randomPartition(r)
		// which service is picked when several can serve a field: stock behaviour, or prefer one service
		var selector federation.ServiceSelector
		prefer := ""
		if r.Intn(2) == 0 {
			prefer = fedzoo.Services[r.Intn(3)]
			selector = func(typeName, fieldName string) string {
				for _, s := range p[typeName+"."+fieldName] {
					if s == prefer {
						return prefer
					}
				}
				return ""
			}
		}
		ctx, cancel := context.WithCancel(context.Background())
		var subMu sync.Mutex
		var subs []Sub
		e, err := fedzoo.Gateway(ctx, p, selector, func(svc string, q *graphql.Query) {
			fl, nk := usedFields(q)
			subMu.Lock()
			subs = append(subs, Sub{Svc: svc, Fields: fl, NKeys: nk})
			subMu.Unlock()
		}, 0)
		exposes := fedzoo.LastExposed
		if err != nil {
			cancel()
			return fmt.Errorf("partition %v: %v", p, err)
		}
		pm := map[string]string{"prefer": prefer}
		for k, v := range p {
			pm[k] = fmt.Sprint(v)
		}
		for qi := 0; qi < *nq; qi++ {
			g := ex.NewGen(r, *dirs)
			ast := g.SelSet("Query", 3)
			if r.Intn(5) == 0 {
				// a mutation: its result is an object whose fields may live on other services than the mutation itself
				ast = g.SelSet("MRoot", 3)
				g.SetOp("mutation")
				// the gateway refuses a mutation whose top-level fields need more than one service ("only support 1
				// mutation step to maintain ordering" - a documented limit, outside C06): one mutation field per query,
				// possibly several times under different response keys
				kept := ast.Sels[:0]
				for _, sl := range ast.Sels {
					if sl.Name == ast.Sels[0].Name {
						kept = append(kept, sl)
					}
				}
				ast.Sels = kept
			}
			text := g.Render(ast)
			i++
			rec := Rec{Subs: []Sub{}, Exposes: exposes}
			rec.Rec = ex.Rec{I: i, Q: ast, Text: text, Fail: map[string]string{}, FailKs: []string{},
				Pruned: ex.Run{Outcome: "none", Res: tj.T{K: "n"}, Modes: map[string]string{}}}
			subMu.Lock()
			subs = nil
			subMu.Unlock()
			gr, hung := runGatewayWatched(e, text)
			subMu.Lock()
			sort.Slice(subs, func(a, b int) bool {
				if subs[a].Svc != subs[b].Svc {
					return subs[a].Svc < subs[b].Svc
				}
				return fmt.Sprint(subs[a].Fields) < fmt.Sprint(subs[b].Fields)
			})
			rec.Subs = append(rec.Subs, subs...)
			subMu.Unlock()
			gr.Sched, gr.Modes = "gateway", pm
			mr := runMonolith(mono, text)
			mr.Sched = "monolith"
			rec.Runs = []ex.Run{gr, mr}
			w.Write(rec)
			if hung {
				// the planner/executor is still spinning on a goroutine that cannot be stopped: the
				// record says so, and the driver ends here rather than compete with it for the CPUs
				cancel()
				return w.Close()
			}
		}
		cancel()
	}
	return w.Close()
}
