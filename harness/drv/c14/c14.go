// Package c14 compares what introspection advertises for the shape gallery with what
// validation accepts and what execution returns: it generates well- and ill-formed
// selection trees over the ADVERTISED schema (not thunder's internal types), runs them
// through the real Parse/PrepareQuery/Execute and records the outcome for
// Conform_Trace.tla (Valid, Conforms).
package c14

import (
	"context"
	"encoding/json"
	"flag"
	"fmt"
	"math/rand"
	"os"
	"sort"
	"strings"
	"sync"
	"time"

	"github.com/samsarahq/thunder/graphql"
	"github.com/samsarahq/thunder/reactive"

	ex "verifharness/drv/exec"
	"verifharness/internal/gallery"
	tj "verifharness/internal/tagjson"
)

type TRef struct {
	K    string `json:"k"` // named | list | nn
	Name string `json:"name"`
	Of   *TRef  `json:"of,omitempty"`
}

type TypeDesc struct {
	Kind    string          `json:"kind"` // OBJECT | UNION | SCALAR | ENUM | INPUT_OBJECT
	Fields  map[string]TRef `json:"fields"`
	Enums   []string        `json:"enums"`
	Members []string        `json:"members"`
}

type Schema struct {
	Types map[string]TypeDesc `json:"types"`
	Query string              `json:"query"`
}

type isType struct {
	Kind   string  `json:"kind"`
	Name   string  `json:"name"`
	OfType *isType `json:"ofType"`
}

func conv(t *isType) TRef {
	switch t.Kind {
	case "NON_NULL":
		o := conv(t.OfType)
		return TRef{K: "nn", Of: &o}
	case "LIST":
		o := conv(t.OfType)
		return TRef{K: "list", Of: &o}
	}
	return TRef{K: "named", Name: t.Name}
}

// FromIntrospection converts introspection JSON into the description Conform.tla reads.
func FromIntrospection(js []byte) (*Schema, error) {
	var doc struct {
		Schema struct {
			QueryType struct{ Name string } `json:"queryType"`
			Types     []struct {
				Kind   string `json:"kind"`
				Name   string `json:"name"`
				Fields []struct {
					Name string `json:"name"`
					Type isType `json:"type"`
				} `json:"fields"`
				EnumValues    []struct{ Name string } `json:"enumValues"`
				PossibleTypes []struct{ Name string } `json:"possibleTypes"`
			} `json:"types"`
		} `json:"__schema"`
	}
	if err := json.Unmarshal(js, &doc); err != nil {
		return nil, err
	}
	s := &Schema{Types: map[string]TypeDesc{}, Query: doc.Schema.QueryType.Name}
	for _, t := range doc.Schema.Types {
		if strings.HasPrefix(t.Name, "__") {
			continue
		}
		d := TypeDesc{Kind: t.Kind, Fields: map[string]TRef{}, Enums: []string{}, Members: []string{}}
		for _, f := range t.Fields {
			if strings.HasPrefix(f.Name, "__") {
				continue
			}
			ft := f.Type
			d.Fields[f.Name] = conv(&ft)
		}
		for _, e := range t.EnumValues {
			d.Enums = append(d.Enums, e.Name)
		}
		for _, m := range t.PossibleTypes {
			d.Members = append(d.Members, m.Name)
		}
		s.Types[t.Name] = d
	}
	return s, nil
}

func base(t TRef) string {
	for t.K != "named" {
		t = *t.Of
	}
	return t.Name
}

type gen struct {
	r *rand.Rand
	s *Schema
}

func (g *gen) fields(t string) []string {
	var ns []string
	for n := range g.s.Types[t].Fields {
		ns = append(ns, n)
	}
	sort.Strings(ns)
	return ns
}

func (g *gen) sel(parent, f string, depth int) *ex.Sel {
	s := &ex.Sel{Alias: f, Name: f, Dirs: []ex.Dir{}, Sub: ex.EmptySet(), ArgText: gallery.FixedArgs[parent+"."+f]}
	if g.r.Intn(8) == 0 {
		s.Alias = "z" + f
	}
	bt := base(g.s.Types[parent].Fields[f])
	switch g.s.Types[bt].Kind {
	case "OBJECT", "UNION":
		s.HasSub = true
		s.Sub = g.set(bt, depth-1)
	}
	return s
}

func tn() *ex.Sel {
	return &ex.Sel{Alias: "__typename", Name: "__typename", Dirs: []ex.Dir{}, Sub: ex.EmptySet()}
}

// set generates a well-formed selection set for type t.
func (g *gen) set(t string, depth int) *ex.SelSet {
	ss := ex.EmptySet()
	td := g.s.Types[t]
	if td.Kind == "UNION" {
		if g.r.Intn(2) == 0 {
			ss.Sels = append(ss.Sels, tn())
		}
		for _, m := range td.Members {
			if g.r.Intn(3) != 0 {
				ss.Frags = append(ss.Frags, &ex.Frag{On: m, Dirs: []ex.Dir{}, Sub: g.set(m, depth-1)})
			}
		}
		if len(ss.Sels)+len(ss.Frags) == 0 {
			ss.Sels = append(ss.Sels, tn())
		}
		return ss
	}
	names := g.fields(t)
	n := 1 + g.r.Intn(5)
	for i := 0; i < n; i++ {
		f := names[g.r.Intn(len(names))]
		bt := base(td.Fields[f])
		k := g.s.Types[bt].Kind
		if (k == "OBJECT" || k == "UNION") && depth <= 0 {
			continue
		}
		if g.r.Intn(9) == 0 && t != g.s.Query {
			ss.Frags = append(ss.Frags, &ex.Frag{On: t, Dirs: []ex.Dir{}, Sub: &ex.SelSet{Sels: []*ex.Sel{g.sel(t, f, depth)}, Frags: []*ex.Frag{}}})
			continue
		}
		ss.Sels = append(ss.Sels, g.sel(t, f, depth))
	}
	if g.r.Intn(6) == 0 || len(ss.Sels)+len(ss.Frags) == 0 {
		ss.Sels = append(ss.Sels, tn())
	}
	return ss
}

// all (selset, parent type) pairs of a tree
type site struct {
	ss *ex.SelSet
	t  string
}

func (g *gen) sites(ss *ex.SelSet, t string, out *[]site) {
	*out = append(*out, site{ss, t})
	td := g.s.Types[t]
	for _, s := range ss.Sels {
		if s.HasSub && s.Name != "__typename" {
			if ft, ok := td.Fields[s.Name]; ok {
				g.sites(s.Sub, base(ft), out)
			}
		}
	}
	for _, f := range ss.Frags {
		g.sites(f.Sub, f.On, out)
	}
}

// mutate makes the tree ill-formed in one place; returns a label ("" = nothing applicable).
func (g *gen) mutate(root *ex.SelSet) string {
	var ss []site
	g.sites(root, g.s.Query, &ss)
	for try := 0; try < 20; try++ {
		st := ss[g.r.Intn(len(ss))]
		td := g.s.Types[st.t]
		switch g.r.Intn(6) {
		case 5: // a fragment on some other type under an object parent (thunder applies it to the parent)
			if td.Kind == "OBJECT" && st.t != g.s.Query {
				var others []string
				for n, d := range g.s.Types {
					if d.Kind == "OBJECT" && n != st.t && n != "Mutation" {
						others = append(others, n)
					}
				}
				sort.Strings(others)
				other := others[g.r.Intn(len(others))]
				var body *ex.SelSet
				switch g.r.Intn(4) {
				case 0: // a selection that is valid for the foreign type
					body = g.set(other, 0)
				case 1: // an unknown field
					body = &ex.SelSet{Sels: []*ex.Sel{{Alias: "nope", Name: "nope", Dirs: []ex.Dir{}, Sub: ex.EmptySet()}}, Frags: []*ex.Frag{}}
				case 2: // a selection that is valid for the parent
					body = g.set(st.t, 0)
				default: // an object field of the parent without sub-selection / a scalar with one
					body = g.set(st.t, 1)
					for _, s := range body.Sels {
						if s.Name != "__typename" {
							s.HasSub = !s.HasSub
							if s.HasSub {
								s.Sub = &ex.SelSet{Sels: []*ex.Sel{tn()}, Frags: []*ex.Frag{}}
							} else {
								s.Sub = ex.EmptySet()
							}
							break
						}
					}
				}
				st.ss.Frags = append(st.ss.Frags, &ex.Frag{On: other, Dirs: []ex.Dir{}, Sub: body})
				return "foreign_fragment"
			}
		case 0: // unknown field
			if td.Kind == "OBJECT" {
				st.ss.Sels = append(st.ss.Sels, &ex.Sel{Alias: "nope", Name: "nope", Dirs: []ex.Dir{}, Sub: ex.EmptySet()})
				return "unknown_field"
			}
		case 1: // sub-selection on a scalar or enum
			for _, s := range st.ss.Sels {
				if ft, ok := td.Fields[s.Name]; ok && !s.HasSub {
					k := g.s.Types[base(ft)].Kind
					if k == "SCALAR" || k == "ENUM" {
						s.HasSub = true
						s.Sub = &ex.SelSet{Sels: []*ex.Sel{tn()}, Frags: []*ex.Frag{}}
						return "sub_on_leaf"
					}
				}
			}
		case 2: // missing sub-selection on an object or union
			for _, s := range st.ss.Sels {
				if s.HasSub && s.Name != "__typename" {
					s.HasSub = false
					s.Sub = ex.EmptySet()
					return "missing_sub"
				}
			}
		case 3: // a field selected directly on a union
			if td.Kind == "UNION" {
				st.ss.Sels = append(st.ss.Sels, &ex.Sel{Alias: "id", Name: "id", Dirs: []ex.Dir{}, Sub: ex.EmptySet()})
				return "field_on_union"
			}
		case 4: // sub-selection on __typename
			for _, s := range st.ss.Sels {
				if s.Name == "__typename" {
					s.HasSub = true
					s.Sub = &ex.SelSet{Sels: []*ex.Sel{tn()}, Frags: []*ex.Frag{}}
					return "sub_on_typename"
				}
			}
		}
	}
	return ""
}

type Rec struct {
	I        int        `json:"i"`
	Text     string     `json:"text"`
	Q        *ex.SelSet `json:"q"`
	Mutation string     `json:"mutation"`
	Parsed   bool       `json:"parsed"`
	Prepared bool       `json:"prepared"`
	PErr     string     `json:"perr"`
	Outcome  string     `json:"outcome"` // none | ok | error | crash
	Err      string     `json:"err"`
	Res      tj.T       `json:"res"`
}

func runOne(schema *graphql.Schema, text string, cached bool) (r Rec) {
	r.Res = tj.T{K: "n"}
	r.Outcome = "none"
	defer func() {
		if p := recover(); p != nil {
			r.Outcome = "crash"
			r.Err = fmt.Sprint(p)
		}
	}()
	q, err := graphql.Parse(text, nil)
	if err != nil {
		r.PErr = "parse: " + err.Error()
		return
	}
	r.Parsed = true
	if err := graphql.PrepareQuery(context.Background(), schema.Query, q.SelectionSet); err != nil {
		r.PErr = err.Error()
		return
	}
	r.Prepared = true
	var val interface{}
	if cached {
		// as the HTTP handler and the websocket server do: inside a reactive computation, expensive fields cached
		done := make(chan struct{})
		var once sync.Once
		rr := reactive.NewRerunner(context.Background(), func(ctx context.Context) (interface{}, error) {
			v, e := graphql.NewExecutor(graphql.NewImmediateGoroutineScheduler()).Execute(ctx, schema.Query, nil, q)
			once.Do(func() {
				val, err = v, e
				close(done)
			})
			return nil, nil
		}, time.Hour, false)
		select {
		case <-done:
			rr.Stop()
		case <-time.After(20 * time.Second):
			r.Outcome, r.Err = "hang", "Execute inside a reactive computation did not return within 20 s"
			return
		}
	} else {
		val, err = graphql.NewExecutor(ex.NewSeqScheduler("fifo")).Execute(context.Background(), schema.Query, nil, q)
	}
	if err != nil {
		r.Outcome, r.Err = "error", err.Error()
		return
	}
	b, err := json.Marshal(val)
	if err != nil {
		r.Outcome, r.Err = "error", "marshal: "+err.Error()
		return
	}
	t, err := tj.FromJSON(b)
	if err != nil {
		r.Outcome, r.Err = "error", "unmarshal: "+err.Error()
		return
	}
	r.Outcome, r.Res = "ok", t
	return
}

// Main: vh c14 -schema schema.json -out recs.ndjson -n 500 -seed 1 [-queries file]
func Main(args []string) error {
	fs := flag.NewFlagSet("c14", flag.ContinueOnError)
	schemaOut := fs.String("schema", "", "write the advertised schema here")
	out := fs.String("out", "", "")
	n := fs.Int("n", 300, "")
	seed := fs.Int64("seed", 1, "")
	queries := fs.String("queries", "", "ndjson of TLC-generated selection trees")
	if err := fs.Parse(args); err != nil {
		return err
	}
	js, schema, err := gallery.Advertised()
	if err != nil {
		return err
	}
	adv, err := FromIntrospection(js)
	if err != nil {
		return err
	}
	if *schemaOut != "" {
		b, _ := json.Marshal(adv)
		if err := os.WriteFile(*schemaOut, b, 0o644); err != nil {
			return err
		}
	}
	if *out == "" {
		return nil
	}
	w, err := tj.NewWriter(*out)
	if err != nil {
		return err
	}
	g := &gen{r: rand.New(rand.NewSource(*seed)), s: adv}
	emit := func(i int, q *ex.SelSet, mut string) {
		text := ex.RenderPlain(q)
		r := runOne(schema, text, i%2 == 1)
		r.I, r.Text, r.Q, r.Mutation = i, text, q, mut
		w.Write(r)
	}
	if *queries != "" {
		f, err := os.ReadFile(*queries)
		if err != nil {
			return err
		}
		for i, line := range strings.Split(strings.TrimSpace(string(f)), "\n") {
			var ss ex.SelSet
			if err := json.Unmarshal([]byte(line), &ss); err != nil {
				return err
			}
			ex.Fix(&ss)
			g.fillArgs(&ss, adv.Query)
			emit(i+1, &ss, "tlc")
		}
		return w.Close()
	}
	// directed: the same object reached at two places, the same field selected at both under one response key
	// with different sub-selections (the fields of each place must be exactly the ones selected there)
	twice := func() *ex.SelSet {
		names := g.fields("Shapes")
		var f string
		for k := 0; k < 50; k++ {
			f = names[g.r.Intn(len(names))]
			if kd := g.s.Types[base(g.s.Types["Shapes"].Fields[f])].Kind; kd == "OBJECT" || kd == "UNION" {
				break
			}
			f = "mExpensive"
		}
		mk := func(root string) *ex.Sel {
			inner := g.sel("Shapes", f, 2)
			inner.Alias = f
			return &ex.Sel{Alias: root, Name: root, Dirs: []ex.Dir{}, HasSub: true, ArgText: gallery.FixedArgs[adv.Query+"."+root],
				Sub: &ex.SelSet{Sels: []*ex.Sel{inner}, Frags: []*ex.Frag{}}}
		}
		roots := [][2]string{{"shapes", "shapeList"}, {"shapeList", "shapes"}, {"shapes", "shapes"}}[g.r.Intn(3)]
		a, b := mk(roots[0]), mk(roots[1])
		if roots[0] == roots[1] {
			b.Alias = "again"
		}
		return &ex.SelSet{Sels: []*ex.Sel{a, b}, Frags: []*ex.Frag{}}
	}
	for i := 0; i < *n; i++ {
		q := g.set(adv.Query, 3)
		if i%8 == 7 {
			q = twice()
		}
		mut := ""
		if g.r.Intn(3) == 0 {
			mut = g.mutate(q)
		}
		emit(i+1, q, mut)
	}
	return w.Close()
}

// fillArgs puts the fixed argument text on fields that need arguments.
func (g *gen) fillArgs(ss *ex.SelSet, t string) {
	td := g.s.Types[t]
	for _, s := range ss.Sels {
		s.ArgText = gallery.FixedArgs[t+"."+s.Name]
		if ft, ok := td.Fields[s.Name]; ok && s.HasSub {
			g.fillArgs(s.Sub, base(ft))
		}
	}
	for _, f := range ss.Frags {
		g.fillArgs(f.Sub, f.On)
	}
}
