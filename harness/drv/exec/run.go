package exec

import (
	"context"
	"encoding/json"
	"flag"
	"fmt"
	"math/rand"
	"os"
	"regexp"
	"strings"
	"sync"
	"time"

	"github.com/samsarahq/thunder/graphql"
	"github.com/samsarahq/thunder/reactive"

	tj "verifharness/internal/tagjson"
	"verifharness/internal/zoo"
)

// ---- work schedulers (graphql.WorkScheduler is a public interface) ----

type seqScheduler struct {
	mode string // fifo | lifo | rand
	r    *rand.Rand
}

func (s *seqScheduler) Run(resolver graphql.UnitResolver, units ...*graphql.WorkUnit) {
	q := append([]*graphql.WorkUnit{}, units...)
	for len(q) > 0 {
		var u *graphql.WorkUnit
		switch s.mode {
		case "fifo":
			u, q = q[0], q[1:]
		case "lifo":
			u, q = q[len(q)-1], q[:len(q)-1]
		default:
			i := s.r.Intn(len(q))
			u = q[i]
			q = append(q[:i], q[i+1:]...)
		}
		q = append(q, resolver(u)...)
	}
}

// concScheduler runs every unit in its own goroutine after a random short delay.
type concScheduler struct {
	r  *rand.Rand
	mu sync.Mutex
}

func (s *concScheduler) Run(resolver graphql.UnitResolver, units ...*graphql.WorkUnit) {
	var wg sync.WaitGroup
	var enqueue func(us ...*graphql.WorkUnit)
	enqueue = func(us ...*graphql.WorkUnit) {
		for _, u := range us {
			u := u
			s.mu.Lock()
			d := time.Duration(s.r.Intn(60)) * time.Microsecond
			s.mu.Unlock()
			wg.Add(1)
			go func() {
				defer wg.Done()
				time.Sleep(d)
				enqueue(resolver(u)...)
			}()
		}
	}
	enqueue(units...)
	wg.Wait()
}

// choiceScheduler runs every unit on the calling goroutine and picks the next unit by a prescribed
// sequence of choices (0 beyond its end), recording how many units it could choose from at every step:
// the driver enumerates ALL schedules of a query depth-first from these widths (stateless exploration).
type choiceScheduler struct {
	choices []int
	widths  []int
}

func (s *choiceScheduler) Run(resolver graphql.UnitResolver, units ...*graphql.WorkUnit) {
	q := append([]*graphql.WorkUnit{}, units...)
	for len(q) > 0 {
		step := len(s.widths)
		s.widths = append(s.widths, len(q))
		i := 0
		if step < len(s.choices) {
			i = s.choices[step]
		}
		if i >= len(q) {
			i = len(q) - 1
		}
		u := q[i]
		q = append(q[:i], q[i+1:]...)
		q = append(q, resolver(u)...)
	}
}

// nextChoices advances a choice sequence to the next schedule in depth-first order (nil when done).
func nextChoices(choices, widths []int) []int {
	c := make([]int, len(widths))
	copy(c, choices)
	for i := len(widths) - 1; i >= 0; i-- {
		if c[i]+1 < widths[i] {
			c[i]++
			return c[:i+1]
		}
	}
	return nil
}

func scheduler(name string, r *rand.Rand) graphql.WorkScheduler {
	switch name {
	case "stock":
		return graphql.NewImmediateGoroutineScheduler()
	case "conc":
		return &concScheduler{r: r}
	}
	return &seqScheduler{mode: name, r: r}
}

// NewSeqScheduler returns a scheduler that runs every work unit on the calling goroutine
// (mode fifo | lifo), so that a panic inside the executor itself can be recovered by the caller.
func NewSeqScheduler(mode string) graphql.WorkScheduler { return &seqScheduler{mode: mode} }

var schedNames = []string{"stock", "fifo", "lifo", "rand", "conc"}

// ---- scheduling traces for ExecSched_Trace.tla ----

type schedEv struct {
	Ev   string `json:"ev"`
	U    int    `json:"u,omitempty"`
	Us   []int  `json:"us,omitempty"`
	Kids []int  `json:"kids,omitempty"`
	E    int    `json:"e"`
	N    int    `json:"n"`
	Q    int    `json:"q,omitempty"`
	S    string `json:"s,omitempty"`
}

// schedTracer logs one line per action of ExecSched.tla, in the order the lines are written under its lock:
// `start` before and `finish` after every resolver(u) call of whatever scheduler runs the units, the
// errorRecorder hooks, and what Execute returned.
type schedTracer struct {
	mu    sync.Mutex
	f     *os.File
	on    bool
	run   int // generation: events of an earlier run are late
	ids   map[*graphql.WorkUnit]int
	errs  map[string]int
	late  int
	maxU  int
	lines int
	q     int
	name  string
}

// currentRun is what the main loop is about to execute: if the process dies inside thunder, the check re-runs
// exactly this in a fresh process to see whether the death repeats.
type currentRun struct {
	World  int64             `json:"world"`
	Modes  map[string]string `json:"modes"`
	Sched  string            `json:"sched"`
	Text   string            `json:"text"`
	Fail   map[string]string `json:"fail"`
	Cached bool              `json:"cached"`
}

var tracer *schedTracer

// cachedRuns: execute inside a reactive.Rerunner (set per run by the main loop)
var cachedRuns bool

func (t *schedTracer) emit(e schedEv) {
	if e.Us == nil && e.Ev == "run" {
		e.Us = []int{}
	}
	if e.Kids == nil && e.Ev == "finish" {
		e.Kids = []int{}
	}
	b, _ := json.Marshal(e)
	s := string(b)
	// omitempty drops empty slices: the specification reads them
	if e.Ev == "run" && len(e.Us) == 0 {
		s = strings.Replace(s, `{"ev":"run"`, `{"ev":"run","us":[]`, 1)
	}
	if e.Ev == "finish" && len(e.Kids) == 0 {
		s = strings.Replace(s, `"e":`, `"kids":[],"e":`, 1)
	}
	t.f.WriteString(s + "\n")
	t.lines++
}

func (t *schedTracer) id(u *graphql.WorkUnit) int {
	if i, ok := t.ids[u]; ok {
		return i
	}
	i := len(t.ids) + 1
	t.ids[u] = i
	if i > t.maxU {
		t.maxU = i
	}
	return i
}

func (t *schedTracer) begin(q int, name string, inner graphql.WorkScheduler) graphql.WorkScheduler {
	t.mu.Lock()
	defer t.mu.Unlock()
	t.run++
	t.ids, t.errs = map[*graphql.WorkUnit]int{}, map[string]int{}
	t.emit(schedEv{Ev: "reset", Q: q, S: name})
	gen := t.run
	graphql.VerifHook = func(point string, args ...interface{}) {
		if point != "err.first" && point != "err.record" {
			return
		}
		t.mu.Lock()
		defer t.mu.Unlock()
		if gen != t.run {
			t.late++
			return
		}
		msg := args[1].(error).Error()
		k, ok := t.errs[msg]
		if !ok {
			k = len(t.errs) + 1
			t.errs[msg] = k
		}
		t.emit(schedEv{Ev: map[string]string{"err.first": "errfirst", "err.record": "errrec"}[point], E: k})
	}
	return &tracingScheduler{inner: inner, t: t, gen: gen}
}

func (t *schedTracer) end(err error) {
	t.mu.Lock()
	defer t.mu.Unlock()
	e := 0
	if err != nil {
		e = 999
		if k, ok := t.errs[err.Error()]; ok {
			e = k
		}
	}
	t.emit(schedEv{Ev: "outcome", E: e})
	t.run++ // whatever still arrives belongs to a run that is over
	graphql.VerifHook = nil
}

type tracingScheduler struct {
	inner graphql.WorkScheduler
	t     *schedTracer
	gen   int
}

func (s *tracingScheduler) log(f func() schedEv) {
	s.t.mu.Lock()
	defer s.t.mu.Unlock()
	if s.gen != s.t.run {
		s.t.late++
		return
	}
	s.t.emit(f())
}

func (s *tracingScheduler) Run(resolver graphql.UnitResolver, units ...*graphql.WorkUnit) {
	s.log(func() schedEv {
		e := schedEv{Ev: "run"}
		for _, u := range units {
			e.Us = append(e.Us, s.t.id(u))
		}
		return e
	})
	s.inner.Run(func(u *graphql.WorkUnit) []*graphql.WorkUnit {
		s.log(func() schedEv { return schedEv{Ev: "start", U: s.t.id(u)} })
		kids := resolver(u)
		s.log(func() schedEv {
			e := schedEv{Ev: "finish", U: s.t.id(u)}
			for _, k := range kids {
				e.Kids = append(e.Kids, s.t.id(k))
			}
			return e
		})
		return kids
	}, units...)
	s.log(func() schedEv { return schedEv{Ev: "return"} })
}

// ---- records ----

type Run struct {
	Modes   map[string]string `json:"modes"`
	Sched   string            `json:"sched"`
	Outcome string            `json:"outcome"` // ok | reject | error
	Res     tj.T              `json:"res"`
	Err     string            `json:"err"`      // error text (stack traces cut)
	EPath   string            `json:"epath"`    // response path prefix of the error ("" if none)
	EKey    string            `json:"ekey"`     // injected failure it names ("" if none)
	EKind   string            `json:"ekind"`    // plain | safe | wrapped | panic | other
	Leak    bool              `json:"leak"`     // reserved for the websocket part
	NSched  int               `json:"nsched"`   // allsched: how many enumerated schedules gave exactly this outcome
}

type Rec struct {
	I      int               `json:"i"`
	Text   string            `json:"text"`
	Q      *SelSet           `json:"q"`
	Fail   map[string]string `json:"fail"`
	FailKs []string          `json:"failks"`
	Runs   []Run             `json:"runs"`
	Pruned Run               `json:"pruned"` // the textually pruned query under the first configuration (C19)
	PText  string            `json:"ptext"`
	NSched         int  `json:"nsched"`         // allsched: schedules enumerated for this query
	SchedExhausted bool `json:"schedexhausted"` // ... and whether that was all of them
}

var keyRe = regexp.MustCompile(`(secret-plain|safe|wrapped|secret-inner|secret-panic):([a-z0-9]+\.[a-zA-Z0-9]+)`)

func classifyErr(err error, r *Run) {
	msg := err.Error()
	if i := strings.Index(msg, "\n"); i >= 0 {
		msg = msg[:i] // cut the stack trace of a recovered panic
	}
	r.Err = msg
	// the text a client would be sent: nothing of a plain error or of the cause wrapped in a safe one
	r.Leak = strings.Contains(graphql.SanitizeError(err), "secret-")
	r.EKind = "other"
	if m := keyRe.FindStringSubmatch(msg); m != nil {
		r.EKey = m[2]
		r.EKind = map[string]string{"secret-plain": "plain", "safe": "safe", "wrapped": "wrapped", "secret-inner": "leak", "secret-panic": "panic"}[m[1]]
		idx := strings.Index(msg, m[0])
		prefix := msg[:idx]
		prefix = strings.TrimSuffix(prefix, "graphql: panic: ")
		prefix = strings.TrimSuffix(prefix, ": ")
		r.EPath = prefix
	}
}

func execute(schema *graphql.Schema, text string, sched graphql.WorkScheduler) (r Run) {
	defer func() {
		if p := recover(); p != nil {
			r.Outcome = "crash"
			r.Err = fmt.Sprint(p)
			r.Res = tj.T{K: "n"}
		}
	}()
	r.Res = tj.T{K: "n"}
	vars := map[string]interface{}{"t": true, "f": false}
	q, err := graphql.Parse(text, vars)
	if err != nil {
		r.Outcome, r.Err = "reject", "parse: "+err.Error()
		return
	}
	if err := graphql.PrepareQuery(context.Background(), schema.Query, q.SelectionSet); err != nil {
		r.Outcome, r.Err = "reject", "prepare: "+err.Error()
		return
	}
	traced := tracer != nil && tracer.on
	if traced {
		sched = tracer.begin(tracer.q, tracer.name, sched)
	}
	var val interface{}
	if cachedRuns {
		// the way the HTTP handler and the websocket server run a query: inside a reactive computation, where
		// expensive fields go through reactive.Cache keyed by (field, source, selection)
		done := make(chan struct{})
		var once sync.Once
		rr := reactive.NewRerunner(context.Background(), func(ctx context.Context) (interface{}, error) {
			v, e := graphql.NewExecutor(sched).Execute(ctx, schema.Query, nil, q)
			once.Do(func() {
				val, err = v, e
				close(done)
			})
			return nil, nil
		}, time.Hour, false)
		select {
		case <-done:
		case <-time.After(20 * time.Second):
			// the zoo's resolvers return at once: a computation that is still not done has deadlocked
			// (its goroutines are left behind; Stop would wait for them)
			r.Outcome, r.Err = "hang", "Execute inside a reactive computation did not return within 20 s"
			if traced {
				tracer.end(nil)
			}
			return
		}
		rr.Stop()
	} else {
		val, err = graphql.NewExecutor(sched).Execute(context.Background(), schema.Query, nil, q)
	}
	if traced {
		tracer.end(err)
	}
	if err != nil {
		r.Outcome = "error"
		classifyErr(err, &r)
		if val != nil {
			r.Outcome = "error+data"
		}
		return
	}
	b, err := json.Marshal(val)
	if err != nil {
		r.Outcome, r.Err = "error", "marshal: "+err.Error()
		return
	}
	t, err := tj.FromJSON(b)
	if err != nil {
		r.Outcome, r.Err = "error", "unmarshal: "+err.Error()
		return
	}
	r.Outcome, r.Res = "ok", t
	return
}

// Main: vh exec -zoo zoo.json -out recs.ndjson -n 500 -seed 1 [-dirs] [-fail 2] [-runs 4] [-world 7]
func Main(args []string) error {
	fs := flag.NewFlagSet("exec", flag.ContinueOnError)
	zooOut := fs.String("zoo", "", "write the zoo description here")
	out := fs.String("out", "", "records file")
	n := fs.Int("n", 200, "number of queries")
	seed := fs.Int64("seed", 1, "")
	dirs := fs.Bool("dirs", false, "emit @skip/@include")
	fail := fs.Int("fail", 0, "max size of the injected failure set")
	runs := fs.Int("runs", 4, "configurations (mode assignment x scheduler) per query")
	worldSeed := fs.Int64("world", 1, "data graph seed")
	depth := fs.Int("depth", 3, "")
	queries := fs.String("queries", "", "ndjson of TLC-generated query ASTs to run instead of random ones")
	current := fs.String("current", "", "before every run, write what is about to be executed here (read back by -one after a crash)")
	one := fs.String("one", "", "internal: re-run the single run described in this file 20 times and print its outcomes")
	schedTrace := fs.String("schedtrace", "", "write the scheduling trace of every run of the main loop here (ExecSched_Trace.tla)")
	allSched := fs.Int("allsched", 0, "additionally enumerate every schedule of every query depth-first, up to this many per query")
	if err := fs.Parse(args); err != nil {
		return err
	}
	w := zoo.NewWorld(*worldSeed)
	if *zooOut != "" {
		b, _ := json.Marshal(w.Describe())
		if err := os.WriteFile(*zooOut, b, 0o644); err != nil {
			return err
		}
	}
	r := rand.New(rand.NewSource(*seed))
	// schemas are cached per mode assignment
	schemas := map[string]*graphql.Schema{}
	schemaFor := func(modes map[string]string) *graphql.Schema {
		b, _ := json.Marshal(modes)
		if s, ok := schemas[string(b)]; ok {
			return s
		}
		s := zoo.Build(w, modes)
		schemas[string(b)] = s
		return s
	}
	if *one != "" {
		b, err := os.ReadFile(*one)
		if err != nil {
			return err
		}
		var c currentRun
		if err := json.Unmarshal(b, &c); err != nil {
			return err
		}
		w.Fail = c.Fail
		for k := 0; k < 20; k++ {
			cachedRuns = c.Cached
			run := execute(schemaFor(c.Modes), c.Text, scheduler(c.Sched, r))
			fmt.Printf("ONE outcome=%s\n", run.Outcome)
		}
		return nil
	}
	randModes := func() map[string]string {
		m := map[string]string{}
		for _, f := range zoo.ModedFields {
			m[f] = zoo.Modes[r.Intn(len(zoo.Modes))]
		}
		for _, f := range []string{"Query.a1", "Query.as", "Query.us"} {
			m[f] = []string{"plain", "expensive"}[r.Intn(2)]
		}
		return m
	}
	var asts []*SelSet
	var gens []*gen
	if *queries != "" {
		f, err := os.ReadFile(*queries)
		if err != nil {
			return err
		}
		for _, line := range strings.Split(strings.TrimSpace(string(f)), "\n") {
			var ss SelSet
			if err := json.Unmarshal([]byte(line), &ss); err != nil {
				return fmt.Errorf("queries: %v", err)
			}
			fix(&ss)
			asts = append(asts, &ss)
			gens = append(gens, &gen{defs: map[string]*SelSet{}, defOn: map[string]string{}})
		}
	} else {
		for i := 0; i < *n; i++ {
			g := &gen{r: r, dirs: *dirs, defs: map[string]*SelSet{}, defOn: map[string]string{}}
			asts = append(asts, g.rootset("Query", *depth))
			gens = append(gens, g)
		}
	}
	wr, err := tj.NewWriter(*out)
	if err != nil {
		return err
	}
	if *schedTrace != "" {
		f, err := os.Create(*schedTrace)
		if err != nil {
			return err
		}
		tracer = &schedTracer{f: f}
		defer func() {
			// stray goroutines of a scheduler that returned early get a moment to show up
			time.Sleep(50 * time.Millisecond)
			tracer.mu.Lock()
			tracer.emit(schedEv{Ev: "late", N: tracer.late})
			fmt.Fprintf(os.Stderr, "schedtrace: %d lines, max %d units\n", tracer.lines, tracer.maxU)
			os.WriteFile(*schedTrace+".maxu", []byte(fmt.Sprint(tracer.maxU)), 0o644)
			tracer.f.Close()
			tracer.mu.Unlock()
		}()
	}
	failKeys := w.FailKeys()
	kinds := []string{"plain", "safe", "wrapped", "panic"}
	for i, ast := range asts {
		rec := Rec{I: i + 1, Q: ast, Text: gens[i].Render(ast), Fail: map[string]string{}, FailKs: []string{},
			Pruned: Run{Outcome: "none", Res: tj.T{K: "n"}, Modes: map[string]string{}}}
		if *fail > 0 {
			for k := r.Intn(*fail + 1); k > 0; k-- {
				key := failKeys[r.Intn(len(failKeys))]
				rec.Fail[key] = kinds[r.Intn(len(kinds))]
			}
			for k := range rec.Fail {
				rec.FailKs = append(rec.FailKs, k)
			}
		}
		w.Fail = rec.Fail
		for j := 0; j < *runs; j++ {
			modes := randModes()
			sn := schedNames[r.Intn(len(schedNames))]
			if j == 0 {
				sn = "stock"
			}
			if tracer != nil {
				tracer.on, tracer.q, tracer.name = true, rec.I, sn
			}
			cachedRuns = j > 0 && r.Intn(3) == 0
			if *current != "" {
				b, _ := json.Marshal(currentRun{World: *worldSeed, Modes: modes, Sched: sn, Text: rec.Text, Fail: rec.Fail, Cached: cachedRuns})
				os.WriteFile(*current, b, 0o644)
			}
			run := execute(schemaFor(modes), rec.Text, scheduler(sn, r))
			if cachedRuns {
				sn += "+cache"
			}
			cachedRuns = false
			if tracer != nil {
				tracer.on = false
			}
			run.Modes, run.Sched = modes, sn
			rec.Runs = append(rec.Runs, run)
		}
		if *allSched > 0 {
			// every order in which a sequential scheduler can run the work units of this query (one mode
			// assignment per query); runs with the same outcome are recorded once, with their number
			modes := randModes()
			schema := schemaFor(modes)
			seen := map[string]int{}
			var choices []int
			n := 0
			for n < *allSched {
				cs := &choiceScheduler{choices: choices}
				run := execute(schema, rec.Text, cs)
				n++
				sig, _ := json.Marshal([]interface{}{run.Outcome, run.Res, run.EKey, run.EPath, run.EKind})
				if at, ok := seen[string(sig)]; ok {
					rec.Runs[at].NSched++
				} else {
					run.Modes, run.Sched, run.NSched = modes, fmt.Sprintf("dfs%v", cs.choices), 1
					seen[string(sig)] = len(rec.Runs)
					rec.Runs = append(rec.Runs, run)
				}
				choices = nextChoices(cs.choices, cs.widths)
				if choices == nil {
					rec.SchedExhausted = true
					break
				}
			}
			rec.NSched = n
		}
		if *dirs {
			p := Prune(ast)
			if !hasEmpty(p, true) {
				pg := &gen{defs: map[string]*SelSet{}, defOn: map[string]string{}}
				rec.PText = pg.Render(p)
				run := execute(schemaFor(rec.Runs[0].Modes), rec.PText, scheduler("stock", r))
				run.Modes, run.Sched = rec.Runs[0].Modes, "stock"
				rec.Pruned = run
			}
		}
		wr.Write(rec)
	}
	w.Fail = map[string]string{}
	return wr.Close()
}

// fix fills in what TLC's JSON leaves out (empty sequences are fine; nil sub-sets are not).
// Fix fills in what TLC's JSON leaves out.
func Fix(ss *SelSet) { fix(ss) }

func fix(ss *SelSet) {
	if ss.Sels == nil {
		ss.Sels = []*Sel{}
	}
	if ss.Frags == nil {
		ss.Frags = []*Frag{}
	}
	for _, s := range ss.Sels {
		if s.Dirs == nil {
			s.Dirs = []Dir{}
		}
		if s.Sub == nil {
			s.Sub = emptySet()
		}
		fix(s.Sub)
	}
	for _, f := range ss.Frags {
		if f.Dirs == nil {
			f.Dirs = []Dir{}
		}
		if f.Sub == nil {
			f.Sub = emptySet()
		}
		fix(f.Sub)
	}
}
