// Package exec generates GraphQL queries over the zoo as ASTs, renders them to
// text, runs them through thunder's real Parse / PrepareQuery / Execute under
// every execution mode and several work schedulers, and records the outcomes
// for Exec_Trace.tla, whose reference evaluation (Eval, Prune, Failures) decides
// each record.
package exec

import (
	"fmt"
	"math/rand"
	"sort"
	"strings"
)

type Dir struct {
	Name string `json:"name"` // skip | include
	If   bool   `json:"if"`
	v    int    // render the condition as a literal (0), through a supplied variable (1), through the default of a variable that is not supplied (2)
}

type Sel struct {
	Alias  string  `json:"alias"`
	Name   string  `json:"name"`
	Dirs   []Dir   `json:"dirs"`
	HasSub bool    `json:"hassub"`
	Sub    *SelSet `json:"sub"`

	ArgText string `json:"-"` // rendered verbatim after the field name, e.g. "(n: 4)"
	RName   string `json:"-"` // the field's name in the query text when it differs from the logical Name
}

type Frag struct {
	On   string  `json:"on"`
	Dirs []Dir   `json:"dirs"`
	Sub  *SelSet `json:"sub"`
	def  string  // name of the fragment definition this spread uses ("" = inline)
}

type SelSet struct {
	Sels  []*Sel  `json:"sels"`
	Frags []*Frag `json:"frags"`
}

func emptySet() *SelSet { return &SelSet{Sels: []*Sel{}, Frags: []*Frag{}} }

// EmptySet is an empty selection set (never nil slices, for the JSON bridge).
func EmptySet() *SelSet { return emptySet() }

// RenderPlain renders a query without variables or named fragments.
func RenderPlain(root *SelSet) string {
	var b strings.Builder
	renderSet(root, &b)
	return b.String()
}

// logical schema used by the generator (mirrors zoo.Describe)
type ftype struct {
	typ  string // Int | String | A | B | U
	list bool
}

var schema = map[string]map[string]ftype{
	"Query": {"a1": {"A", false}, "aNil": {"A", false}, "as": {"A", true}, "u1": {"U", false}, "u2": {"U", false},
		"uNil": {"U", false}, "us": {"U", true}, "n": {"Int", false}},
	"A": {"id": {"Int", false}, "x": {"Int", false}, "name": {"String", false}, "b": {"B", false}, "bv": {"B", false}, "bs": {"B", true}, "vbs": {"B", true},
		"u": {"U", false}, "sq": {"Int", false}},
	"B": {"id": {"Int", false}, "y": {"Int", false}, "tag": {"String", false}, "a": {"A", false}, "as": {"A", true}},
}

// Unions lists the member types of every union of the schema the generator works on.
var unions = map[string][]string{"U": {"A", "B"}}

// UseSchema points the generator at another logical schema (fields per object type, members per union).
func UseSchema(fields map[string]map[string][2]interface{}, us map[string][]string) {
	schema = map[string]map[string]ftype{}
	for t, fs := range fields {
		schema[t] = map[string]ftype{}
		for f, d := range fs {
			schema[t][f] = ftype{typ: d[0].(string), list: d[1].(bool)}
		}
	}
	unions = us
	rendered = map[string][2]string{}
	dupBias = 0
}

// rendered maps "Type.logicalField" to (real field name, argument text): a field with arguments is,
// for the reference, one logical field per argument value (scaled2 = scaled(by: 2)).
var rendered = map[string][2]string{}

// dupBias (percent) is how often a selection with sub-selections is emitted a second time with a
// different sub-selection under the same response key.
var dupBias = 0

// UseRendered registers logical fields that render as a real field with arguments; UseDupBias sets dupBias.
func UseRendered(m map[string][2]string) { rendered = m }
func UseDupBias(pct int)                 { dupBias = pct }

// NewGen returns a query generator (for other drivers).
func NewGen(r *rand.Rand, dirs bool) *Gen {
	return &Gen{g: &gen{r: r, dirs: dirs, defs: map[string]*SelSet{}, defOn: map[string]string{}}}
}

// Gen is the exported face of the generator.
type Gen struct{ g *gen }

func (g *Gen) SelSet(root string, depth int) *SelSet { return g.g.rootset(root, depth) }
func (g *Gen) Render(ss *SelSet) string              { return g.g.Render(ss) }

// SetOp makes Render write another operation keyword ("mutation").
func (g *Gen) SetOp(op string) { g.g.op = op }

func fieldNames(t string) []string {
	var ns []string
	for n := range schema[t] {
		ns = append(ns, n)
	}
	sort.Strings(ns)
	return ns
}

func isScalar(t string) bool { _, obj := schema[t]; _, un := unions[t]; return !obj && !un }

type gen struct {
	r     *rand.Rand
	dirs  bool               // emit @skip/@include
	defs  map[string]*SelSet // fragment definitions by name
	defOn map[string]string
	nDef  int
	op    string // operation keyword ("" = query)
}

func (g *gen) dirsFor() []Dir {
	ds := []Dir{}
	if !g.dirs || g.r.Intn(3) != 0 {
		return ds
	}
	mk := func(name string) Dir { return Dir{Name: name, If: g.r.Intn(2) == 0, v: []int{0, 0, 0, 1, 1, 2, 2}[g.r.Intn(7)]} }
	switch g.r.Intn(4) {
	case 0:
		ds = append(ds, mk("skip"))
	case 1:
		ds = append(ds, mk("include"))
	case 2:
		ds = append(ds, mk("skip"), mk("include"))
	default:
		ds = append(ds, mk("include"), mk("skip"))
	}
	return ds
}

// rootset is selset for the root of a query; one query in ten (zoo schema only) is the twin-spread shape: one named
// fragment spread at two places, at each of which a later fragment selects the same object field under the same
// response key with a sub-selection of its own - the merged field must get, at each place, its own partner's fields.
func (g *gen) rootset(t string, depth int) *SelSet {
	if t != "Query" || g.r.Intn(10) != 0 {
		return g.selset(t, depth)
	}
	if _, ok := schema["A"]["b"]; !ok || schema["B"]["tag"].typ != "String" {
		return g.selset(t, depth)
	}
	leaf := func(name, alias string) *Sel { return &Sel{Name: name, Alias: alias, Dirs: []Dir{}, Sub: emptySet()} }
	scal := [][2]string{{"id", "id"}, {"y", "y"}, {"tag", "tag"}, {"id", "zid"}, {"y", "zy"}, {"tag", "ztag"}, {"id", "i2"}}
	g.r.Shuffle(len(scal), func(i, j int) { scal[i], scal[j] = scal[j], scal[i] })
	nShared := []int{3, 3, 5}[g.r.Intn(3)] // list lengths that leave spare capacity in the parser's slices
	shared := &SelSet{Frags: []*Frag{}}
	for _, x := range scal[:nShared] {
		shared.Sels = append(shared.Sels, leaf(x[0], x[1]))
	}
	field := []string{"b", "bv"}[g.r.Intn(2)]
	g.nDef++
	def := fmt.Sprintf("F%d", g.nDef)
	body := &SelSet{Sels: []*Sel{{Name: field, Alias: field, Dirs: []Dir{}, HasSub: true, Sub: shared}}, Frags: []*Frag{}}
	g.defs[def], g.defOn[def] = body, "A"
	place := func(root, alias string, extra [2]string) *Sel {
		partner := &Sel{Name: field, Alias: field, Dirs: []Dir{}, HasSub: true, Sub: &SelSet{Sels: []*Sel{leaf(extra[0], extra[1])}, Frags: []*Frag{}}}
		return &Sel{Name: root, Alias: alias, Dirs: []Dir{}, HasSub: true, Sub: &SelSet{Sels: []*Sel{}, Frags: []*Frag{
			{On: "A", Dirs: []Dir{}, def: def, Sub: body},
			{On: "A", Dirs: []Dir{}, Sub: &SelSet{Sels: []*Sel{partner}, Frags: []*Frag{}}}}}}
	}
	roots := [][2]string{{"a1", "a1"}, {"as", "as"}, {"a1", "again"}}
	g.r.Shuffle(len(roots), func(i, j int) { roots[i], roots[j] = roots[j], roots[i] })
	return &SelSet{Sels: []*Sel{place(roots[0][0], roots[0][1], scal[nShared]), place(roots[1][0], roots[1][1], scal[nShared+1])}, Frags: []*Frag{}}
}

// selset generates a selection set for a value of (object or union) type t.
func (g *gen) selset(t string, depth int) *SelSet {
	ss := emptySet()
	if members, ok := unions[t]; ok {
		if g.r.Intn(3) == 0 {
			ss.Sels = append(ss.Sels, &Sel{Alias: "__typename", Name: "__typename", Dirs: g.dirsFor(), Sub: emptySet()})
		}
		n := g.r.Intn(4)
		if n == 0 && len(ss.Sels) == 0 {
			n = 1
		}
		for i := 0; i < n; i++ {
			m := members[g.r.Intn(len(members))]
			ss.Frags = append(ss.Frags, g.frag(m, depth))
		}
		return ss
	}
	n := 1 + g.r.Intn(4)
	names := fieldNames(t)
	for i := 0; i < n; i++ {
		switch x := g.r.Intn(10); {
		case x < 7:
			f := names[g.r.Intn(len(names))]
			ft := schema[t][f]
			if !isScalar(ft.typ) && depth <= 0 {
				continue
			}
			s := &Sel{Name: f, Alias: f, Dirs: g.dirsFor(), Sub: emptySet()}
			if g.r.Intn(5) == 0 {
				s.Alias = "z" + f
			}
			if rn, ok := rendered[t+"."+f]; ok {
				s.RName, s.ArgText = rn[0], rn[1]
			}
			if !isScalar(ft.typ) {
				s.HasSub = true
				s.Sub = g.selset(ft.typ, depth-1)
			}
			ss.Sels = append(ss.Sels, s)
			if s.HasSub && dupBias > 0 && g.r.Intn(100) < dupBias {
				// the same response key again, with its own sub-selection (and its own directives)
				d := *s
				d.Dirs = g.dirsFor()
				d.Sub = g.selset(ft.typ, depth-1)
				ss.Sels = append(ss.Sels, &d)
			}
		case x < 8:
			s := &Sel{Name: "__typename", Alias: "__typename", Dirs: g.dirsFor(), Sub: emptySet()}
			if g.r.Intn(3) == 0 {
				s.Alias = "tn"
			}
			ss.Sels = append(ss.Sels, s)
		default:
			if t != "Query" && t != "MRoot" {
				f := g.frag(t, depth)
				ss.Frags = append(ss.Frags, f)
				// a later fragment selecting, under the same response key, an object field the first fragment selects
				// too, with another sub-selection: the two are merged wherever the first one is spread
				if depth > 0 && g.r.Intn(2) == 0 {
					for _, fs := range f.Sub.Sels {
						if fs.HasSub && fs.Name != "__typename" {
							if ft, ok := schema[t][fs.Name]; ok && !isScalar(ft.typ) {
								partner := &Sel{Name: fs.Name, Alias: fs.Alias, RName: fs.RName, ArgText: fs.ArgText, Dirs: []Dir{}, HasSub: true,
									Sub: g.selset(ft.typ, depth-1)}
								ss.Frags = append(ss.Frags, &Frag{On: t, Dirs: []Dir{}, Sub: &SelSet{Sels: []*Sel{partner}, Frags: []*Frag{}}})
								break
							}
						}
					}
				}
			}
		}
	}
	if t == "MRoot" {
		// the root of a mutation: its __typename is not the reference root's; at least one mutation field
		kept := ss.Sels[:0]
		for _, s := range ss.Sels {
			if s.Name != "__typename" {
				kept = append(kept, s)
			}
		}
		ss.Sels = kept
		if len(ss.Sels) == 0 {
			ss.Sels = append(ss.Sels, &Sel{Name: "mNewUser", Alias: "mNewUser", RName: "newUser", Dirs: []Dir{}, HasSub: true,
				Sub: &SelSet{Sels: []*Sel{{Name: "id", Alias: "id", Dirs: []Dir{}, Sub: emptySet()}}, Frags: []*Frag{}}})
		}
	}
	if len(ss.Sels) == 0 && len(ss.Frags) == 0 {
		ss.Sels = append(ss.Sels, &Sel{Name: "__typename", Alias: "__typename", Dirs: []Dir{}, Sub: emptySet()})
	}
	return ss
}

// frag generates an inline fragment or a spread of a (new or already defined) named fragment on t.
func (g *gen) frag(t string, depth int) *Frag {
	f := &Frag{On: t, Dirs: g.dirsFor()}
	switch g.r.Intn(3) {
	case 0: // reuse an existing definition on the same type
		var cands []string
		for n, on := range g.defOn {
			if on == t {
				cands = append(cands, n)
			}
		}
		sort.Strings(cands)
		if len(cands) > 0 {
			f.def = cands[g.r.Intn(len(cands))]
			f.Sub = g.defs[f.def]
			return f
		}
		fallthrough
	case 1: // new definition
		sub := g.selset(t, depth) // generated before the name is taken: definitions stay acyclic
		g.nDef++
		f.def = fmt.Sprintf("F%d", g.nDef)
		g.defs[f.def] = sub
		g.defOn[f.def] = t
		f.Sub = sub
	default:
		f.Sub = g.selset(t, depth)
	}
	return f
}

// ---- rendering ----

func renderDirs(ds []Dir) string {
	var b strings.Builder
	for _, d := range ds {
		cond := fmt.Sprint(d.If)
		switch d.v {
		case 1:
			cond = map[bool]string{true: "$t", false: "$f"}[d.If]
		case 2:
			cond = map[bool]string{true: "$dt", false: "$df"}[d.If]
		}
		fmt.Fprintf(&b, " @%s(if: %s)", d.Name, cond)
	}
	return b.String()
}

func renderSet(ss *SelSet, b *strings.Builder) {
	b.WriteString("{")
	for _, s := range ss.Sels {
		b.WriteString(" ")
		rn := s.Name
		if s.RName != "" {
			rn = s.RName
		}
		if s.Alias != rn {
			b.WriteString(s.Alias + ": ")
		}
		b.WriteString(rn)
		b.WriteString(s.ArgText)
		b.WriteString(renderDirs(s.Dirs))
		if s.HasSub {
			b.WriteString(" ")
			renderSet(s.Sub, b)
		}
	}
	for _, f := range ss.Frags {
		if f.def != "" {
			b.WriteString(" ..." + f.def + renderDirs(f.Dirs))
		} else {
			b.WriteString(" ... on " + f.On + renderDirs(f.Dirs) + " ")
			renderSet(f.Sub, b)
		}
	}
	b.WriteString(" }")
}

// usedDefs returns the fragment definitions reachable from ss.
func usedDefs(ss *SelSet, defs map[string]*SelSet, out map[string]bool) {
	for _, s := range ss.Sels {
		if s.HasSub {
			usedDefs(s.Sub, defs, out)
		}
	}
	for _, f := range ss.Frags {
		if f.def != "" && !out[f.def] {
			out[f.def] = true
		}
		usedDefs(f.Sub, defs, out)
	}
}

// Render produces the query text (with fragment definitions) for the AST.
func (g *gen) Render(root *SelSet) string {
	var b strings.Builder
	op := g.op
	if op == "" {
		op = "query"
	}
	b.WriteString(op + " Q($t: Boolean!, $f: Boolean!, $dt: Boolean = true, $df: Boolean = false) ")
	renderSet(root, &b)
	used := map[string]bool{}
	usedDefs(root, g.defs, used)
	var names []string
	for n := range used {
		names = append(names, n)
	}
	sort.Strings(names)
	for _, n := range names {
		b.WriteString("\nfragment " + n + " on " + g.defOn[n] + " ")
		renderSet(g.defs[n], &b)
	}
	return b.String()
}

// Prune is the textual deletion C19 talks about: every node whose directives exclude it is removed
// and the directives are dropped from the rest. Named fragments are inlined (each use is its own node).
func Prune(ss *SelSet) *SelSet {
	out := emptySet()
	for _, s := range ss.Sels {
		if !include(s.Dirs) {
			continue
		}
		c := &Sel{Alias: s.Alias, Name: s.Name, Dirs: []Dir{}, HasSub: s.HasSub, Sub: emptySet()}
		if s.HasSub {
			c.Sub = Prune(s.Sub)
		}
		out.Sels = append(out.Sels, c)
	}
	for _, f := range ss.Frags {
		if !include(f.Dirs) {
			continue
		}
		out.Frags = append(out.Frags, &Frag{On: f.On, Dirs: []Dir{}, Sub: Prune(f.Sub)})
	}
	return out
}

func include(ds []Dir) bool {
	for _, d := range ds {
		if d.Name == "skip" && d.If {
			return false
		}
		if d.Name == "include" && !d.If {
			return false
		}
	}
	return true
}

// hasEmpty reports whether some selection set that must be non-empty became empty (such a pruned
// query cannot be written down as GraphQL text).
func hasEmpty(ss *SelSet, top bool) bool {
	if len(ss.Sels) == 0 && len(ss.Frags) == 0 {
		return true
	}
	for _, s := range ss.Sels {
		if s.HasSub && hasEmpty(s.Sub, false) {
			return true
		}
	}
	for _, f := range ss.Frags {
		if hasEmpty(f.Sub, false) {
			return true
		}
	}
	return false
}
