// Package c09 feeds SchemaMerge_Trace.tla: it builds real thunder schemas for the versions of one to
// three services from feature vectors (verzoo), takes thunder's own introspection of each, merges
// them with the real federation.MergeIntrospectionSchemas / ConvertVersionedSchemas under every
// assignment of service and version names (the code orders by name), and validates generated
// queries with the real graphql.PrepareQuery against every version's own schema.
package c09

import (
	"context"
	"encoding/json"
	"flag"
	"fmt"
	"math/rand"
	"sort"
	"strings"

	"github.com/samsarahq/thunder/federation"
	"github.com/samsarahq/thunder/graphql"
	"github.com/samsarahq/thunder/graphql/introspection"

	tj "verifharness/internal/tagjson"
	"verifharness/internal/verzoo"
)

// ---- abstract schemas (what SchemaMerge.tla works on)

// TRef: a named type under Len(NN)-1 list wrappers; NN[i] says whether level i (outermost first) is non-null.
type TRef struct {
	Name string `json:"name"`
	Kind string `json:"kind"`
	NN   []bool `json:"nn"`
}
type Field struct {
	Type TRef            `json:"type"`
	Args map[string]TRef `json:"args"`
}
type Type struct {
	Kind     string           `json:"kind"`
	Fields   map[string]Field `json:"fields"`
	Inputs   map[string]TRef  `json:"inputs"`
	Values   []string         `json:"values"`
	Possible []string         `json:"possible"`
}
type Schema map[string]Type

type rawRef struct {
	Kind   string  `json:"kind"`
	Name   string  `json:"name"`
	OfType *rawRef `json:"ofType"`
}
type rawInput struct {
	Name string  `json:"name"`
	Type *rawRef `json:"type"`
}
type rawType struct {
	Name   string `json:"name"`
	Kind   string `json:"kind"`
	Fields []struct {
		Name string     `json:"name"`
		Type *rawRef    `json:"type"`
		Args []rawInput `json:"args"`
	} `json:"fields"`
	InputFields   []rawInput `json:"inputFields"`
	PossibleTypes []*rawRef  `json:"possibleTypes"`
	EnumValues    []struct {
		Name string `json:"name"`
	} `json:"enumValues"`
}
type rawSchema struct {
	Schema struct {
		Types []rawType `json:"types"`
	} `json:"__schema"`
}

func absRef(r *rawRef) TRef {
	t := TRef{NN: []bool{}}
	nn := false
	for r != nil {
		switch r.Kind {
		case "NON_NULL":
			nn = true
		case "LIST":
			t.NN = append(t.NN, nn)
			nn = false
		default:
			t.NN = append(t.NN, nn)
			t.Name, t.Kind = r.Name, r.Kind
			return t
		}
		r = r.OfType
	}
	return t
}

// abstract drops the introspection machinery (names starting with "__") and orders nothing: maps and sorted lists.
func abstract(raw []byte) (Schema, error) {
	var rs rawSchema
	if err := json.Unmarshal(raw, &rs); err != nil {
		return nil, err
	}
	s := Schema{}
	for _, t := range rs.Schema.Types {
		if strings.HasPrefix(t.Name, "__") {
			continue
		}
		at := Type{Kind: t.Kind, Fields: map[string]Field{}, Inputs: map[string]TRef{}, Values: []string{}, Possible: []string{}}
		for _, f := range t.Fields {
			if strings.HasPrefix(f.Name, "__") {
				continue
			}
			af := Field{Type: absRef(f.Type), Args: map[string]TRef{}}
			for _, a := range f.Args {
				af.Args[a.Name] = absRef(a.Type)
			}
			at.Fields[f.Name] = af
		}
		for _, a := range t.InputFields {
			at.Inputs[a.Name] = absRef(a.Type)
		}
		for _, v := range t.EnumValues {
			at.Values = append(at.Values, v.Name)
		}
		for _, p := range t.PossibleTypes {
			at.Possible = append(at.Possible, p.Name)
		}
		sort.Strings(at.Values)
		sort.Strings(at.Possible)
		if _, dup := s[t.Name]; dup {
			return nil, fmt.Errorf("duplicate type %s", t.Name)
		}
		s[t.Name] = at
	}
	return s, nil
}

// ---- one version

type version struct {
	feat   verzoo.Feat
	schema *graphql.Schema
	raw    []byte
	abs    Schema
}

var cache = map[verzoo.Feat]*version{}

func build(f verzoo.Feat) (*version, error) {
	if v, ok := cache[f]; ok {
		return v, nil
	}
	s, err := verzoo.Build(f)
	if err != nil {
		return nil, err
	}
	raw, err := introspection.RunIntrospectionQuery(s)
	if err != nil {
		return nil, err
	}
	abs, err := abstract(raw)
	if err != nil {
		return nil, err
	}
	v := &version{feat: f, schema: s, raw: raw, abs: abs}
	cache[f] = v
	return v, nil
}

func accepts(v *version, text string, vals map[string]interface{}) (bool, string) {
	q, err := graphql.Parse(text, vals)
	if err != nil {
		return false, "parse: " + err.Error()
	}
	if err := graphql.PrepareQuery(context.Background(), v.schema.Query, q.SelectionSet); err != nil {
		return false, err.Error()
	}
	return true, ""
}

// ---- the real merge under one naming

type Out struct {
	Naming   string              `json:"naming"`
	Ok       bool                `json:"ok"`
	Err      string              `json:"err"`
	Schema   Schema              `json:"schema"`
	Services map[string][]string `json:"services"` // "Type.field" -> canonical service ids that the gateway believes can resolve it
	ConvOk   bool                `json:"convok"`
	ConvErr  string              `json:"converr"`
}

func parseRaw(raw []byte) (*federation.IntrospectionQueryResult, error) {
	var r federation.IntrospectionQueryResult
	if err := json.Unmarshal(raw, &r); err != nil {
		return nil, err
	}
	return &r, nil
}

// merge runs the real code with services[i] named snames[i] and its versions named vnames[i][j].
func merge(svcs [][]*version, snames []string, vnames [][]string) Out {
	o := Out{Schema: Schema{}, Services: map[string][]string{}}
	in := map[string]map[string]*federation.IntrospectionQueryResult{}
	canon := map[string]string{}
	for i, vs := range svcs {
		canon[snames[i]] = fmt.Sprintf("s%d", i+1)
		in[snames[i]] = map[string]*federation.IntrospectionQueryResult{}
		for j, v := range vs {
			r, err := parseRaw(v.raw)
			if err != nil {
				o.Err = "harness: " + err.Error()
				return o
			}
			in[snames[i]][vnames[i][j]] = r
		}
	}
	o.Naming = fmt.Sprint(snames, vnames)
	merged, err := federation.MergeIntrospectionSchemas(in)
	if err != nil {
		o.Err = err.Error()
	} else {
		b, _ := json.Marshal(merged)
		abs, err := abstract(b)
		if err != nil {
			o.Err = "harness: " + err.Error()
			return o
		}
		o.Ok, o.Schema = true, abs
	}
	conv, err := federation.ConvertVersionedSchemas(in)
	if err != nil {
		o.ConvErr = err.Error()
		return o
	}
	o.ConvOk = true
	seen := map[*graphql.Object]bool{}
	var walk func(t graphql.Type)
	walk = func(t graphql.Type) {
		switch t := t.(type) {
		case *graphql.NonNull:
			walk(t.Type)
		case *graphql.List:
			walk(t.Type)
		case *graphql.Union:
			for _, m := range t.Types {
				walk(m)
			}
		case *graphql.Object:
			if seen[t] {
				return
			}
			seen[t] = true
			for n, f := range t.Fields {
				walk(f.Type)
				if strings.HasPrefix(n, "__") || strings.HasPrefix(t.Name, "__") {
					continue
				}
				ss := []string{}
				if info := conv.Fields[f]; info != nil {
					for s, ok := range info.Services {
						if ok {
							ss = append(ss, canon[s])
						}
					}
				}
				sort.Strings(ss)
				o.Services[t.Name+"."+n] = ss
			}
		}
	}
	walk(conv.Schema.Query)
	return o
}

// ---- queries

type Lit struct {
	K      string         `json:"k"` // int | null | enum | obj | str | list
	V      string         `json:"v"`
	Fields map[string]Lit `json:"fields"`
	Elems  []Lit          `json:"elems"` // list: int or null elements (a list with a null travels as a variable)
}

func leaf(k, v string) Lit { return Lit{K: k, V: v, Fields: map[string]Lit{}, Elems: []Lit{}} }
type Sub struct {
	On    string `json:"on"` // "" or the type condition of an inline fragment
	Field string `json:"field"`
}
type Query struct {
	Text   string          `json:"text"`
	Field  string          `json:"field"`
	Args   map[string]Lit  `json:"args"`
	Subs   []Sub           `json:"subs"`
	// what each service that can resolve the root field would be sent (the sub-selections the gateway
	// believes it resolves), and whether the real PrepareQuery of each of its versions accepts that
	Parts  map[string]Part   `json:"parts"`  // "s<i>" -> part
	Accept map[string]bool   `json:"accept"` // "s<i>/v<j>" -> accepted (only versions of services in Parts)
	Why    map[string]string `json:"why"`
}

type Part struct {
	Text string `json:"text"`
	Subs []Sub  `json:"subs"`
}

// vars collects the lists that have to travel as variables (thunder's parser has no null literal).
type vars struct {
	decl []string
	vals map[string]interface{}
}

func renderLit(l Lit, vs *vars) string {
	switch l.K {
	case "list":
		hasNull := false
		var parts []string
		var val []interface{}
		for _, e := range l.Elems {
			if e.K == "null" {
				hasNull = true
				val = append(val, nil)
			} else {
				var n float64
				fmt.Sscan(e.V, &n)
				val = append(val, n)
			}
			parts = append(parts, e.V)
		}
		if !hasNull {
			return "[" + strings.Join(parts, ", ") + "]"
		}
		name := fmt.Sprintf("v%d", len(vs.decl)+1)
		vs.decl = append(vs.decl, "$"+name+": [int64]")
		vs.vals[name] = val
		return "$" + name
	case "obj":
		var names []string
		for n := range l.Fields {
			names = append(names, n)
		}
		sort.Strings(names)
		parts := []string{}
		for _, n := range names {
			parts = append(parts, n+": "+renderLit(l.Fields[n], vs))
		}
		return "{" + strings.Join(parts, ", ") + "}"
	case "str":
		return fmt.Sprintf("%q", l.V)
	default:
		return l.V
	}
}

func randLit(r *rand.Rand, name string) Lit {
	switch name {
	case "id", "min", "max":
		switch r.Intn(8) {
		case 1:
			return leaf("str", "x")
		default:
			return leaf("int", fmt.Sprint(1+r.Intn(3)))
		}
	case "ids":
		l := Lit{K: "list", Fields: map[string]Lit{}, Elems: []Lit{}}
		for n := r.Intn(3); n > 0; n-- {
			if r.Intn(3) == 0 {
				l.Elems = append(l.Elems, leaf("null", "null"))
			} else {
				l.Elems = append(l.Elems, leaf("int", fmt.Sprint(1+r.Intn(3))))
			}
		}
		return l
	case "kind":
		return leaf("enum", []string{"A", "B", "C", "D"}[r.Intn(4)])
	default: // filter
		l := Lit{K: "obj", Fields: map[string]Lit{}, Elems: []Lit{}}
		for _, f := range []string{"min", "max", "zzz", "ids"} {
			p := 2
			if f == "zzz" {
				p = 10
			}
			if r.Intn(p) == 0 {
				if f == "ids" {
					l.Fields[f] = randLit(r, "ids")
				} else {
					l.Fields[f] = randLit(r, "min")
				}
			}
		}
		return l
	}
}

func randQuery(r *rand.Rand) Query {
	q := Query{Args: map[string]Lit{}, Subs: []Sub{}, Parts: map[string]Part{}, Accept: map[string]bool{}, Why: map[string]string{}}
	q.Field = []string{"item", "item", "item", "items", "count", "any", "nope"}[r.Intn(7)]
	if q.Field == "item" || r.Intn(10) == 0 {
		for _, a := range []string{"id", "filter", "kind", "ids", "bogus"} {
			p := 2
			if a == "bogus" {
				p = 12
			}
			if r.Intn(p) == 0 {
				q.Args[a] = randLit(r, a)
			}
		}
	}
	switch q.Field {
	case "item", "items":
		n := 1 + r.Intn(3)
		for i := 0; i < n; i++ {
			q.Subs = append(q.Subs, Sub{Field: []string{"id", "name", "kind", "tags", "nope"}[r.Intn(5)]})
		}
	case "any":
		n := 1 + r.Intn(2)
		for i := 0; i < n; i++ {
			on := []string{"Item", "Other", "Item", "Nope"}[r.Intn(4)]
			q.Subs = append(q.Subs, Sub{On: on, Field: []string{"id", "name", "kind"}[r.Intn(3)]})
		}
	default:
		if r.Intn(10) == 0 {
			q.Subs = append(q.Subs, Sub{Field: "id"})
		}
	}
	q.Text, _ = render(q.Field, q.Args, q.Subs)
	return q
}

func render(field string, args map[string]Lit, subs []Sub) (string, map[string]interface{}) {
	vs := &vars{vals: map[string]interface{}{}}
	q := struct {
		Field string
		Args  map[string]Lit
		Subs  []Sub
	}{field, args, subs}
	var b strings.Builder
	b.WriteString("{ " + q.Field)
	if len(q.Args) > 0 {
		var names []string
		for n := range q.Args {
			names = append(names, n)
		}
		sort.Strings(names)
		parts := []string{}
		for _, n := range names {
			parts = append(parts, n+": "+renderLit(q.Args[n], vs))
		}
		b.WriteString("(" + strings.Join(parts, ", ") + ")")
	}
	if len(q.Subs) > 0 {
		b.WriteString(" {")
		for _, s := range q.Subs {
			if s.On != "" {
				b.WriteString(" ... on " + s.On + " { " + s.Field + " }")
			} else {
				b.WriteString(" " + s.Field)
			}
		}
		b.WriteString(" }")
	}
	b.WriteString(" }")
	text := b.String()
	if len(vs.decl) > 0 {
		text = "query Q(" + strings.Join(vs.decl, ", ") + ") " + text
	}
	return text, vs.vals
}

// Rec is one merge scenario.
type Rec struct {
	I        int                 `json:"i"`
	Feats    [][]verzoo.Feat     `json:"feats"`
	Versions map[string]Schema   `json:"versions"` // "s<i>/v<j>" -> what thunder's introspection of that version says
	Services map[string][]string `json:"services"` // "s<i>" -> its version keys
	Outs     []Out               `json:"outs"`     // the real merge under each naming
	Queries  []Query             `json:"queries"`
}

func perms(n int) [][]int {
	if n == 1 {
		return [][]int{{0}}
	}
	var out [][]int
	for _, p := range perms(n - 1) {
		for i := 0; i <= len(p); i++ {
			q := append(append(append([]int{}, p[:i]...), n-1), p[i:]...)
			out = append(out, q)
		}
	}
	return out
}

func scenario(r *rand.Rand, i, nq int) (Rec, error) {
	rec := Rec{I: i, Versions: map[string]Schema{}, Services: map[string][]string{}, Outs: []Out{}, Queries: []Query{}}
	ns := 1 + r.Intn(3)
	var svcs [][]*version
	for s := 0; s < ns; s++ {
		nv := 1 + r.Intn(3)
		f := verzoo.Random(r)
		var vs []*version
		var fs []verzoo.Feat
		enumTriple := nv == 3 && r.Intn(3) == 0
		for j := 0; j < nv; j++ {
			if enumTriple {
				f.Kind = []int{2, 1, 3}[j]
				if f.Item != 0 {
					f.KindA = 1
				}
				f = f.Consistent()
			}
			v, err := build(f)
			if err != nil {
				return rec, err
			}
			vs = append(vs, v)
			fs = append(fs, f)
			key := fmt.Sprintf("s%d/v%d", s+1, j+1)
			rec.Versions[key] = v.abs
			rec.Services[fmt.Sprintf("s%d", s+1)] = append(rec.Services[fmt.Sprintf("s%d", s+1)], key)
			for k := 1 + r.Intn(2); k > 0; k-- {
				f = f.Mutate(r)
			}
		}
		svcs = append(svcs, vs)
		rec.Feats = append(rec.Feats, fs)
	}
	// namings: every order of the services x every order of the versions of each service (capped)
	letters := []string{"a", "b", "c"}
	var namings int
	for _, sp := range perms(ns) {
		snames := make([]string, ns)
		for pos, s := range sp {
			snames[s] = letters[pos] + "svc"
		}
		// version orders: all permutations for the first service, rotate the others along
		maxv := 1
		for _, vs := range svcs {
			if p := len(perms(len(vs))); p > maxv {
				maxv = p
			}
		}
		for k := 0; k < maxv; k++ {
			vnames := make([][]string, ns)
			for s, vs := range svcs {
				ps := perms(len(vs))
				p := ps[k%len(ps)]
				vnames[s] = make([]string, len(vs))
				for pos, v := range p {
					vnames[s][v] = letters[pos] + "ver"
				}
			}
			rec.Outs = append(rec.Outs, merge(svcs, snames, vnames))
			namings++
		}
	}
	for k := 0; k < nq; k++ {
		q := randQuery(r)
		// route by what the real gateway believes (first naming; the judge checks that belief against the reference)
		belief := rec.Outs[0].Services
		rootType := ""
		if o := rec.Outs[0]; o.Ok {
			if f, ok := o.Schema["Query"].Fields[q.Field]; ok {
				rootType = f.Type.Name
			}
		}
		has := func(list []string, x string) bool {
			for _, y := range list {
				if y == x {
					return true
				}
			}
			return false
		}
		for s, vs := range svcs {
			sid := fmt.Sprintf("s%d", s+1)
			if !rec.Outs[0].ConvOk || !has(belief["Query."+q.Field], sid) {
				continue
			}
			part := Part{Subs: []Sub{}}
			for _, sub := range q.Subs {
				t := sub.On
				if t == "" {
					t = rootType
				}
				if has(belief[t+"."+sub.Field], sid) {
					part.Subs = append(part.Subs, sub)
				}
			}
			if len(q.Subs) > 0 && len(part.Subs) == 0 {
				part.Subs = append(part.Subs, Sub{Field: "__typename"})
			}
			var vals map[string]interface{}
			part.Text, vals = render(q.Field, q.Args, part.Subs)
			q.Parts[sid] = part
			for j, v := range vs {
				key := fmt.Sprintf("s%d/v%d", s+1, j+1)
				ok, why := accepts(v, part.Text, vals)
				q.Accept[key] = ok
				q.Why[key] = why
			}
		}
		rec.Queries = append(rec.Queries, q)
	}
	return rec, nil
}

// Main: vh c09 -out recs.ndjson -n 200 -queries 12 -seed 1
func Main(args []string) error {
	fs := flag.NewFlagSet("c09", flag.ContinueOnError)
	out := fs.String("out", "", "")
	n := fs.Int("n", 100, "")
	nq := fs.Int("queries", 10, "")
	seed := fs.Int64("seed", 1, "")
	if err := fs.Parse(args); err != nil {
		return err
	}
	r := rand.New(rand.NewSource(*seed))
	w, err := tj.NewWriter(*out)
	if err != nil {
		return err
	}
	for i := 1; i <= *n; i++ {
		rec, err := scenario(r, i, *nq)
		if err != nil {
			return err
		}
		w.Write(rec)
	}
	return w.Close()
}
