// Package conn drives one real websocket connection of thunder's live-query server
// (graphql.CreateConnection(...).ServeJSONSocket()) over a fake JSONSocket: a seeded script of
// subscribe / unsubscribe / mutate / echo / malformed messages with colliding ids, data changes
// at random moments, resolvers that fail at some data versions, and the socket closing at the
// end.  It records what the reader consumed, what was written, the logger calls, every resolver
// read and the server hooks, and folds them into the events Conn_Trace.tla validates.
package conn

import (
	"context"
	"encoding/json"
	"errors"
	"flag"
	"fmt"
	"math/rand"
	"os"
	"runtime"
	"sync"
	"time"

	"github.com/gorilla/websocket"
	"github.com/samsarahq/thunder/graphql"
	"github.com/samsarahq/thunder/graphql/schemabuilder"
	rx "github.com/samsarahq/thunder/reactive"

	"verifharness/internal/gate"
	tj "verifharness/internal/tagjson"
)

// ---- data: a fixed table of versions ----

type Item struct {
	Id int64 `graphql:"id,key"`
	V  int64
}
type P struct {
	Id   int64 `graphql:"id,key"`
	Name string
}
type R struct {
	Id   int64 `graphql:"id,key"`
	Size int64
}
type Thing struct {
	schemabuilder.Union
	*P
	*R
}
type World struct {
	Items []*Item
	N     int64
	Thing *Thing
	Opt   *Item
	Flaky bool // the flaky resolver fails at this version
	Safe  bool // ... with an error marked safe to show to the client
	WrapsCanceled bool // ... with a plain error that wraps context.Canceled
}

const MaxVer = 9

var Table = []World{
	{Items: []*Item{{1, 0}, {2, 0}}, N: 0, Thing: &Thing{P: &P{1, "p"}}, Opt: &Item{9, 0}},
	{Items: []*Item{{2, 0}, {1, 1}}, N: 0, Thing: &Thing{P: &P{1, "q"}}, Opt: nil, Flaky: true},
	{Items: []*Item{{3, 0}}, N: 1, Thing: &Thing{R: &R{1, 5}}, Opt: &Item{9, 1}},
	{Items: []*Item{{3, 0}, {1, 1}, {2, 2}}, N: 1, Thing: nil, Opt: &Item{8, 1}, Flaky: true, Safe: true},
	{Items: nil, N: 2, Thing: &Thing{R: &R{2, 5}}, Opt: &Item{8, 1}},
	{Items: []*Item{{2, 2}, {3, 0}, {1, 1}, {4, 0}}, N: 2, Thing: &Thing{P: &P{2, "p"}}, Opt: nil, Flaky: true},
	{Items: []*Item{{2, 2}, {3, 0}, {1, 1}, {4, 0}}, N: 2, Thing: &Thing{P: &P{2, "p"}}, Opt: nil},
	// one element becomes null in place: same length, every other element where it was
	{Items: []*Item{{2, 2}, nil, {1, 1}, {4, 0}}, N: 2, Thing: &Thing{P: &P{2, "p"}}, Opt: nil},
	// the flaky resolver fails with an error that merely WRAPS context.Canceled (its own upstream call was
	// cancelled); the request's context is alive, so this is an ordinary failure, not a client gone away
	{Items: []*Item{{2, 2}, nil, {1, 1}, {4, 0}}, N: 2, Thing: &Thing{P: &P{2, "p"}}, Opt: nil, Flaky: true, WrapsCanceled: true},
	{Items: []*Item{{4, 1}, {2, 2}}, N: 3, Thing: &Thing{P: &P{2, "z"}}, Opt: &Item{7, 0}},
}

var Queries = map[string]string{
	"qa":   "{ items { id v } n }",
	"qb":   "{ thing { __typename ... on P { id name } ... on R { id size } } opt { id v } }",
	"qf":   "{ items { v } flaky }",
	"qg":   "{ grid { id v } n }", // a list of lists of keyed objects: rows of the items, two per row
	"qbad": "{ nope }",
	"qm":   "mutation { bump }",
}

// ---- recording ----

type Raw struct {
	Ev   string
	Id   string
	Typ  string
	Q    string
	Msg  tj.T
	B    bool
	Kind string
	V    int
	N    int
	gid  int64
	rd   bool
}

// Event is what the specification sees.
type Event struct {
	Ev    string   `json:"ev"`
	Id    string   `json:"id"`
	Q     string   `json:"q"`
	Typ   string   `json:"typ"`
	Found bool     `json:"found"`
	Wrote bool     `json:"wrote"`
	Init  bool     `json:"init"`
	Ok    bool     `json:"ok"`
	Kind  string   `json:"kind"`
	Msg   tj.T     `json:"msg"`
	V     int      `json:"v"`
	Ids   []string `json:"ids"`
	Scn   int      `json:"scn"`
}

type runState struct {
	id      string
	once    sync.Once
	version int
}
type runKey struct{}

type harness struct {
	mu      sync.Mutex // trace mutex: orders the log, guards version and tracker
	raw     []Raw
	version int
	tracker map[*rx.Resource]bool
	reader  int64
	readerIdle bool // the reader goroutine is blocked in ReadJSON
	slowAsyncClose bool
	follow  sync.WaitGroup
	rng     *rand.Rand
	rngMu   sync.Mutex
	perturb float64
	cleanups int
}

func (h *harness) add(r Raw) {
	r.gid = gate.GoID()
	r.rd = r.gid == h.reader
	h.raw = append(h.raw, r)
}

func (h *harness) jitter(scale int) {
	h.rngMu.Lock()
	x := h.rng.Float64()
	d := h.rng.Intn(scale)
	h.rngMu.Unlock()
	if x < h.perturb {
		if d < scale/4 {
			runtime.Gosched()
		} else {
			time.Sleep(time.Duration(d) * time.Microsecond)
		}
	}
}

var cur *harness

func hook(point string, args ...interface{}) {
	h := cur
	if h == nil {
		return
	}
	r := Raw{Ev: point}
	switch point {
	case "sub.done", "mutate.accepted", "close.enter":
		r.Id = args[0].(string)
	case "sub.failed", "subscribe.rejected", "mutate.rejected":
		r.Id, r.Kind = args[0].(string), args[1].(string)
	case "mut.done", "close.locked":
		r.Id, r.B = args[0].(string), args[1].(bool)
	case "closeAll.locked":
		r.N = args[0].(int)
	}
	h.mu.Lock()
	h.add(r)
	h.mu.Unlock()
	if point == "close.enter" {
		if h.slowAsyncClose && gate.GoID() != h.reader {
			time.Sleep(3 * time.Millisecond) // directed: hold the asynchronous close back
		}
		h.jitter(800) // widen the window of the asynchronous close
	} else {
		h.jitter(100)
	}
}

// dependency-then-read, once per run
func (h *harness) world(ctx context.Context) (*World, error) {
	rs, _ := ctx.Value(runKey{}).(*runState)
	if rs == nil {
		h.mu.Lock()
		w := &Table[h.version]
		h.mu.Unlock()
		return w, nil
	}
	rs.once.Do(func() {
		r := rx.NewResource()
		r.Cleanup(func() {
			h.mu.Lock()
			delete(h.tracker, r)
			h.cleanups++
			h.mu.Unlock()
		})
		rx.AddDependency(ctx, r, nil)
		h.jitter(100)
		h.mu.Lock()
		h.tracker[r] = true
		rs.version = h.version
		h.add(Raw{Ev: "read", Id: rs.id, V: rs.version})
		h.mu.Unlock()
		h.jitter(100)
	})
	// a resolver notices that the request's context is gone (the connection is being shut down)
	if err := ctx.Err(); err != nil {
		return &Table[rs.version], err
	}
	return &Table[rs.version], nil
}

func (h *harness) change(by string) int {
	h.mu.Lock()
	if h.version >= MaxVer {
		h.mu.Unlock()
		return -1
	}
	h.version++
	v := h.version
	var targets []*rx.Resource
	for r := range h.tracker {
		targets = append(targets, r)
	}
	h.add(Raw{Ev: "data", V: v, Kind: by})
	h.mu.Unlock()
	for _, r := range targets {
		r.Invalidate()
	}
	// A subscription whose resolver fails retries with a doubling delay for as long as the data stays at
	// a failing version; keep such periods short so that scenarios settle quickly.
	if v < MaxVer && Table[v].Flaky {
		h.follow.Add(1)
		go func() {
			defer h.follow.Done()
			time.Sleep(time.Duration(300+h.rnd(600)) * time.Microsecond)
			h.mu.Lock()
			still := Table[h.version].Flaky
			h.mu.Unlock()
			if still {
				h.change("follow")
			}
		}()
	}
	return v
}

func (h *harness) rnd(n int) int {
	h.rngMu.Lock()
	defer h.rngMu.Unlock()
	return h.rng.Intn(n)
}

func (h *harness) schema() *graphql.Schema {
	s := schemabuilder.NewSchema()
	q := s.Query()
	q.FieldFunc("items", func(ctx context.Context) ([]*Item, error) {
		w, err := h.world(ctx)
		return w.Items, err
	})
	q.FieldFunc("grid", func(ctx context.Context) ([][]*Item, error) {
		w, err := h.world(ctx)
		grid := [][]*Item{}
		for i := 0; i < len(w.Items); i += 2 {
			j := i + 2
			if j > len(w.Items) {
				j = len(w.Items)
			}
			grid = append(grid, w.Items[i:j])
		}
		return grid, err
	})
	q.FieldFunc("n", func(ctx context.Context) (int64, error) {
		w, err := h.world(ctx)
		return w.N, err
	})
	q.FieldFunc("thing", func(ctx context.Context) (*Thing, error) {
		w, err := h.world(ctx)
		return w.Thing, err
	})
	q.FieldFunc("opt", func(ctx context.Context) (*Item, error) {
		w, err := h.world(ctx)
		return w.Opt, err
	})
	q.FieldFunc("flaky", func(ctx context.Context) (int64, error) {
		w, _ := h.world(ctx)
		if w.Flaky && w.WrapsCanceled {
			return 0, fmt.Errorf("secret: upstream call failed: %w", context.Canceled)
		}
		if w.Flaky && w.Safe {
			return 0, graphql.NewSafeError("the flaky resolver failed (safe to show)")
		}
		if w.Flaky {
			return 0, errors.New("secret: flaky resolver failed")
		}
		return 1, nil
	})
	m := s.Mutation()
	m.FieldFunc("bump", func(ctx context.Context) (bool, error) {
		h.change("mut")
		return true, nil
	})
	return s.MustBuild()
}

// ---- fake socket ----

type inMsg struct {
	ID      string          `json:"id,omitempty"` // the empty id is left out of the frame
	Type    string          `json:"type"`
	Message json.RawMessage `json:"message,omitempty"` // only subscribe and mutate carry a message
	q       string
}

type sock struct {
	h  *harness
	in chan *inMsg
}

func (s *sock) ReadJSON(v interface{}) error {
	s.h.mu.Lock()
	if s.h.reader == 0 {
		s.h.reader = gate.GoID()
	}
	s.h.readerIdle = true
	s.h.mu.Unlock()
	m, ok := <-s.in
	s.h.mu.Lock()
	s.h.readerIdle = false
	s.h.mu.Unlock()
	if !ok {
		s.h.mu.Lock()
		s.h.add(Raw{Ev: "recv.eof"})
		s.h.mu.Unlock()
		return &websocket.CloseError{Code: websocket.CloseNormalClosure}
	}
	s.h.mu.Lock()
	s.h.add(Raw{Ev: "recv", Id: m.ID, Typ: m.Type, Q: m.q})
	s.h.mu.Unlock()
	// the frame is decoded INTO the value the server hands in, as a real websocket's ReadJSON does
	b, _ := json.Marshal(m)
	return json.Unmarshal(b, v)
}

func (s *sock) WriteJSON(v interface{}) error {
	b, err := json.Marshal(v)
	if err != nil {
		return err
	}
	var env struct {
		ID      string          `json:"id"`
		Type    string          `json:"type"`
		Message json.RawMessage `json:"message"`
	}
	json.Unmarshal(b, &env)
	msg := tj.T{K: "n"}
	if len(env.Message) > 0 {
		msg, _ = tj.FromJSON(env.Message)
	}
	s.h.mu.Lock()
	s.h.add(Raw{Ev: "write", Id: env.ID, Typ: env.Type, Msg: msg})
	s.h.mu.Unlock()
	return nil
}

func (s *sock) Close() error { return nil }

type subLogger struct{ h *harness }

func (l *subLogger) Subscribe(ctx context.Context, id string, tags map[string]string) {
	l.h.mu.Lock()
	l.h.add(Raw{Ev: "logsub", Id: id})
	l.h.mu.Unlock()
}
func (l *subLogger) Unsubscribe(ctx context.Context, id string) {
	l.h.mu.Lock()
	l.h.add(Raw{Ev: "logunsub", Id: id})
	l.h.mu.Unlock()
}

type execLogger struct{ h *harness }

func (l *execLogger) StartExecution(ctx context.Context, tags map[string]string, initial bool) {
	l.h.mu.Lock()
	l.h.add(Raw{Ev: "exec.start", Id: tags["id"], B: initial})
	l.h.mu.Unlock()
}
func (l *execLogger) FinishExecution(ctx context.Context, tags map[string]string, delay time.Duration) {}
func (l *execLogger) Error(ctx context.Context, err error, tags map[string]string) {
	// called under c.mu when a subscribe/mutate message fails to parse or validate
	l.h.mu.Lock()
	l.h.add(Raw{Ev: "logerr", Id: tags["id"]})
	l.h.mu.Unlock()
}

func (h *harness) waitGoroutines(n int, needReaderIdle bool) bool {
	deadline := time.Now().Add(15 * time.Second)
	for {
		ok := 0
		for i := 0; i < 3; i++ {
			h.mu.Lock()
			idle := h.readerIdle || !needReaderIdle
			h.mu.Unlock()
			if idle && runtime.NumGoroutine() <= n {
				ok++
			}
			runtime.Gosched()
		}
		if ok == 3 {
			return true
		}
		if time.Now().After(deadline) {
			return false
		}
		time.Sleep(200 * time.Microsecond)
	}
}

type scriptMsg struct {
	typ, id, q string
}

// runScenario runs one connection; returns the spec-level events.
// startVersion is the data version a scenario starts at (never a failing one, never the last).
func startVersion(seed int64) int {
	v := int(uint64(seed*2654435761) % uint64(MaxVer-1))
	for Table[v].Flaky {
		v = (v + 1) % (MaxVer - 1)
	}
	return v
}

func runScenario(seed int64, scn int, maxSubs int) ([]Event, bool) {
	r := rand.New(rand.NewSource(seed))
	h := &harness{tracker: map[*rx.Resource]bool{}, rng: rand.New(rand.NewSource(seed + 1)), perturb: []float64{0, 0.1, 0.4}[r.Intn(3)]}
	// scenarios start at different data versions, so that the later rows of the table are reached as often as the first
	h.version = startVersion(seed)
	cur = h
	base := runtime.NumGoroutine()
	schema := h.schema()
	s := &sock{h: h, in: make(chan *inMsg)}
	ctx, cancel := context.WithCancel(context.Background())
	defer cancel()
	c := graphql.CreateConnection(ctx, s, schema,
		graphql.WithExecutionLogger(&execLogger{h}), graphql.WithSubscriptionLogger(&subLogger{h}),
		graphql.WithMinRerunInterval(time.Duration(100+r.Intn(600))*time.Microsecond), graphql.WithMaxSubscriptions(maxSubs))
	c.Use(func(input *graphql.ComputationInput, next graphql.MiddlewareNextFunc) *graphql.ComputationOutput {
		input.Ctx = context.WithValue(input.Ctx, runKey{}, &runState{id: input.Id})
		return next(input)
	})
	served := make(chan struct{})
	go func() { c.ServeJSONSocket(); close(served) }()

	ids := []string{"1", "2", "3", ""}
	qs := []string{"qa", "qa", "qb", "qf", "qf", "qbad", "qg", "qg"}
	n := 3 + r.Intn(8)
	var script []scriptMsg
	for i := 0; i < n; i++ {
		id := ids[r.Intn(len(ids))]
		switch x := r.Intn(12); {
		case x < 6:
			script = append(script, scriptMsg{"subscribe", id, qs[r.Intn(len(qs))]})
		case x < 9:
			script = append(script, scriptMsg{"unsubscribe", id, ""})
		case x < 10:
			script = append(script, scriptMsg{"mutate", id, "qm"})
		case x < 11:
			script = append(script, scriptMsg{"echo", id, ""})
		default:
			script = append(script, scriptMsg{"bogus", id, ""})
		}
	}
	directed := r.Intn(6) == 0
	if directed {
		// a subscription that fails initially, is unsubscribed and re-subscribed under the same id
		// while its own asynchronous close is still on its way
		h.slowAsyncClose = true
		h.change("env") // version 1: the flaky resolver fails
		id := ids[r.Intn(len(ids))]
		script = append([]scriptMsg{{"subscribe", id, "qf"}, {"unsubscribe", id, ""}, {"subscribe", id, "qa"}}, script[:r.Intn(3)]...)
	}
	// the end of a subscription racing a RE-run's write-then-read delay: the rerunner sleeps with its lock held,
	// the unsubscribe (or the close of the socket) has to wait for that run and nothing may happen after it
	rx.WriteThenReadDelay = 0
	inDelay := !directed && r.Intn(5) == 0
	if inDelay {
		rx.WriteThenReadDelay = 3 * time.Millisecond
		id := ids[r.Intn(len(ids))]
		script = append([]scriptMsg{{"subscribe", id, "qa"}, {"change", "", ""}, {"unsubscribe", id, ""}}, script[:r.Intn(3)]...)
		if r.Intn(3) == 0 {
			script = script[:2] // the socket closes instead
		}
	}
	defer func() { rx.WriteThenReadDelay = 0 }()
	var wg sync.WaitGroup
	if !inDelay && r.Intn(5) == 0 {
		// the server cancels the connection's context at some moment while the socket stays open
		wg.Add(1)
		d := time.Duration(r.Intn(2500)) * time.Microsecond
		go func() {
			defer wg.Done()
			time.Sleep(d)
			h.mu.Lock()
			h.add(Raw{Ev: "ctx.cancel"})
			h.mu.Unlock()
			cancel()
		}()
	}
	nch := r.Intn(4)
	wg.Add(1)
	go func() {
		defer wg.Done()
		for i := 0; i < nch; i++ {
			time.Sleep(time.Duration(r.Intn(1500)) * time.Microsecond)
			h.change("env")
		}
	}()
	for k, m := range script {
		if directed && k < 3 {
			time.Sleep(time.Duration(300+r.Intn(300)) * time.Microsecond)
		} else if inDelay && k < 3 {
			time.Sleep(time.Duration(1200+r.Intn(800)) * time.Microsecond)
		} else {
			time.Sleep(time.Duration(r.Intn(700)) * time.Microsecond)
		}
		if m.typ == "change" {
			h.change("env")
			continue
		}
		var msg json.RawMessage
		if m.typ == "subscribe" || m.typ == "mutate" {
			msg, _ = json.Marshal(map[string]interface{}{"query": Queries[m.q], "variables": map[string]interface{}{}})
		}
		s.in <- &inMsg{ID: m.id, Type: m.typ, Message: msg, q: m.q}
	}
	wg.Wait()
	h.follow.Wait()
	settled := h.waitGoroutines(base+1, true) // only the reader is left, blocked in ReadJSON
	// a subscription that keeps failing retries with back-off: make sure the data is not at a failing version
	h.mu.Lock()
	flaky := Table[h.version].Flaky
	h.mu.Unlock()
	if flaky {
		h.change("env")
		h.follow.Wait()
		settled = h.waitGoroutines(base+1, true)
	}
	h.mu.Lock()
	if settled {
		h.add(Raw{Ev: "quiesce"})
	} else {
		h.add(Raw{Ev: "unsettled"})
	}
	h.mu.Unlock()
	close(s.in)
	<-served
	h.mu.Lock()
	h.add(Raw{Ev: "served.return"})
	h.mu.Unlock()
	if settled && h.waitGoroutines(base, false) {
		h.mu.Lock()
		h.add(Raw{Ev: "quiesce", N: len(h.tracker)})
		h.mu.Unlock()
	} else {
		h.mu.Lock()
		h.add(Raw{Ev: "unsettled"})
		h.mu.Unlock()
		settled = false
	}
	cur = nil
	h.mu.Lock()
	defer h.mu.Unlock()
	return fold(h.raw, scn), settled
}

// fold turns the raw log into the events of the specification.
func fold(raw []Raw, scn int) []Event {
	var out []Event
	emit := func(e Event) {
		e.Scn = scn
		if e.Ids == nil {
			e.Ids = []string{}
		}
		if e.Msg.K == "" {
			e.Msg = tj.T{K: "n"}
		}
		out = append(out, e)
	}
	lastWrite := map[int64]*Raw{} // gid -> write since the goroutine's last folded event
	pendingClose := map[int64]*Raw{} // gid -> closeSubscription that found its id and is stopping it
	var pending *Raw              // message the reader is handling
	rejected := false             // ... and has already been rejected (decision taken under c.mu)
	closing := false
	var closedIds []string
	flushReject := func() {}
	_ = flushReject
	// the server has to act on the id the frame it just read carries: an event of the reader goroutine about a
	// different id is logged as "id.mismatch", which no step of Conn.tla explains
	sameID := func(r *Raw) {
		if pending != nil && r.Id != pending.Id {
			emit(Event{Ev: "id.mismatch", Id: r.Id, Typ: pending.Typ, Q: pending.Id})
		}
	}
	for i := range raw {
		r := &raw[i]
		switch r.Ev {
		case "recv":
			pending = r
			rejected = false
			if r.Typ == "echo" || r.Typ == "bogus" {
				// answered by a write on the reader goroutine
			}
		case "recv.eof":
			closing = true
		case "subscribe.rejected", "mutate.rejected":
			sameID(r)
			if pending != nil {
				emit(Event{Ev: "rejected", Id: r.Id, Typ: pending.Typ, Q: pending.Q, Kind: r.Kind})
				rejected = true
			}
		case "logerr":
			if r.rd && pending != nil && !rejected {
				emit(Event{Ev: "rejected", Id: r.Id, Typ: pending.Typ, Q: pending.Q, Kind: "invalid"})
				rejected = true
			}
		case "logsub":
			sameID(r)
			emit(Event{Ev: "subscribe.accepted", Id: r.Id, Q: pending.Q})
			pending = nil
		case "mutate.accepted":
			sameID(r)
			emit(Event{Ev: "mutate.accepted", Id: r.Id, Q: pending.Q})
			pending = nil
		case "logunsub":
			if closing && r.rd {
				closedIds = append(closedIds, r.Id)
			} else if pc := pendingClose[r.gid]; pc != nil {
				// closeSubscription found the id, took c.mu, waited in Stop for a running computation,
				// removed the entry and now logs: this is where the subscription is over
				if pc.rd {
					sameID(r)
					emit(Event{Ev: "unsubscribe", Id: r.Id, Found: true})
					pending = nil
				} else {
					emit(Event{Ev: "async.close", Id: r.Id, Found: true})
				}
				delete(pendingClose, r.gid)
			}
		case "write":
			if r.rd && pending != nil {
				// the reader answers the message it is handling: echo, or an error envelope (rejection)
				if r.Typ == "echo" {
					emit(Event{Ev: "echo", Id: r.Id})
				} else if rejected {
					emit(Event{Ev: "reject.written", Id: r.Id, Typ: pending.Typ, Msg: r.Msg})
				} else {
					emit(Event{Ev: "rejected", Id: r.Id, Typ: pending.Typ, Q: pending.Q, Kind: "other"})
					emit(Event{Ev: "reject.written", Id: r.Id, Typ: pending.Typ, Msg: r.Msg})
				}
				pending = nil
				rejected = false
			} else {
				lastWrite[r.gid] = r
			}
		case "exec.start":
			delete(lastWrite, r.gid)
			emit(Event{Ev: "run.start", Id: r.Id, Init: r.B})
		case "read":
			emit(Event{Ev: "run.read", Id: r.Id, V: r.V})
		case "data":
			k := r.Kind
			if k == "follow" {
				k = "env"
			}
			emit(Event{Ev: "data", V: r.V, Kind: k})
		case "sub.done":
			e := Event{Ev: "sub.ok", Id: r.Id}
			if w := lastWrite[r.gid]; w != nil && w.Id == r.Id && w.Typ == "update" {
				e.Wrote, e.Msg = true, w.Msg
			}
			delete(lastWrite, r.gid)
			emit(e)
		case "ctx.cancel":
			emit(Event{Ev: "ctx.cancel"})
		case "sub.failed":
			e := Event{Ev: "sub.fail", Id: r.Id, Kind: r.Kind}
			if r.Kind == "ctx" {
				e.Ev = "sub.cancelled"
				// is somebody stopping this subscription right now (Stop cancels the rerunner's context
				// and then waits for the run)? then the cancellation is the Stop's, not the connection's
				e.Found = closing
				for _, pc := range pendingClose {
					if pc.Id == r.Id {
						e.Found = true
					}
				}
			}
			if w := lastWrite[r.gid]; w != nil && w.Id == r.Id && w.Typ == "error" {
				e.Wrote, e.Msg = true, w.Msg
			}
			delete(lastWrite, r.gid)
			emit(e)
		case "mut.done":
			e := Event{Ev: "mut.done", Id: r.Id, Ok: r.B}
			if w := lastWrite[r.gid]; w != nil && w.Id == r.Id {
				e.Wrote, e.Msg, e.Typ = true, w.Msg, w.Typ
			}
			delete(lastWrite, r.gid)
			emit(e)
		case "close.locked":
			if r.B {
				pendingClose[r.gid] = r
			} else if r.rd {
				sameID(r)
				emit(Event{Ev: "unsubscribe", Id: r.Id, Found: false})
				pending = nil
			} else {
				emit(Event{Ev: "async.close", Id: r.Id, Found: false})
			}
		case "closeAll.locked":
			closing = true
		case "served.return":
			emit(Event{Ev: "socket.closed", Ids: closedIds})
		case "quiesce":
			emit(Event{Ev: "quiesce", V: r.N})
		case "unsettled":
			emit(Event{Ev: "unsettled"})
		}
	}
	return out
}

// Results computes Res[q][v] by running every query against every data version directly.
func Results() map[string][]tj.T {
	h := &harness{tracker: map[*rx.Resource]bool{}, rng: rand.New(rand.NewSource(1))}
	schema := h.schema()
	out := map[string][]tj.T{}
	for name, text := range Queries {
		res := make([]tj.T, MaxVer+1)
		for v := 0; v <= MaxVer; v++ {
			h.version = v
			res[v] = tj.T{K: "FAIL"}
			if name == "qm" || name == "qbad" {
				res[v] = tj.T{K: "o", M: &map[string]tj.T{}}
				continue
			}
			q, err := graphql.Parse(text, nil)
			if err != nil {
				continue
			}
			if err := graphql.PrepareQuery(context.Background(), schema.Query, q.SelectionSet); err != nil {
				continue
			}
			val, err := graphql.NewExecutor(graphql.NewImmediateGoroutineScheduler()).Execute(context.Background(), schema.Query, nil, q)
			if err != nil {
				continue
			}
			b, _ := json.Marshal(val)
			res[v], _ = tj.FromJSON(b)
		}
		out[name] = res
	}
	return out
}

// Main: vh conn -res res.json -out trace.ndjson -scenarios 200 -seed 1 -maxsubs 2
func Main(args []string) error {
	fs := flag.NewFlagSet("conn", flag.ContinueOnError)
	resOut := fs.String("res", "", "write Res[q][v] here")
	out := fs.String("out", "", "")
	scenarios := fs.Int("scenarios", 100, "")
	seed := fs.Int64("seed", 1, "")
	maxSubs := fs.Int("maxsubs", 2, "")
	if err := fs.Parse(args); err != nil {
		return err
	}
	rx.WriteThenReadDelay = 0
	if *resOut != "" {
		b, _ := json.Marshal(Results())
		if err := os.WriteFile(*resOut, b, 0o644); err != nil {
			return err
		}
	}
	if *out == "" {
		return nil
	}
	graphql.VerifHook = hook
	w, err := tj.NewWriter(*out)
	if err != nil {
		return err
	}
	unsettled := 0
	nev := 0
	cov := map[string]int{}
	for i := 0; i < *scenarios; i++ {
		t0 := time.Now()
		evs, ok := runScenario(*seed*104729+int64(i), i+1, *maxSubs)
		if d := time.Since(t0); d > 200*time.Millisecond && os.Getenv("VH_DEBUG") != "" {
			fmt.Fprintf(os.Stderr, "slow scenario %d: %v (%d events)\n", i+1, d, len(evs))
		}
		w.Write(Event{Ev: "reset", Scn: i + 1, Ids: []string{}, Msg: tj.T{K: "n"}, V: startVersion(*seed*104729 + int64(i))})
		for _, e := range evs {
			w.Write(e)
			k := e.Ev
			switch e.Ev {
			case "sub.fail":
				k += "/" + e.Kind
			case "sub.ok":
				k += fmt.Sprintf("/wrote=%v", e.Wrote)
			case "async.close", "unsubscribe":
				k += fmt.Sprintf("/found=%v", e.Found)
			case "rejected":
				k += "/" + e.Typ
			}
			cov[k]++
		}
		nev += len(evs) + 1
		if !ok {
			unsettled++
			break
		}
	}
	graphql.VerifHook = nil
	if err := w.Close(); err != nil {
		return err
	}
	b, _ := json.Marshal(cov)
	fmt.Printf("{\"scenarios\":%d,\"events\":%d,\"unsettled\":%d,\"coverage\":%s}\n", *scenarios, nev, unsettled, b)
	return nil
}
