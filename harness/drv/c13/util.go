package c13

import "bytes"

func bytesReader(b []byte) *bytes.Reader { return bytes.NewReader(b) }
