// Package c13 executes the codec case matrix on the real sqlgen / livesql code: for every
// (column, value class, source form) TLC enumerated, a struct with that column set is converted to SQL
// values (UnbuildStruct), the column's SQL value is put into the source form, the row is decoded
// (BuildStruct) and compared; a filter made of the column's own value (Go value and SQL value) is
// tested against the row; and the filter goes through FilterToProto / FilterFromProto and is tested
// against the row and against a row with another value.
package c13

import (
	"database/sql/driver"
	"encoding/json"
	"flag"
	"fmt"
	"math/rand"
	"os"
	"reflect"

	"github.com/samsarahq/thunder/livesql"
	"github.com/samsarahq/thunder/sqlgen"

	"verifharness/internal/codeczoo"
	tj "verifharness/internal/tagjson"
)

type Case struct {
	Col  string `json:"col"`
	Val  string `json:"val"`
	Form string `json:"form"`
}

type Rec struct {
	Case
	Encode     string `json:"encode"`     // ok | error
	Applies    bool   `json:"applies"`    // the form applies to the value
	Decode     string `json:"decode"`     // ok | error | skipped
	Equal      bool   `json:"equal"`      // decoded struct equals the original
	OwnGo      bool   `json:"owngo"`      // filter {col: Go value} matches the row
	OwnSQL     bool   `json:"ownsql"`     // filter {col: SQL value} matches the row
	Proto      string `json:"proto"`      // ok | rejected
	ProtoSame  bool   `json:"protosame"`  // the filter after the proto round trip matches the same rows
	OtherMatch bool   `json:"othermatch"` // the own-value filter matches a row holding ANOTHER value class (must not, unless the SQL values are equal)
	OtherEqual bool   `json:"otherequal"` // ... and that other row's SQL value equals this one's
	Err        string `json:"err"`
}

func field(r *codeczoo.Row, tbl *sqlgen.Table, col string) reflect.Value {
	return reflect.ValueOf(r).Elem().FieldByIndex(tbl.ColumnsByName[col].Index)
}

func sqlEqual(a, b driver.Value) bool {
	if ab, ok := a.([]byte); ok {
		bb, ok := b.([]byte)
		return ok && string(ab) == string(bb)
	}
	return reflect.DeepEqual(a, b)
}

func run(schema *sqlgen.Schema, c Case) Rec {
	rec := Rec{Case: c, Decode: "skipped", Proto: "rejected"}
	tbl := schema.ByName[codeczoo.Table]
	var col codeczoo.Col
	for _, x := range codeczoo.Cols {
		if x.Name == c.Col {
			col = x
		}
	}
	orig := &codeczoo.Row{Id: 1}
	codeczoo.Set(orig, c.Col, c.Val)
	vals, err := schema.UnbuildStruct(codeczoo.Table, orig)
	if err != nil {
		rec.Encode, rec.Err = "error", err.Error()
		return rec
	}
	rec.Encode = "ok"
	idx := tbl.ColumnsByName[c.Col].Order
	row := make([]driver.Value, len(vals))
	for i, v := range vals {
		row[i] = v
	}
	formed, ok := codeczoo.Reform(col, vals[idx], c.Form)
	rec.Applies = ok
	if ok {
		row[idx] = formed
		back, err := schema.BuildStruct(codeczoo.Table, row)
		if err != nil {
			rec.Decode, rec.Err = "error", err.Error()
		} else {
			rec.Decode = "ok"
			got := field(back.(*codeczoo.Row), tbl, c.Col).Interface()
			want := field(orig, tbl, c.Col).Interface()
			rec.Equal = reflect.DeepEqual(got, want)
			if !rec.Equal {
				if tg, ok := got.(interface{ Equal(interface{}) bool }); ok {
					rec.Equal = tg.Equal(want)
				}
				// time values: the same instant ('' and NULL are different values: nil-ness of a byte slice must survive)
				rec.Equal = rec.Equal || fmt.Sprintf("%v", got) == fmt.Sprintf("%v", want) && col.Kind == "time"
				if !rec.Equal {
					rec.Err = fmt.Sprintf("decoded %#v, want %#v (sql value %#v in form %T)", got, want, vals[idx], formed)
				}
			}
		}
	}
	// a filter made of the row's own value matches the row
	goVal := field(orig, tbl, c.Col).Interface()
	if t, err := schema.MakeTester(codeczoo.Table, sqlgen.Filter{c.Col: goVal}); err == nil {
		rec.OwnGo = t.Test(orig)
	}
	if t, err := schema.MakeTester(codeczoo.Table, sqlgen.Filter{c.Col: vals[idx]}); err == nil {
		rec.OwnSQL = t.Test(orig)
	}
	// ... and no row that holds a different SQL value
	other := &codeczoo.Row{Id: 1}
	for _, ov := range col.Vals {
		if ov != c.Val {
			codeczoo.Set(other, c.Col, ov)
			break
		}
	}
	ovals, _ := schema.UnbuildStruct(codeczoo.Table, other)
	rec.OtherEqual = sqlEqual(ovals[idx], vals[idx])
	f := sqlgen.Filter{c.Col: goVal}
	t1, _ := schema.MakeTester(codeczoo.Table, f)
	rec.OtherMatch = t1.Test(other)
	// the filter shipped between servers
	p, err := livesql.FilterToProto(schema, codeczoo.Table, f)
	if err == nil {
		_, f2, err := livesql.FilterFromProto(schema, p)
		if err == nil {
			rec.Proto = "ok"
			t2, err := schema.MakeTester(codeczoo.Table, f2)
			rec.ProtoSame = err == nil && t2.Test(orig) == t1.Test(orig) && t2.Test(other) == t1.Test(other)
			if !rec.ProtoSame && rec.Err == "" {
				rec.Err = fmt.Sprintf("filter %#v came back as %#v", f, f2)
			}
		}
	}
	return rec
}

// safeRun turns a panic of the code under test into a record (outcome "panic") instead of a dead driver.
func safeRun(schema *sqlgen.Schema, c Case) (r Rec) {
	defer func() {
		if p := recover(); p != nil {
			r = Rec{Case: c, Encode: "panic", Decode: "skipped", Proto: "rejected", Err: fmt.Sprint(p)}
		}
	}()
	return run(schema, c)
}

// Main: vh c13 -describe desc.json | vh c13 -cases cases.ndjson -out recs.ndjson
func Main(args []string) error {
	fs := flag.NewFlagSet("c13", flag.ContinueOnError)
	describe := fs.String("describe", "", "")
	cases := fs.String("cases", "", "")
	out := fs.String("out", "", "")
	nrand := fs.Int("rand", 0, "seeded random values per (column, form) on top of the enumerated cases")
	seed := fs.Int64("seed", 1, "")
	if err := fs.Parse(args); err != nil {
		return err
	}
	if *describe != "" {
		b, _ := json.Marshal(map[string]interface{}{"cols": codeczoo.Cols})
		return os.WriteFile(*describe, b, 0o644)
	}
	raw, err := os.ReadFile(*cases)
	if err != nil {
		return err
	}
	schema, err := codeczoo.TrySchema()
	if err != nil {
		// the zoo's row type is valid: a refusal is the codec failing its own registration round trip
		os.WriteFile(*out, nil, 0o644)
		return os.WriteFile(*out+".rejected", []byte(err.Error()), 0o644)
	}
	w, err := tj.NewWriter(*out)
	if err != nil {
		return err
	}
	dec := json.NewDecoder(bytesReader(raw))
	for dec.More() {
		var c Case
		if err := dec.Decode(&c); err != nil {
			return err
		}
		w.Write(safeRun(schema, c))
	}
	r := rand.New(rand.NewSource(*seed))
	for _, col := range codeczoo.Cols {
		for k := 0; k < *nrand; k++ {
			v, ok := codeczoo.Random(r, col)
			if !ok {
				break
			}
			for _, f := range col.Forms {
				w.Write(safeRun(schema, Case{Col: col.Name, Val: v, Form: f}))
			}
		}
	}
	return w.Close()
}
