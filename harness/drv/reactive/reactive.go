// Package reactive drives thunder's real reactive package (graph, Rerunner,
// Cache) through seeded scenarios and records one event per spec action at the
// verif hooks (which fire inside the critical section they report), plus the
// driver's own events (bump, read, track, cleanup, stop.start, quiesce) taken
// under one trace mutex that also guards the data they talk about.  The trace
// is validated by Reactive_Trace.tla.
package reactive

import (
	"context"
	"errors"
	"flag"
	"fmt"
	"math/rand"
	"runtime"
	"sync"
	"time"

	rx "github.com/samsarahq/thunder/reactive"

	"verifharness/internal/gate"
	tj "verifharness/internal/tagjson"
)

// Event is one trace line. Every field is always present so that the TLA+
// side never selects a missing field.
type Event struct {
	Ev    string   `json:"ev"`
	N     string   `json:"n"`
	To    string   `json:"to"`
	From  string   `json:"from"`
	Key   string   `json:"key"`
	R     string   `json:"r"`
	C     string   `json:"c"`
	B1    bool     `json:"b1"`
	B2    bool     `json:"b2"`
	Slot  string   `json:"slot"`
	V     int      `json:"v"`
	Err   string   `json:"err"`
	Nodes []string `json:"nodes"`
	Scn   int      `json:"scn"`

	gid  int64
	p1   interface{} // raw pointers, named in a second pass
	p2   interface{}
	ptrs []interface{}
}

type item struct {
	op string // dep | fresh | cache | purge
	x  string
}

// Shape mirrors the program constants of Reactive_MC.tla.
type Shape struct {
	Name   string
	RR     []string
	Res    []string
	FSlots []string
	Prog   map[string][]item
	Body   map[string][]item
	Fail   bool // failing runs allowed (only for shapes without long-lived resources)
}

func dep(r string) item    { return item{"dep", r} }
func fresh(s string) item  { return item{"fresh", s} }
func cached(k string) item { return item{"cache", k} }

var Shapes = map[string]Shape{
	"A": {Name: "A", RR: []string{"R1"}, Res: []string{"r1", "r2"}, Prog: map[string][]item{"R1": {dep("r1"), dep("r2")}}},
	"B": {Name: "B", RR: []string{"R1", "R2"}, Res: []string{"r1"}, Prog: map[string][]item{"R1": {dep("r1")}, "R2": {dep("r1")}}},
	"C": {Name: "C", RR: []string{"R1"}, FSlots: []string{"s1", "s2"}, Fail: true,
		Prog: map[string][]item{"R1": {cached("k1"), cached("k2")}},
		Body: map[string][]item{"k1": {fresh("s1")}, "k2": {fresh("s2")}}},
	"D": {Name: "D", RR: []string{"R1"}, Res: []string{"r1", "r2"},
		Prog: map[string][]item{"R1": {dep("r1"), cached("k1")}},
		Body: map[string][]item{"k1": {dep("r1"), dep("r2")}}},
	"E": {Name: "E", RR: []string{"R1"}, FSlots: []string{"s1"}, Fail: true,
		Prog: map[string][]item{"R1": {cached("k1"), {"purge", ""}, cached("k1")}},
		Body: map[string][]item{"k1": {fresh("s1")}}},
	"F": {Name: "F", RR: []string{"R1"}, Res: []string{"r1"}, FSlots: []string{"s1"},
		Prog: map[string][]item{"R1": {fresh("s1"), dep("r1")}}},
}

type recorder struct {
	mu      sync.Mutex // the trace mutex: orders the log and guards version/tracker
	events  []*Event
	scn     int
	rng     *rand.Rand
	rngMu   sync.Mutex
	perturb float64
	lastCacheKey map[int64]string // gid -> key of the reactive.Cache call in progress
	frozen  bool
	count   int64
}

var rec *recorder

func (rc *recorder) add(e *Event) {
	if rc.frozen {
		return
	}
	e.Scn = rc.scn
	if e.Nodes == nil {
		e.Nodes = []string{}
	}
	rc.events = append(rc.events, e)
	rc.count++
}

func (rc *recorder) jitter() {
	rc.rngMu.Lock()
	x := rc.rng.Float64()
	d := rc.rng.Intn(150)
	rc.rngMu.Unlock()
	if x < rc.perturb {
		if d < 50 {
			runtime.Gosched()
		} else {
			time.Sleep(time.Duration(d) * time.Microsecond)
		}
	}
}

// foreignGID is the goroutine that is touching a resource from outside any rerunner (0 = nobody).
var foreignGID int64
var foreignNodes = map[interface{}]bool{}

// onRunLocked, when set by a scenario, is told about every "run.locked" (still under the rerunner's lock).
var onRunLocked func(rr interface{}, stopped bool)

func hook(point string, args ...interface{}) {
	rc := rec
	if rc == nil {
		return
	}
	if point == "addout" && foreignGID != 0 && gate.GoID() == foreignGID {
		// the driver itself touches a resource from a context without a rerunner
		rc.mu.Lock()
		rc.add(&Event{Ev: "touch", p1: args[0], B1: args[2].(bool), B2: args[3].(bool), gid: foreignGID})
		foreignNodes[args[1]] = true // the throw-away node the touch was made with: nothing about it concerns the model
		rc.mu.Unlock()
		return
	}
	if point == "run.locked" {
		if f := onRunLocked; f != nil {
			f(args[0], args[1].(bool))
		}
	}
	e := &Event{Ev: point, gid: gate.GoID()}
	switch point {
	case "strobe.snap", "inv.handler", "comp.fail":
		e.p1 = args[0]
	case "inv.mark", "rel.mark", "arm", "handle.release", "node.invalidated":
		e.p1 = args[0]
		e.B1 = args[1].(bool)
	case "rel.unlink":
		e.p1, e.p2 = args[0], args[1]
		e.B1 = args[2].(bool)
	case "addout":
		e.p1, e.p2 = args[0], args[1]
		e.B1, e.B2 = args[2].(bool), args[3].(bool)
	case "comp.new":
		e.p1 = args[0]
		rc.mu.Lock()
		e.Key = rc.lastCacheKey[e.gid]
		rc.mu.Unlock()
	case "cache.hit", "cache.set":
		e.Key = fmt.Sprint(args[0])
		e.p1 = args[1]
	case "run.ctxdone", "run.cleaned", "stop.cancelled", "stop.locked":
		e.p1 = args[0]
	case "run.locked":
		e.p1 = args[0]
		e.B1 = args[1].(bool)
	case "run.done":
		e.p1 = args[0]
		e.Err = "ok"
		if err, _ := args[1].(error); err != nil {
			if err == rx.RetrySentinelError {
				e.Err = "retry"
			} else {
				e.Err = "fatal"
			}
		}
	default:
		return
	}
	rc.mu.Lock()
	rc.add(e)
	rc.mu.Unlock()
	rc.jitter()
}

type scenario struct {
	rc      *recorder
	shape   Shape
	res     map[string]*rx.Resource
	version map[string]int
	tracker map[string][]*rx.Resource
	rr      map[string]*rx.Rerunner
	failsLeft int
	r       *rand.Rand
	rmu     sync.Mutex
}

func (s *scenario) rnd(n int) int {
	s.rmu.Lock()
	defer s.rmu.Unlock()
	return s.r.Intn(n)
}

func (s *scenario) read(slot string) {
	s.rc.mu.Lock()
	s.rc.add(&Event{Ev: "read", Slot: slot, V: s.version[slot], gid: gate.GoID()})
	s.rc.mu.Unlock()
	s.rc.jitter()
}

func (s *scenario) exec(ctx context.Context, it item) error {
	switch it.op {
	case "dep":
		rx.AddDependency(ctx, s.res[it.x], nil)
		s.read(it.x)
	case "fresh":
		r := rx.NewResource()
		r.Cleanup(func() {
			s.rc.mu.Lock()
			tr := s.tracker[it.x]
			for i := range tr {
				if tr[i] == r {
					s.tracker[it.x] = append(append([]*rx.Resource{}, tr[:i]...), tr[i+1:]...)
					break
				}
			}
			s.rc.add(&Event{Ev: "cleanup", p1: nodeOf(r)})
			s.rc.mu.Unlock()
			s.rc.jitter()
		})
		rx.AddDependency(ctx, r, nil)
		s.rc.jitter()
		s.rc.mu.Lock()
		s.tracker[it.x] = append(s.tracker[it.x], r)
		s.rc.add(&Event{Ev: "track", p1: nodeOf(r), Slot: it.x})
		s.rc.mu.Unlock()
		s.rc.jitter()
		s.read(it.x)
	case "cache":
		gid := gate.GoID()
		s.rc.mu.Lock()
		s.rc.lastCacheKey[gid] = it.x
		s.rc.mu.Unlock()
		_, err := rx.Cache(ctx, it.x, func(ctx context.Context) (interface{}, error) {
			for _, b := range s.shape.Body[it.x] {
				if err := s.exec(ctx, b); err != nil {
					return nil, err
				}
			}
			return it.x, nil
		})
		return err
	case "purge":
		s.rc.mu.Lock()
		rx.PurgeCache(ctx)
		s.rc.add(&Event{Ev: "purge"})
		s.rc.mu.Unlock()
	}
	return nil
}

// nodeOf returns the *node embedded at the start of a Resource, as the hooks report it.
func nodeOf(r *rx.Resource) interface{} { return rx.VerifNodeOf(r) }

var errFatal = errors.New("fatal compute error")

func (s *scenario) compute(r string) rx.ComputeFunc {
	return func(ctx context.Context) (interface{}, error) {
		for _, it := range s.shape.Prog[r] {
			if err := s.exec(ctx, it); err != nil {
				return nil, err
			}
		}
		if s.shape.Fail {
			s.rmu.Lock()
			f := s.failsLeft > 0 && s.r.Intn(3) == 0
			retry := s.r.Intn(2) == 0
			if f {
				s.failsLeft--
			}
			s.rmu.Unlock()
			if f {
				if retry {
					return nil, rx.RetrySentinelError
				}
				return nil, errFatal
			}
		}
		return r, nil
	}
}

func (s *scenario) bump(slot string) {
	s.rc.mu.Lock()
	s.version[slot]++
	targets := append([]*rx.Resource{}, s.tracker[slot]...)
	e := &Event{Ev: "bump", Slot: slot, V: s.version[slot]}
	for _, t := range targets {
		e.ptrs = append(e.ptrs, nodeOf(t))
	}
	s.rc.add(e)
	s.rc.mu.Unlock()
	if r, ok := s.res[slot]; ok {
		r.Strobe()
	}
	for _, t := range targets {
		t.Invalidate()
	}
}

var errUnsettled = errors.New("scenario did not quiesce")

// quiesce waits until every goroutine the scenario spawned (inside thunder or not) is gone.
func quiesce(base int) error {
	deadline := time.Now().Add(15 * time.Second)
	for {
		stable := 0
		for i := 0; i < 3; i++ {
			if runtime.NumGoroutine() <= base {
				stable++
			}
			runtime.Gosched()
		}
		if stable == 3 {
			return nil
		}
		if time.Now().After(deadline) {
			return errUnsettled
		}
		time.Sleep(100 * time.Microsecond)
	}
}

func runScenario(rc *recorder, sh Shape, seed int64, maxBump, maxFail int, spawn bool) error {
	r := rand.New(rand.NewSource(seed))
	rc.scn++
	rc.perturb = []float64{0, 0.05, 0.2, 0.5}[r.Intn(4)]
	s := &scenario{rc: rc, shape: sh, res: map[string]*rx.Resource{}, version: map[string]int{}, tracker: map[string][]*rx.Resource{},
		rr: map[string]*rx.Rerunner{}, r: r, failsLeft: maxFail}
	base := runtime.NumGoroutine()
	rc.mu.Lock()
	rc.add(&Event{Ev: "reset"})
	rc.mu.Unlock()
	for _, name := range sh.Res {
		res := rx.NewResource()
		s.res[name] = res
		rc.mu.Lock()
		rc.add(&Event{Ev: "name", N: name, p1: nodeOf(res)})
		rc.mu.Unlock()
		name := name
		res.Cleanup(func() {
			rc.mu.Lock()
			rc.add(&Event{Ev: "cleanup", p1: nodeOf(res), N: name})
			rc.mu.Unlock()
		})
	}
	intervals := []time.Duration{0, 50 * time.Microsecond, 300 * time.Microsecond}
	parentCancel := map[string]context.CancelFunc{}
	for _, name := range sh.RR {
		pctx, pcancel := context.WithCancel(context.Background())
		rr := rx.NewRerunner(pctx, s.compute(name), intervals[r.Intn(len(intervals))], spawn)
		s.rr[name] = rr
		parentCancel[name] = pcancel
		defer pcancel()
		rc.mu.Lock()
		rc.add(&Event{Ev: "rerunner", R: name, p1: rr, B1: spawn})
		rc.mu.Unlock()
	}
	slots := append(append([]string{}, sh.Res...), sh.FSlots...)
	var wg sync.WaitGroup
	nb := r.Intn(maxBump + 1)
	delays := make([]time.Duration, nb)
	bslots := make([]string, nb)
	for i := range delays {
		delays[i] = time.Duration(r.Intn(400)) * time.Microsecond
		bslots[i] = slots[r.Intn(len(slots))]
	}
	wg.Add(1)
	go func() {
		defer wg.Done()
		for i := range delays {
			time.Sleep(delays[i])
			s.bump(bslots[i])
		}
	}()
	// a long-lived resource shared by several rerunners must keep at least one dependant while
	// it is in use (a resource whose last dependant went away is released for good): no early Stop
	stopStyle := []int{0, 0, 1, 2, 3}[r.Intn(5)]
	stopEarly := r.Intn(2) == 0 && !(len(sh.RR) > 1 && len(sh.Res) > 0)
	stopDelay := time.Duration(r.Intn(600)) * time.Microsecond
	stopped := map[string]int{}
	var stopMu sync.Mutex
	// Stop may be called more than once, also by callers that overlap (at most 3 times per rerunner here)
	stopN := func(name string, atMost int) {
		stopMu.Lock()
		if stopped[name] >= atMost {
			stopMu.Unlock()
			return
		}
		stopped[name]++
		stopMu.Unlock()
		rc.mu.Lock()
		rc.add(&Event{Ev: "stop.start", R: name})
		rc.mu.Unlock()
		s.rr[name].Stop()
		rc.mu.Lock()
		rc.add(&Event{Ev: "stop.returned", R: name})
		rc.mu.Unlock()
	}
	stop := func(name string) { stopN(name, 1) }
	// the owner of the rerunner's context cancels it: logged and done under the recorder's lock, so that whatever
	// the rerunner does about it is logged afterwards
	cancelParent := func(name string) {
		rc.mu.Lock()
		rc.add(&Event{Ev: "parent.cancel", R: name})
		parentCancel[name]()
		rc.mu.Unlock()
	}
	// how the victim of this scenario is stopped: once; twice by overlapping callers; after its context was cancelled
	stopVictim := func(name string) {
		switch stopStyle {
		case 1:
			var w2 sync.WaitGroup
			for k := 0; k < 2; k++ {
				w2.Add(1)
				go func() { defer w2.Done(); stopN(name, 3) }()
			}
			w2.Wait()
		case 2:
			cancelParent(name)
			stopN(name, 3)
		case 3:
			cancelParent(name)
			time.Sleep(time.Duration(r.Intn(300)) * time.Microsecond)
			var w2 sync.WaitGroup
			for k := 0; k < 2; k++ {
				w2.Add(1)
				go func() { defer w2.Done(); stopN(name, 3) }()
			}
			w2.Wait()
		default:
			stopN(name, 3)
		}
	}
	// Stop racing a RE-run's write-then-read delay: the run holds the rerunner's lock while it sleeps, so a
	// Stop issued at that moment has to wait for the whole run (C04: once Stop returns no run is in progress).
	rx.WriteThenReadDelay = 0
	onRunLocked = nil
	if !stopEarly && r.Intn(3) == 0 && !(len(sh.RR) > 1 && len(sh.Res) > 0) {
		rx.WriteThenReadDelay = 2 * time.Millisecond
		victim := sh.RR[r.Intn(len(sh.RR))]
		vrr := s.rr[victim]
		runs := 0
		var once sync.Once
		onRunLocked = func(rr interface{}, stopped bool) {
			if rr != interface{}(vrr) || stopped {
				return
			}
			runs++
			if runs >= 2 {
				once.Do(func() {
					go func() { // quiesce() below waits for it
						time.Sleep(300 * time.Microsecond)
						stopVictim(victim)
					}()
				})
			}
		}
	}
	if stopEarly {
		wg.Add(1)
		victim := sh.RR[r.Intn(len(sh.RR))]
		go func() {
			defer wg.Done()
			time.Sleep(stopDelay)
			stopVictim(victim)
		}()
	}
	wg.Wait()
	if err := quiesce(base); err != nil {
		return err
	}
	rc.mu.Lock()
	rc.add(&Event{Ev: "quiesce"})
	rc.mu.Unlock()
	// with everything idle, long-lived resources are touched from a context that has no rerunner
	// (reactive.AddDependency outside a computation): whoever still depends on them must not notice
	for _, name := range sh.Res {
		if r.Intn(2) == 0 {
			foreignGID = gate.GoID()
			rx.AddDependency(context.Background(), s.res[name], nil)
			foreignGID = 0
			if err := quiesce(base); err != nil {
				return err
			}
			rc.mu.Lock()
			rc.add(&Event{Ev: "quiesce"})
			rc.mu.Unlock()
		}
	}
	for _, name := range sh.RR {
		stop(name)
	}
	if err := quiesce(base); err != nil {
		return err
	}
	rc.mu.Lock()
	rc.add(&Event{Ev: "quiesce"})
	rc.mu.Unlock()
	return nil
}

// name pass: turns raw pointers into node names in the order the spec allocates them.
func nameEvents(evs []*Event, sh Shape) ([]*Event, error) {
	var out []*Event
	names := map[interface{}]string{}
	rrNames := map[interface{}]string{}
	next := 0
	scn := -1
	alloc := func(p interface{}) string {
		next++
		n := fmt.Sprintf("n%d", next)
		names[p] = n
		return n
	}
	nm := func(p interface{}) string {
		if p == nil {
			return ""
		}
		if n, ok := names[p]; ok {
			return n
		}
		return "?"
	}
	for i, e := range evs {
		if e.Scn != scn {
			scn = e.Scn
			names = map[interface{}]string{}
			rrNames = map[interface{}]string{}
			next = 0
			// NewRerunner starts running before the driver can log the rerunner's name
			for _, f := range evs[i:] {
				if f.Scn != scn {
					break
				}
				if f.Ev == "rerunner" {
					rrNames[f.p1] = f.R
				}
			}
		}
		if e.p1 != nil && foreignNodes[e.p1] {
			continue
		}
		switch e.Ev {
		case "name":
			names[e.p1] = e.N
			continue
		case "rerunner":
			rrNames[e.p1] = e.R
			continue
		case "comp.new":
			// directly after run.cleaned on its goroutine: the rerunner's own computation (named there);
			// otherwise the child computation of a reactive.Cache miss
			top := false
			for j := i - 1; j >= 0 && evs[j].Scn == e.Scn; j-- {
				if evs[j].gid == e.gid {
					top = evs[j].Ev == "run.cleaned"
					break
				}
			}
			if !top {
				out = append(out, &Event{Ev: "cache.miss", Key: e.Key, C: alloc(e.p1), Scn: e.Scn, Nodes: []string{}})
			}
			continue
		case "handle.release":
			continue // registration of the Cleanup callback: before the node is shared
		case "run.cleaned":
			e.R = rrNames[e.p1]
			// the computation this goroutine creates next
			for _, f := range evs[i+1:] {
				if f.gid == e.gid && f.Ev == "comp.new" {
					e.C = alloc(f.p1)
					break
				}
				if f.Scn != e.Scn {
					break
				}
			}
			out = append(out, e)
			continue
		case "run.ctxdone", "run.locked", "run.done", "stop.cancelled", "stop.locked":
			e.R = rrNames[e.p1]
			out = append(out, e)
			continue
		}
		if e.Ev == "addout" {
			if _, ok := names[e.p1]; !ok {
				alloc(e.p1) // a per-run resource is allocated by the spec at its AddDependency
			}
		}
		e.N = nm(e.p1)
		if e.Ev == "rel.unlink" {
			e.From = nm(e.p2)
		}
		if e.Ev == "addout" {
			e.To = nm(e.p2)
		}
		if e.Ev == "cleanup" && e.N == "" {
			e.N = nm(e.p1)
		}
		for _, p := range e.ptrs {
			e.Nodes = append(e.Nodes, nm(p))
		}
		out = append(out, e)
	}
	// cache misses: a comp.new that does not follow run.cleaned on its goroutine is a child computation
	return out, nil
}

// Main: vh reactive -shape A -out trace.ndjson -scenarios 200 -seed 1 -maxbump 2 -maxfail 0
func Main(args []string) error {
	fs := flag.NewFlagSet("reactive", flag.ContinueOnError)
	shape := fs.String("shape", "A", "")
	out := fs.String("out", "", "")
	scenarios := fs.Int("scenarios", 100, "")
	seed := fs.Int64("seed", 1, "")
	maxBump := fs.Int("maxbump", 2, "")
	maxFail := fs.Int("maxfail", 0, "")
	spawn := fs.Bool("spawn", false, "rerunner option alwaysSpawnGoroutine")
	if err := fs.Parse(args); err != nil {
		return err
	}
	sh, ok := Shapes[*shape]
	if !ok {
		return fmt.Errorf("unknown shape %q", *shape)
	}
	if !sh.Fail {
		*maxFail = 0
	}
	rx.WriteThenReadDelay = 0
	rc := &recorder{rng: rand.New(rand.NewSource(*seed)), lastCacheKey: map[int64]string{}}
	rec = rc
	rx.VerifHook = hook
	unsettled := 0
	for i := 0; i < *scenarios; i++ {
		if err := runScenario(rc, sh, *seed*1000003+int64(i), *maxBump, *maxFail, *spawn); err != nil {
			// The scenario keeps running (livelock or a goroutine stuck for good). Freeze the
			// log: the recorded prefix is still validated, and the "unsettled" event at its end
			// is explained by no spec action.
			unsettled++
			rc.mu.Lock()
			rc.frozen = true
			n := 0
			for j := len(rc.events) - 1; j >= 0 && rc.events[j].Scn == rc.scn; j-- {
				n++
			}
			if n > 3000 {
				rc.events = rc.events[:len(rc.events)-(n-3000)]
			}
			rc.events = append(rc.events, &Event{Ev: "unsettled", Scn: rc.scn, Nodes: []string{}})
			rc.mu.Unlock()
			break
		}
	}
	rx.VerifHook = nil
	evs, err := nameEvents(rc.events, sh)
	if err != nil {
		return err
	}
	w, err := tj.NewWriter(*out)
	if err != nil {
		return err
	}
	cov := map[string]int{}
	for _, e := range evs {
		w.Write(e)
		k := e.Ev
		if e.Ev == "inv.mark" || e.Ev == "rel.mark" || e.Ev == "arm" || e.Ev == "run.locked" || e.Ev == "node.invalidated" {
			k = fmt.Sprintf("%s/%v", e.Ev, e.B1)
		}
		if e.Ev == "addout" {
			k = fmt.Sprintf("addout/inv=%v/rel=%v", e.B1, e.B2)
		}
		if e.Ev == "run.done" {
			k = "run.done/" + e.Err
		}
		cov[k]++
	}
	if err := w.Close(); err != nil {
		return err
	}
	fmt.Printf("{\"scenarios\":%d,\"events\":%d,\"unsettled\":%d,\"coverage\":%s}\n", rc.scn, len(evs), unsettled, mustJSON(cov))
	return nil
}

func mustJSON(v interface{}) string {
	b, _ := jsonMarshal(v)
	return string(b)
}
