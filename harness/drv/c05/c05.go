// Package c05 drives the real batch.Func.Invoke with concurrent callers and
// records one event per spec action of Batch.tla: the hooks fire inside the two
// bctx.mu critical sections (join, leader.removed), in the window between them
// (leader.woke) and just before doneCh is closed (leader.done); the driver adds
// cancel (logged before cancel() is called) and ret (Invoke's return value).
package c05

import (
	"math"
	"context"
	"errors"
	"flag"
	"fmt"
	"math/rand"
	"runtime"
	"strings"
	"sync"
	"time"

	"github.com/samsarahq/thunder/batch"
	cl "github.com/samsarahq/thunder/concurrencylimiter"

	"verifharness/internal/gate"
	tj "verifharness/internal/tagjson"
)

type Event struct {
	Ev      string   `json:"ev"`
	C       string   `json:"c"`
	G       int      `json:"g"`
	Idx     int      `json:"idx"`
	Existed bool     `json:"existed"`
	Len     int      `json:"len"`
	Pend    bool     `json:"pend"` // the group is still the pending one after the step
	O       string   `json:"o"`
	Args    []string `json:"args"`
	Kind    string   `json:"kind"`
	V       string   `json:"v"`
	Scn     int      `json:"scn"`
	p       interface{}
}

type recorder struct {
	mu      sync.Mutex
	events  []*Event
	scn     int
	byGoid  map[int64]string
	groups  map[interface{}]int
	nextG   int
	lastMany map[int64]*Event // gid -> the Many call made by this leader
	rng     *rand.Rand
	rngMu   sync.Mutex
	perturb float64
}

var rec *recorder

func (rc *recorder) jitter(scale int) {
	rc.rngMu.Lock()
	x := rc.rng.Float64()
	d := rc.rng.Intn(scale)
	rc.rngMu.Unlock()
	if x < rc.perturb {
		if d < scale/4 {
			runtime.Gosched()
		} else {
			time.Sleep(time.Duration(d) * time.Microsecond)
		}
	}
}

func classify(err error) string {
	switch {
	case err == nil:
		return "ok"
	case errors.Is(err, context.Canceled):
		return "ctx"
	case strings.Contains(err.Error(), "panicked"):
		return "panic"
	case strings.Contains(err.Error(), "incorrect number"):
		return "short"
	}
	return "error"
}

func hook(point string, args ...interface{}) {
	rc := rec
	if rc == nil {
		return
	}
	gid := gate.GoID()
	rc.mu.Lock()
	c := rc.byGoid[gid]
	e := &Event{Ev: point, C: c, Args: []string{}, Scn: rc.scn}
	bg := args[0]
	if _, ok := rc.groups[bg]; !ok {
		rc.nextG++
		rc.groups[bg] = rc.nextG
	}
	e.G = rc.groups[bg]
	switch point {
	case "invoke.joined":
		e.Ev = "join"
		e.Idx = args[1].(int) + 1
		e.Existed = args[2].(bool)
		e.Len = args[3].(int)
		e.Pend = args[4].(bool)
	case "leader.woke":
		e.Ev = "woke"
	case "leader.removed":
		e.Ev = "removed"
	case "leader.done":
		e.Ev = "done"
		err, _ := args[1].(error)
		e.O = classify(err)
		if m := rc.lastMany[gid]; m != nil {
			e.Args = m.Args
			e.Kind = "many"
			delete(rc.lastMany, gid)
		} else {
			e.Kind = "skipped"
		}
	}
	rc.events = append(rc.events, e)
	rc.mu.Unlock()
	if point == "leader.woke" {
		rc.jitter(600)
	} else {
		rc.jitter(120)
	}
}

var shardOf = map[string]string{"c1": "s1", "c2": "s1", "c3": "s1", "c4": "s2", "c5": "s2", "c6": "s1"}

func runScenario(rc *recorder, seed int64, maxSize int, withLimiter bool) {
	r := rand.New(rand.NewSource(seed))
	rc.mu.Lock()
	rc.scn++
	rc.byGoid = map[int64]string{}
	rc.groups = map[interface{}]int{}
	rc.nextG = 0
	rc.lastMany = map[int64]*Event{}
	rc.perturb = []float64{0, 0.1, 0.3, 0.6}[r.Intn(4)]
	rc.events = append(rc.events, &Event{Ev: "reset", Args: []string{}, Scn: rc.scn})
	rc.mu.Unlock()

	outcomes := []string{"ok", "ok", "ok", "error", "panic", "short"}
	plan := map[string]string{} // shard -> outcome for this scenario's Many calls
	for _, s := range []string{"s1", "s2"} {
		plan[s] = outcomes[r.Intn(len(outcomes))]
	}
	f := &batch.Func{
		MaxSize:      maxSize,
		WaitInterval: time.Duration(100+r.Intn(500)) * time.Microsecond,
		MaxDuration:  time.Duration(1+r.Intn(3)) * time.Millisecond,
		// the two shards are distinct values that PRINT alike (int64(7) and "7"): grouping must go by the value
		Shard: func(arg interface{}) interface{} {
			if shardOf[arg.(string)] == "s1" {
				return int64(7)
			}
			return "7"
		},
	}
	f.Many = func(ctx context.Context, args []interface{}) ([]interface{}, error) {
		gid := gate.GoID()
		e := &Event{Ev: "many", Args: []string{}}
		for _, a := range args {
			e.Args = append(e.Args, a.(string))
		}
		o := plan[shardOf[args[0].(string)]]
		rc.mu.Lock()
		rc.lastMany[gid] = e
		rc.mu.Unlock()
		rc.jitter(200)
		switch o {
		case "error":
			return nil, errors.New("many failed")
		case "panic":
			panic("many panics")
		case "short":
			return args[:len(args)-1], nil
		}
		res := make([]interface{}, len(args))
		for i, a := range args {
			res[i] = "v:" + a.(string)
		}
		return res, nil
	}
	base := batch.WithBatching(context.Background())
	if withLimiter {
		base = cl.With(base, 2)
	}
	n := 2 + r.Intn(5)
	names := []string{"c1", "c2", "c3", "c4", "c5", "c6"}
	r.Shuffle(len(names), func(i, j int) { names[i], names[j] = names[j], names[i] })
	names = names[:n]
	var wg sync.WaitGroup
	for _, name := range names {
		name := name
		delay := time.Duration(r.Intn(1200)) * time.Microsecond
		if r.Intn(3) == 0 {
			delay = 0
		}
		doCancel := r.Intn(4) == 0
		cancelDelay := time.Duration(r.Intn(1500)) * time.Microsecond
		ctx, cancel := context.WithCancel(base)
		wg.Add(1)
		if doCancel {
			wg.Add(1)
			go func() {
				defer wg.Done()
				time.Sleep(cancelDelay)
				rc.mu.Lock()
				rc.events = append(rc.events, &Event{Ev: "cancel", C: name, Args: []string{}, Scn: rc.scn})
				rc.mu.Unlock()
				cancel()
			}()
		}
		go func() {
			defer wg.Done()
			defer cancel()
			rc.mu.Lock()
			rc.byGoid[gate.GoID()] = name
			rc.mu.Unlock()
			time.Sleep(delay)
			ictx := ctx
			release := func() {}
			if withLimiter {
				ictx, release = cl.Acquire(ctx)
			}
			var v interface{}
			var err error
			func() {
				defer func() {
					if p := recover(); p != nil {
						err = fmt.Errorf("invoke-crashed: %v", p)
					}
				}()
				v, err = f.Invoke(ictx, name)
			}()
			release()
			e := &Event{Ev: "ret", C: name, Args: []string{}}
			if err != nil {
				e.Kind, e.V = "err", classify(err)
			} else {
				e.Kind, e.V = "val", strings.TrimPrefix(fmt.Sprint(v), "v:")
				if !strings.HasPrefix(fmt.Sprint(v), "v:") {
					e.V = "?" + fmt.Sprint(v)
				}
			}
			rc.mu.Lock()
			e.Scn = rc.scn
			rc.events = append(rc.events, e)
			rc.mu.Unlock()
		}()
	}
	done := make(chan struct{})
	go func() { wg.Wait(); close(done) }()
	select {
	case <-done:
		rc.mu.Lock()
		rc.events = append(rc.events, &Event{Ev: "end", Args: []string{}, Scn: rc.scn})
		rc.mu.Unlock()
	case <-time.After(20 * time.Second):
		rc.mu.Lock()
		rc.events = append(rc.events, &Event{Ev: "hang", Args: []string{}, Scn: rc.scn})
		rc.mu.Unlock()
	}
}

// Main: vh c05 -out trace.ndjson -maxsize 2 -scenarios 300 -seed 1
func Main(args []string) error {
	fs := flag.NewFlagSet("c05", flag.ContinueOnError)
	out := fs.String("out", "", "")
	maxSize := fs.Int("maxsize", 0, "")
	scenarios := fs.Int("scenarios", 100, "")
	seed := fs.Int64("seed", 1, "")
	limiter := fs.Bool("limiter", false, "callers hold a concurrency-limiter token (joiners release it temporarily)")
	if err := fs.Parse(args); err != nil {
		return err
	}
	rc := &recorder{rng: rand.New(rand.NewSource(*seed))}
	rec = rc
	batch.VerifHook = hook
	for i := 0; i < *scenarios; i++ {
		ms := *maxSize
		if ms < 0 {
			ms = math.MaxInt // "no limit" written as the largest int
		}
		runScenario(rc, *seed*7919+int64(i), ms, *limiter)
		if rc.events[len(rc.events)-1].Ev == "hang" {
			break
		}
	}
	batch.VerifHook = nil
	w, err := tj.NewWriter(*out)
	if err != nil {
		return err
	}
	cov := map[string]int{}
	for _, e := range rc.events {
		w.Write(e)
		k := e.Ev
		switch e.Ev {
		case "join":
			k = fmt.Sprintf("join/existed=%v/closed=%v", e.Existed, *maxSize > 0 && e.Len == *maxSize)
		case "done":
			k = "done/" + e.Kind + "/" + e.O
		case "ret":
			k = "ret/" + e.Kind + "/" + map[bool]string{true: "-", false: e.V}[e.Kind == "val"]
		}
		cov[k]++
	}
	if err := w.Close(); err != nil {
		return err
	}
	b, _ := jsonMarshal(cov)
	fmt.Printf("{\"scenarios\":%d,\"events\":%d,\"coverage\":%s}\n", rc.scn, len(rc.events), b)
	return nil
}
