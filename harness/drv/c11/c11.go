// Package c11 runs the (list, pagination arguments) cases of Pagination_Gen.tla against
// thunder's real thunder-managed pagination, once per filter/sort implementation (plain,
// Expensive, batch, batch-with-fallback on/off), and additionally walks whole lists by
// chaining the REAL cursors. Pagination_Trace.tla judges the connections returned.
package c11

import (
	"bufio"
	"context"
	"encoding/base64"
	"encoding/json"
	"flag"
	"fmt"
	"math/rand"
	"os"
	"strings"

	"github.com/samsarahq/thunder/batch"
	"github.com/samsarahq/thunder/graphql"
	"github.com/samsarahq/thunder/graphql/schemabuilder"

	tj "verifharness/internal/tagjson"
)

type Item struct {
	Key  string `json:"key"`
	Name string `json:"name"`
	Rank int64  `json:"rank"`
}

type Args struct {
	First  int    `json:"first"` // -1 = absent
	Last   int    `json:"last"`
	After  string `json:"after"` // "none" = absent; otherwise a key (or "unknown")
	Before string `json:"before"`
	Filter string `json:"filter"`
	SortBy string `json:"sortBy"`
	Desc   bool   `json:"desc"`
}

type Conn struct {
	Keys       []string `json:"keys"`
	TotalCount int      `json:"totalCount"`
	HasNext    bool     `json:"hasNext"`
	HasPrev    bool     `json:"hasPrev"`
	Start      string   `json:"start"`
	End        string   `json:"end"`
	Err        string   `json:"err"`
}

type Case struct {
	L    []Item `json:"l"`
	A    Args   `json:"a"`
	Surf int    `json:"surf"`
}

// The model's names and filter token are lower-case ASCII words.  The text filter is case-insensitive for
// every letter, so a case may be run on another surface of the same words: each letter in random case
// (Surf 1), or each letter replaced - one to one - by a non-ASCII letter with a simple upper/lower pair, in
// random case (Surf 2).  Only what the filter fields return and the filterText argument change; sorting
// keeps using the model's names.
var surfMode int

var uni = map[rune][2]rune{'a': {'ä', 'Ä'}, 'b': {'б', 'Б'}, 'c': {'ç', 'Ç'}, 'd': {'д', 'Д'}, 'e': {'é', 'É'}, 'i': {'и', 'И'},
	'l': {'л', 'Л'}, 'm': {'м', 'М'}, 'n': {'ñ', 'Ñ'}, 'o': {'ö', 'Ö'}, 's': {'ш', 'Ш'}, 't': {'т', 'Т'}, 'z': {'ž', 'Ž'}}

func surface(s string, salt string) string {
	if surfMode == 0 {
		return s
	}
	h := 7
	for _, c := range salt {
		h = h*31 + int(c)
	}
	out := []rune{}
	for i, c := range s {
		up := (h>>uint(i%16)+i)%2 == 1
		pair, ok := uni[c]
		switch {
		case surfMode == 2 && ok:
			out = append(out, pair[map[bool]int{false: 0, true: 1}[up]])
		case up && c >= 'a' && c <= 'z':
			out = append(out, c-32)
		default:
			out = append(out, c)
		}
	}
	return string(out)
}

type Rec struct {
	Kind    string          `json:"kind"` // page | walk
	L       []Item          `json:"l"`
	A       Args            `json:"a"`
	Variant string          `json:"variant"`
	Got     Conn            `json:"got"`
	N       int             `json:"n"`       // walk: page size
	Dir     string          `json:"dir"`     // walk: forward | backward
	Visited []string        `json:"visited"` // walk: keys in visiting order
	Pages   int             `json:"pages"`
}

var current []*Item

var Variants = []string{"Plain", "Exp", "Batch", "FbOn", "FbOff", "Mixed"}

func build() *graphql.Schema {
	s := schemabuilder.NewSchema()
	obj := s.Object("Item", Item{})
	obj.Key("key")
	q := s.Query()
	list := func() []*Item { return current }
	name := func(it *Item) string { return it.Name }
	fname := func(it *Item) string { return surface(it.Name, it.Key) }
	rank := func(it *Item) int64 { return it.Rank }
	bname := func(m map[batch.Index]*Item) (map[batch.Index]string, error) {
		out := map[batch.Index]string{}
		for i, it := range m {
			out[i] = it.Name
		}
		return out, nil
	}
	bfname := func(m map[batch.Index]*Item) (map[batch.Index]string, error) {
		out := map[batch.Index]string{}
		for i, it := range m {
			out[i] = surface(it.Name, it.Key)
		}
		return out, nil
	}
	brank := func(m map[batch.Index]*Item) (map[batch.Index]int64, error) {
		out := map[batch.Index]int64{}
		for i, it := range m {
			out[i] = it.Rank
		}
		return out, nil
	}
	nameE := func(it *Item) (string, error) { return it.Name, nil }
	fnameE := func(it *Item) (string, error) { return surface(it.Name, it.Key), nil }
	rankE := func(it *Item) (int64, error) { return it.Rank, nil }
	on := func(context.Context) bool { return true }
	off := func(context.Context) bool { return false }
	q.FieldFunc("itemsPlain", list, schemabuilder.Paginated,
		schemabuilder.FilterField("name", fname), schemabuilder.SortField("rank", rank), schemabuilder.SortField("name", name))
	q.FieldFunc("itemsExp", list, schemabuilder.Paginated,
		schemabuilder.FilterField("name", fname, schemabuilder.Expensive),
		schemabuilder.SortField("rank", rank, schemabuilder.Expensive), schemabuilder.SortField("name", name, schemabuilder.Expensive))
	q.FieldFunc("itemsBatch", list, schemabuilder.Paginated,
		schemabuilder.BatchFilterField("name", bfname), schemabuilder.BatchSortField("rank", brank), schemabuilder.BatchSortField("name", bname))
	q.FieldFunc("itemsFbOn", list, schemabuilder.Paginated,
		schemabuilder.BatchFilterFieldWithFallback("name", bfname, fnameE, on),
		schemabuilder.BatchSortFieldWithFallback("rank", brank, rankE, on), schemabuilder.BatchSortFieldWithFallback("name", bname, nameE, on))
	q.FieldFunc("itemsFbOff", list, schemabuilder.Paginated,
		schemabuilder.BatchFilterFieldWithFallback("name", bfname, fnameE, off),
		schemabuilder.BatchSortFieldWithFallback("rank", brank, rankE, off), schemabuilder.BatchSortFieldWithFallback("name", bname, nameE, off))
	// Mixed: three filter fields of three kinds over one connection; each item shows its name through exactly one of
	// them (by its key) and the empty text through the other two, so that "some filter field contains the token" is the
	// model's "the name contains the token" - as long as every field's verdict is credited to the right item
	part := func(it *Item, k int) string {
		h := 0
		for _, c := range it.Key {
			h = h*31 + int(c)
		}
		if h%3 == k {
			return surface(it.Name, it.Key)
		}
		return ""
	}
	q.FieldFunc("itemsMixed", list, schemabuilder.Paginated,
		schemabuilder.FilterField("name", func(it *Item) string { return part(it, 0) }),
		schemabuilder.FilterField("tag", func(it *Item) string { return part(it, 1) }, schemabuilder.Expensive),
		schemabuilder.BatchFilterField("note", func(m map[batch.Index]*Item) (map[batch.Index]string, error) {
			out := map[batch.Index]string{}
			for i, it := range m {
				out[i] = part(it, 2)
			}
			return out, nil
		}),
		schemabuilder.SortField("rank", rank), schemabuilder.SortField("name", name))
	s.Mutation()
	return s.MustBuild()
}

func cursorOf(key string) string { return base64.StdEncoding.EncodeToString([]byte(key)) }
func keyOf(cursor string) string {
	b, err := base64.StdEncoding.DecodeString(cursor)
	if err != nil {
		return "?" + cursor
	}
	return string(b)
}

func queryText(variant string, a Args, afterCursor, beforeCursor *string) string {
	var parts []string
	if a.First >= 0 {
		parts = append(parts, fmt.Sprintf("first: %d", a.First))
	}
	if a.Last >= 0 {
		parts = append(parts, fmt.Sprintf("last: %d", a.Last))
	}
	if afterCursor != nil {
		parts = append(parts, fmt.Sprintf("after: %q", *afterCursor))
	}
	if beforeCursor != nil {
		parts = append(parts, fmt.Sprintf("before: %q", *beforeCursor))
	}
	if a.Filter != "none" {
		parts = append(parts, fmt.Sprintf("filterText: %q", surface(a.Filter, "filter")))
	}
	if a.SortBy != "none" {
		parts = append(parts, fmt.Sprintf("sortBy: %q", a.SortBy))
		if a.Desc {
			parts = append(parts, `sortOrder: "desc"`)
		} else {
			parts = append(parts, `sortOrder: "asc"`)
		}
	}
	argText := ""
	if len(parts) > 0 {
		argText = "(" + strings.Join(parts, ", ") + ")"
	}
	return fmt.Sprintf("{ c: items%s%s { totalCount edges { cursor node { key } } pageInfo { hasNextPage hasPrevPage startCursor endCursor } } }", variant, argText)
}

func cur(key string) *string {
	if key == "none" {
		return nil
	}
	c := cursorOf(key)
	return &c
}

func run(schema *graphql.Schema, text string) (c Conn) {
	c.Keys = []string{}
	defer func() {
		if p := recover(); p != nil {
			c.Err = fmt.Sprint("crash: ", p)
		}
	}()
	q, err := graphql.Parse(text, nil)
	if err != nil {
		c.Err = "parse: " + err.Error()
		return
	}
	if err := graphql.PrepareQuery(context.Background(), schema.Query, q.SelectionSet); err != nil {
		c.Err = "prepare: " + err.Error()
		return
	}
	ctx := batch.WithBatching(context.Background())
	val, err := graphql.NewExecutor(graphql.NewImmediateGoroutineScheduler()).Execute(ctx, schema.Query, nil, q)
	if err != nil {
		c.Err = "execute: " + err.Error()
		return
	}
	b, _ := json.Marshal(val)
	var doc struct {
		C struct {
			TotalCount int `json:"totalCount"`
			Edges      []struct {
				Cursor string `json:"cursor"`
				Node   struct {
					Key string `json:"key"`
				} `json:"node"`
			} `json:"edges"`
			PageInfo struct {
				HasNextPage bool   `json:"hasNextPage"`
				HasPrevPage bool   `json:"hasPrevPage"`
				StartCursor string `json:"startCursor"`
				EndCursor   string `json:"endCursor"`
			} `json:"pageInfo"`
		} `json:"c"`
	}
	if err := json.Unmarshal(b, &doc); err != nil {
		c.Err = "shape: " + err.Error()
		return
	}
	for _, e := range doc.C.Edges {
		c.Keys = append(c.Keys, e.Node.Key)
		if keyOf(e.Cursor) != e.Node.Key {
			c.Err = "edge cursor does not belong to its node"
		}
	}
	c.TotalCount = doc.C.TotalCount
	c.HasNext, c.HasPrev = doc.C.PageInfo.HasNextPage, doc.C.PageInfo.HasPrevPage
	if doc.C.PageInfo.StartCursor != "" {
		c.Start = keyOf(doc.C.PageInfo.StartCursor)
	}
	if doc.C.PageInfo.EndCursor != "" {
		c.End = keyOf(doc.C.PageInfo.EndCursor)
	}
	return
}

func setList(l []Item) {
	current = nil
	for i := range l {
		it := l[i]
		current = append(current, &it)
	}
}

// Main: vh c11 -cases pg.ndjson -out recs.ndjson [-rand N -seed S]
func Main(args []string) error {
	fs := flag.NewFlagSet("c11", flag.ContinueOnError)
	cases := fs.String("cases", "", "")
	out := fs.String("out", "", "")
	nrand := fs.Int("rand", 0, "seeded random cases over longer lists")
	seed := fs.Int64("seed", 1, "")
	if err := fs.Parse(args); err != nil {
		return err
	}
	schema := build()
	w, err := tj.NewWriter(*out)
	if err != nil {
		return err
	}
	var all []Case
	if *cases != "" {
		f, err := os.Open(*cases)
		if err != nil {
			return err
		}
		sc := bufio.NewScanner(f)
		sc.Buffer(make([]byte, 1<<20), 1<<24)
		for sc.Scan() {
			var c Case
			if err := json.Unmarshal(sc.Bytes(), &c); err != nil {
				return err
			}
			if c.L == nil {
				c.L = []Item{}
			}
			all = append(all, c)
		}
		f.Close()
	}
	r := rand.New(rand.NewSource(*seed))
	names := []string{"can", "man", "cot", "soban", "bell", "ant", "bantam", "zed", "anna", "tin"}
	for i := 0; i < *nrand; i++ {
		n := r.Intn(12)
		if r.Intn(6) == 0 {
			n = 17 + r.Intn(24) // long lists: thunder works through them in chunks
		}
		perm := r.Perm(48)
		l := make([]Item, n)
		for j := range l {
			l[j] = Item{Key: fmt.Sprintf("k%d", perm[j]+1), Name: names[r.Intn(len(names))], Rank: int64(r.Intn(4))}
		}
		pickKey := func() string {
			switch x := r.Intn(5); {
			case x == 0 || n == 0:
				return "none"
			case x == 1:
				return "unknown"
			}
			return l[r.Intn(n)].Key
		}
		a := Args{First: -1, Last: -1, After: pickKey(), Before: pickKey(), Filter: []string{"none", "an", "b", "zz", ""}[r.Intn(5)],
			SortBy: []string{"none", "rank", "name"}[r.Intn(3)], Desc: r.Intn(2) == 0}
		switch r.Intn(3) {
		case 0:
			a.First = r.Intn(5)
		case 1:
			a.Last = r.Intn(5)
		}
		all = append(all, Case{L: l, A: a, Surf: []int{0, 0, 1, 2, 2}[r.Intn(5)]})
	}
	walked := map[string]bool{}
	for _, c := range all {
		setList(c.L)
		surfMode = c.Surf
		for _, v := range Variants {
			rec := Rec{Kind: "page", L: c.L, A: c.A, Variant: v, Visited: []string{}}
			rec.Got = run(schema, queryText(v, c.A, cur(c.A.After), cur(c.A.Before)))
			w.Write(rec)
		}
		// walk the whole (filtered, sorted) list once per (list, filter, sort): chaining the real cursors
		lb, _ := json.Marshal(c.L)
		wk := fmt.Sprintf("%s|%s|%s|%v", lb, c.A.Filter, c.A.SortBy, c.A.Desc)
		if walked[wk] {
			continue
		}
		walked[wk] = true
		v := Variants[r.Intn(len(Variants))]
		for _, n := range []int{1, 2, 3} {
			for _, dir := range []string{"forward", "backward"} {
				rec := Rec{Kind: "walk", L: c.L, A: c.A, Variant: v, N: n, Dir: dir, Visited: []string{}, Got: Conn{Keys: []string{}}}
				a := c.A
				a.After, a.Before, a.First, a.Last = "none", "none", -1, -1
				var cursor *string
				for step := 0; step < len(c.L)+3; step++ {
					var g Conn
					if dir == "forward" {
						a.First = n
						g = run(schema, queryText(v, a, cursor, nil))
					} else {
						a.Last = n
						g = run(schema, queryText(v, a, nil, cursor))
					}
					rec.Pages++
					if g.Err != "" {
						rec.Got.Err = g.Err
						break
					}
					if dir == "forward" {
						rec.Visited = append(rec.Visited, g.Keys...)
						if !g.HasNext || len(g.Keys) == 0 {
							break
						}
						cc := cursorOf(g.End)
						cursor = &cc
					} else {
						rec.Visited = append(append([]string{}, g.Keys...), rec.Visited...)
						if !g.HasPrev || len(g.Keys) == 0 {
							break
						}
						cc := cursorOf(g.Start)
						cursor = &cc
					}
				}
				w.Write(rec)
			}
		}
	}
	return w.Close()
}
