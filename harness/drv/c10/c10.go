// Package c10 runs concurrent Query / QueryRow calls against the same fake database with and without
// batch.WithBatching and records, per scenario, the table contents, every call's filter (abstract
// value + Go representation), what each call returned both ways and the SELECT statements the driver
// received. SqlBatch_Trace.tla judges the records against Rows(table, filter).
package c10

import (
	"fmt"
	"context"
	"flag"
	"math/rand"
	"strings"
	"sync"

	"github.com/samsarahq/thunder/batch"
	"github.com/samsarahq/thunder/sqlgen"

	"verifharness/internal/fakesql"
	"verifharness/internal/sqlzoo"
	tj "verifharness/internal/tagjson"
)

type Outcome struct {
	Ok  bool     `json:"ok"`
	Ids []string `json:"ids"`
	Err string   `json:"err"`
}

type Call struct {
	Kind    string                 `json:"kind"` // query | queryrow
	Filter  map[string]sqlzoo.FVal `json:"filter"`
	Plain   Outcome                `json:"plain"`
	Batched Outcome                `json:"batched"`
}

type Rec struct {
	I              int                 `json:"i"`
	Rows           []map[string]string `json:"rows"`
	Calls          []Call              `json:"calls"`
	SelectsPlain   int                 `json:"selects_plain"`
	SelectsBatched int                 `json:"selects_batched"`
	BatchSQL       []string            `json:"batch_sql"`
}

func run(ctx context.Context, db *sqlgen.DB, kind string, f sqlgen.Filter) (o Outcome) {
	o.Ids = []string{}
	defer func() {
		if p := recover(); p != nil {
			o.Ok, o.Err = false, "panic"
		}
	}()
	// every call gets its own copy of the filter map (the calls of one scenario run concurrently)
	fc := sqlgen.Filter{}
	for k, v := range f {
		fc[k] = v
	}
	switch kind {
	case "query":
		var us []*sqlzoo.User
		if err := db.Query(ctx, &us, fc, nil); err != nil {
			o.Err = err.Error()
			return
		}
		o.Ok, o.Ids = true, sqlzoo.Ids(us)
	default:
		var u *sqlzoo.User
		if err := db.QueryRow(ctx, &u, fc, nil); err != nil {
			o.Err = err.Error()
			if strings.Contains(o.Err, "no rows") {
				o.Err = "norows"
			} else if strings.Contains(o.Err, "no more than 1") {
				o.Err = "many"
			}
			return
		}
		o.Ok, o.Ids = true, sqlzoo.Ids([]*sqlzoo.User{u})
	}
	return
}

func countSelects(log []fakesql.Stmt) (int, []string) {
	n := 0
	var sqls []string
	for _, s := range log {
		if s.Kind == "select" {
			n++
			sqls = append(sqls, s.SQL[strings.Index(s.SQL, "FROM"):])
		}
	}
	return n, sqls
}

// Main: vh c10 -out recs.ndjson -n 300 -seed 1
func Main(args []string) error {
	fs := flag.NewFlagSet("c10", flag.ContinueOnError)
	out := fs.String("out", "", "")
	n := fs.Int("n", 200, "")
	seed := fs.Int64("seed", 1, "")
	if err := fs.Parse(args); err != nil {
		return err
	}
	r := rand.New(rand.NewSource(*seed))
	w, err := tj.NewWriter(*out)
	if err != nil {
		return err
	}
	cols := []string{"id", "org", "name", "age", "nick", "kind", "small", "note", "blob"}
	for i := 1; i <= *n; i++ {
		fdb := fakesql.New("zoo", sqlzoo.Def)
		conn := fdb.Open()
		db := sqlgen.NewDB(conn, sqlzoo.Schema())
		rec := Rec{I: i, Rows: []map[string]string{}, BatchSQL: []string{}}
		nrows := r.Intn(6)
		for id := 1; id <= nrows; id++ {
			u := sqlzoo.RandomUser(r, int64(id))
			if _, err := db.InsertRow(context.Background(), u); err != nil {
				return err
			}
		}
		// every seventh scenario: neighbouring 63-bit ids (random unique ids look like this), which differ only
		// below the precision of a float64
		bigIds := []int64{1<<62 + 1, 1<<62 + 2, 1<<62 + 513}
		big := i%7 == 3
		if big {
			for _, id := range bigIds {
				if _, err := db.InsertRow(context.Background(), sqlzoo.RandomUser(r, id)); err != nil {
					return err
				}
			}
		}
		for _, row := range fdb.Snapshot(sqlzoo.Table) {
			rec.Rows = append(rec.Rows, sqlzoo.Abs(row))
		}
		ncalls := 1 + r.Intn(6)
		if i%20 == 0 {
			// a crowd: hundreds of callers in one batch, most of them with a filter somebody else has too
			ncalls = 150 + r.Intn(400)
		}
		filters := make([]sqlgen.Filter, ncalls)
		for c := 0; c < ncalls; c++ {
			f, a := sqlzoo.RandomFilter(r, cols)
			if c >= 6 && ncalls > 100 && r.Intn(10) != 0 { // the crowd repeats earlier filters
				k := r.Intn(c)
				f, a = filters[k], rec.Calls[k].Filter
			} else if c > 0 && r.Intn(5) == 0 { // an equal filter twice
				f, a = filters[c-1], rec.Calls[c-1].Filter
			}
			if big && r.Intn(2) == 0 {
				fv := sqlzoo.FVal{V: fmt.Sprint(bigIds[r.Intn(len(bigIds))]), Rep: "int64"}
				f, a = sqlgen.Filter{"id": sqlzoo.Go("id", fv)}, map[string]sqlzoo.FVal{"id": fv}
			}
			filters[c] = f
			kind := "query"
			if r.Intn(4) == 0 {
				kind = "queryrow"
			}
			rec.Calls = append(rec.Calls, Call{Kind: kind, Filter: a})
		}
		// on its own
		fdb.ResetLog()
		for c := range rec.Calls {
			rec.Calls[c].Plain = run(context.Background(), db, rec.Calls[c].Kind, filters[c])
		}
		rec.SelectsPlain, _ = countSelects(fdb.Log())
		// concurrently, with batching
		fdb.ResetLog()
		ctx := batch.WithBatching(context.Background())
		var wg sync.WaitGroup
		for c := range rec.Calls {
			c := c
			wg.Add(1)
			go func() {
				defer wg.Done()
				rec.Calls[c].Batched = run(ctx, db, rec.Calls[c].Kind, filters[c])
			}()
		}
		wg.Wait()
		rec.SelectsBatched, rec.BatchSQL = countSelects(fdb.Log())
		conn.Close()
		w.Write(rec)
	}
	return w.Close()
}
