// Package c07 runs real live SQL queries (livesql.LiveDB inside reactive rerunners) over the fake
// MySQL driver with the binlog replaced by an in-process event stream, and drives a random but fully
// serialised interleaving of: a query's run reaching its dependency registration, reaching its
// SELECT, a write committing, the next change event being delivered (possibly garbled so that it
// cannot be decoded). Query goroutines are parked at gates outside every lock, so the driver chooses
// the schedule. Every step is logged at its linearization point for LiveSql_Trace.tla, and at
// quiescence the rows each query holds are compared with the table.
package c07

import (
	"context"
	"database/sql/driver"
	"flag"
	"fmt"
	"math/rand"
	"sort"
	"strings"
	"sync"
	"time"

	"github.com/samsarahq/thunder/livesql"
	"github.com/samsarahq/thunder/reactive"
	"github.com/samsarahq/thunder/sqlgen"
	"github.com/siddontang/go-mysql/replication"

	"verifharness/internal/fakesql"
	"verifharness/internal/sqlzoo"
	tj "verifharness/internal/tagjson"
)

type Ev struct {
	Scn    int                    `json:"scn"`
	Ev     string                 `json:"ev"` // reset | begin | unregister | register | read | write | garble | deliver | quiescent
	Q      string                 `json:"q"`
	Ids    []string               `json:"ids"`    // read: ids returned
	Got    []map[string]string    `json:"got"`    // read: the full rows returned
	Before map[string]string      `json:"before"` // write
	After  map[string]string      `json:"after"`
	K      int                    `json:"k"`    // garble: first row of the statement in the undelivered log (1-based)
	N      int                    `json:"n"`    // garble / deliver: how many rows the statement changed (one change event carries them all)
	Bad    bool                   `json:"bad"`  // deliver: the event could not be decoded
	Inv    []string               `json:"inv"`  // deliver: queries whose dependency was invalidated
	Held   map[string][]map[string]string `json:"held"` // quiescent: the full rows every query holds
	Filter map[string]map[string]sqlzoo.FVal `json:"filter"` // reset: the filters of the scenario's queries
	Rows   []map[string]string    `json:"rows"`   // reset: initial table
}

var noRow = map[string]string{"id": "NONE"}

type query struct {
	name    string
	filter  sqlgen.Filter
	abs     map[string]sqlzoo.FVal
	where   string // the WHERE text of its SELECT, to recognise its statement
	rr      *reactive.Rerunner
	gate    chan struct{}
	parked  string // "" | "g1" | "g2"
	running bool
	held    []map[string]string
	runs    int
	failed  string
}

type pending struct {
	evs   []*replication.BinlogEvent
	bad   bool
	nrows int
}

type scenario struct {
	mu      sync.Mutex
	cond    *sync.Cond
	scn     int
	log     []Ev
	queries []*query
	byRes   map[interface{}]*query
	byRR    map[interface{}]*query
	pend    []pending
	inv     []string
	procN   int
	delivering int // rows of the statement whose change event is being delivered
	dropN   int
	fdb     *fakesql.DB
	tids    map[string]uint64
}

func (s *scenario) emit(e Ev) {
	e.Scn = s.scn
	if e.Ids == nil {
		e.Ids = []string{}
	}
	if e.Inv == nil {
		e.Inv = []string{}
	}
	if e.Before == nil {
		e.Before = noRow
	}
	if e.After == nil {
		e.After = noRow
	}
	if e.Held == nil {
		e.Held = map[string][]map[string]string{}
	}
	if e.Got == nil {
		e.Got = []map[string]string{}
	}
	if e.Filter == nil {
		e.Filter = map[string]map[string]sqlzoo.FVal{}
	}
	if e.Rows == nil {
		e.Rows = []map[string]string{}
	}
	s.log = append(s.log, e)
}

// park blocks the calling query goroutine at a gate until the driver releases it.
func (s *scenario) park(q *query, g string) {
	s.mu.Lock()
	q.parked = g
	s.cond.Broadcast()
	s.mu.Unlock()
	<-q.gate
}

func (s *scenario) release(q *query) {
	s.mu.Lock()
	q.parked = ""
	s.mu.Unlock()
	q.gate <- struct{}{}
}

// waitFor blocks until cond() holds (checked under the lock) or the timeout passes.
func (s *scenario) waitFor(what string, cond func() bool) error {
	deadline := time.Now().Add(10 * time.Second)
	s.mu.Lock()
	defer s.mu.Unlock()
	for !cond() {
		if time.Now().After(deadline) {
			return fmt.Errorf("timeout waiting for %s", what)
		}
		// cond.Wait has no timeout: poll
		s.mu.Unlock()
		time.Sleep(200 * time.Microsecond)
		s.mu.Lock()
	}
	return nil
}

func whereOf(sql string) string {
	i := strings.Index(sql, " WHERE ")
	if i < 0 {
		return ""
	}
	return sql[i+7:]
}

type errLogger struct{ s *scenario }

func (l errLogger) Error(msg string, kv ...interface{}) {
	if strings.Contains(msg, "failed to parse rows event") {
		l.s.mu.Lock()
		l.s.dropN++
		l.s.mu.Unlock()
	}
}
func (l errLogger) Info(string, ...interface{})  {}
func (l errLogger) Debug(string, ...interface{}) {}
func (l errLogger) Warn(string, ...interface{})  {}

// toBinlog turns the row changes of ONE statement (all of one kind) into a table map event (when the table's id
// changed) and one rows event carrying every changed row, as MySQL does.
func toBinlog(def fakesql.TableDef, database string, evs []fakesql.Event, tids map[string]uint64) []*replication.BinlogEvent {
	e := evs[0]
	var out []*replication.BinlogEvent
	tm := &replication.TableMapEvent{TableID: e.TableID, Schema: []byte(database), Table: []byte(e.Table)}
	if tids[e.Table] != e.TableID {
		tids[e.Table] = e.TableID
		out = append(out, &replication.BinlogEvent{Header: &replication.EventHeader{EventType: replication.TABLE_MAP_EVENT}, Event: tm})
	}
	re := &replication.RowsEvent{Table: tm, TableID: e.TableID}
	var typ replication.EventType
	switch e.Kind {
	case "insert":
		typ = replication.WRITE_ROWS_EVENTv2
		for _, x := range evs {
			re.Rows = append(re.Rows, fakesql.BinlogRow(def, x.After))
		}
	case "update":
		typ = replication.UPDATE_ROWS_EVENTv2
		for _, x := range evs {
			re.Rows = append(re.Rows, fakesql.BinlogRow(def, x.Before), fakesql.BinlogRow(def, x.After))
		}
	default:
		typ = replication.DELETE_ROWS_EVENTv2
		for _, x := range evs {
			re.Rows = append(re.Rows, fakesql.BinlogRow(def, x.Before))
		}
	}
	out = append(out, &replication.BinlogEvent{Header: &replication.EventHeader{EventType: typ}, Event: re})
	return out
}

// absRow is sqlzoo.Abs of a stored row of a table that may have columns the struct does not (legacy, extra).
func absRow(def fakesql.TableDef, r []driver.Value) map[string]string {
	if r == nil {
		return noRow
	}
	base := make([]driver.Value, len(sqlzoo.Def.Cols))
	for i, c := range sqlzoo.Def.Cols {
		for j, dc := range def.Cols {
			if dc.Name == c.Name {
				base[i] = r[j]
			}
		}
	}
	return sqlzoo.Abs(base)
}

// defWithLegacy is the zoo's table with one more column the struct knows nothing about, in front of the last
// column (whose values a text column's values could pass for).
func defWithLegacy() fakesql.TableDef {
	d := sqlzoo.Def
	k := len(d.Cols) - 1
	cols := append([]fakesql.ColDef{}, d.Cols[:k]...)
	cols = append(cols, fakesql.ColDef{Name: "legacy", Type: fakesql.Text, Nullable: true})
	d.Cols = append(cols, sqlzoo.Def.Cols[k:]...)
	return d
}

func runScenario(r *rand.Rand, scn int, nq, nwrites int, garble bool) ([]Ev, error) {
	s := &scenario{scn: scn, byRes: map[interface{}]*query{}, byRR: map[interface{}]*query{}, tids: map[string]uint64{}}
	s.cond = sync.NewCond(&s.mu)
	// half of the scenarios start with a table that has a legacy column in front of its last column (dropped later, maybe)
	legacy := r.Intn(2) == 0
	tdef := sqlzoo.Def
	if legacy {
		tdef = defWithLegacy()
	}
	dropDirected := legacy && scn%3 == 1
	fdb := fakesql.New("zoo", tdef)
	s.fdb = fdb
	conn := fdb.Open()
	db := sqlgen.NewDB(conn, sqlzoo.Schema())
	ldb := livesql.NewLiveDB(db)
	// initial rows
	nrows := 2 + r.Intn(5)
	for id := 1; id <= nrows; id++ {
		if _, err := db.InsertRow(context.Background(), sqlzoo.RandomUser(r, int64(id))); err != nil {
			return nil, err
		}
	}
	reset := Ev{Ev: "reset", Filter: map[string]map[string]sqlzoo.FVal{}}
	for _, row := range fdb.Snapshot(sqlzoo.Table) {
		reset.Rows = append(reset.Rows, absRow(tdef, row))
	}
	// queries with distinct filters
	seen := map[string]bool{}
	for len(s.queries) < nq {
		f, a := sqlzoo.RandomFilter(r, []string{"id", "org", "name", "age", "nick", "kind", "small", "note", "blob"})
		if len(s.queries) == 0 && dropDirected {
			// directed (legacy table): a live query on the last column's value 'k'; the first write inserts such a row,
			// the column in front of it is dropped while that change event is still on its way
			fv := sqlzoo.FVal{Rep: "bytes", V: "k"}
			f, a = sqlgen.Filter{"blob": sqlzoo.Go("blob", fv)}, map[string]sqlzoo.FVal{"blob": fv}
		} else if len(s.queries) == 0 && scn%2 == 0 {
			// directed: a query that only the last row can match, so that a statement changing several rows
			// reaches it through the last row images of its rows event alone
			fv := sqlzoo.FVal{Rep: "int64", V: fmt.Sprint(nrows)}
			f, a = sqlgen.Filter{"id": sqlzoo.Go("id", fv)}, map[string]sqlzoo.FVal{"id": fv}
		}
		bq, err := db.Schema.MakeSelect(&[]*sqlzoo.User{}, f, nil)
		if err != nil {
			return nil, err
		}
		sq, err := bq.MakeSelectQuery()
		if err != nil {
			return nil, err
		}
		text, args := sq.ToSQL()
		key := whereOf(text) + fmt.Sprint(args)
		if seen[key] {
			continue
		}
		seen[key] = true
		q := &query{name: fmt.Sprintf("q%d", len(s.queries)+1), filter: f, abs: a, where: key, gate: make(chan struct{})}
		s.queries = append(s.queries, q)
		reset.Filter[q.name] = a
	}
	s.emit(reset)
	byWhere := func(sql string, args []driver.Value) *query {
		k := whereOf(sql) + fmt.Sprint(argsToIface(args))
		for _, q := range s.queries {
			if q.where == k {
				return q
			}
		}
		return nil
	}
	// ---- hooks
	livesql.VerifHook = func(point string, args ...interface{}) {
		switch point {
		case "dep.new":
			f := args[2].(sqlgen.Filter)
			var q *query
			for _, c := range s.queries {
				if fmt.Sprint(c.filter) == fmt.Sprint(f) {
					q = c
				}
			}
			if q == nil {
				return
			}
			s.mu.Lock()
			s.byRes[args[0]] = q
			s.mu.Unlock()
			s.park(q, "g1")
		case "dep.added":
			s.mu.Lock()
			if q := s.byRes[args[0]]; q != nil {
				s.emit(Ev{Ev: "register", Q: q.name})
			}
			s.mu.Unlock()
		case "dep.removed":
			s.mu.Lock()
			if q := s.byRes[args[0]]; q != nil {
				s.emit(Ev{Ev: "unregister", Q: q.name})
				delete(s.byRes, args[0])
			}
			s.mu.Unlock()
		case "binlog.invalidate":
			s.mu.Lock()
			if q := s.byRes[args[0]]; q != nil {
				s.inv = append(s.inv, q.name)
			}
			s.mu.Unlock()
		case "binlog.processed":
			s.mu.Lock()
			sort.Strings(s.inv)
			s.emit(Ev{Ev: "deliver", Bad: args[1] != nil && args[1].(error) != nil, Inv: s.inv, N: s.delivering})
			s.inv = nil
			s.procN++
			s.mu.Unlock()
		}
	}
	reactive.VerifHook = func(point string, args ...interface{}) {
		switch point {
		case "run.locked":
			s.mu.Lock()
			if q := s.byRR[args[0]]; q != nil {
				if stop, _ := args[1].(bool); !stop {
					q.running = true
					q.runs++
					s.emit(Ev{Ev: "begin", Q: q.name})
				}
			}
			s.mu.Unlock()
		case "run.done":
			s.mu.Lock()
			if q := s.byRR[args[0]]; q != nil {
				q.running = false
				if len(args) > 1 && args[1] != nil {
					if err, ok := args[1].(error); ok && err != nil {
						q.failed = err.Error()
					}
				}
			}
			s.mu.Unlock()
		}
	}
	// the second gate: between the dependency registration and the SELECT, before the driver's lock is taken
	fdb.BeforeQuery = func(sql string, args []driver.Value) {
		if !strings.HasPrefix(sql, "SELECT id,") {
			return
		}
		if q := byWhere(sql, args); q != nil {
			s.mu.Lock()
			live := q.running
			s.mu.Unlock()
			if live {
				s.park(q, "g2")
			}
		}
	}
	fdb.OnStmt = func(st fakesql.Stmt) {
		if st.Kind != "select" {
			return
		}
		if q := byWhere(st.SQL, st.Args); q != nil {
			ids := []string{}
			got := []map[string]string{}
			for _, row := range st.Hit {
				a := absRow(st.Def, row)
				ids = append(ids, a["id"])
				got = append(got, a)
			}
			sort.Strings(ids)
			s.mu.Lock()
			s.emit(Ev{Ev: "read", Q: q.name, Ids: ids, Got: got})
			s.mu.Unlock()
		}
	}
	fdb.OnApply = func(evs []fakesql.Event) {
		s.mu.Lock()
		for _, e := range evs {
			s.emit(Ev{Ev: "write", Before: absRow(e.Def, e.Before), After: absRow(e.Def, e.After)})
		}
		// the driver only issues statements whose row changes are all of one kind
		s.pend = append(s.pend, pending{evs: toBinlog(evs[0].Def, "zoo", evs, s.tids), nrows: len(evs)})
		s.mu.Unlock()
	}
	defer func() {
		livesql.VerifHook, reactive.VerifHook = nil, nil
	}()
	binlog, ch, ech := livesql.VerifNewBinlog(ldb, "zoo")
	binlog.SetLogger(errLogger{s})
	loopDone := make(chan error, 1)
	go func() { loopDone <- binlog.RunPollLoop() }()
	// ---- the live queries
	ctx, cancel := context.WithCancel(context.Background())
	for _, q := range s.queries {
		q := q
		fn := func(ctx context.Context) (interface{}, error) {
			var us []*sqlzoo.User
			fc := sqlgen.Filter{}
			for k, v := range q.filter {
				fc[k] = v
			}
			if err := ldb.Query(ctx, &us, fc, nil); err != nil {
				return nil, err
			}
			rows := []map[string]string{}
			for _, u := range us {
				rows = append(rows, sqlzoo.AbsUser(u))
			}
			s.mu.Lock()
			q.held = rows
			s.mu.Unlock()
			return nil, nil
		}
		s.mu.Lock()
		rr := reactive.NewRerunner(ctx, fn, 0, false)
		q.rr = rr
		s.byRR[rr] = q
		s.mu.Unlock()
	}
	// ---- the schedule
	ids := []int64{}
	for id := 1; id <= nrows; id++ {
		ids = append(ids, int64(id))
	}
	nextID := int64(nrows + 1)
	writesLeft := nwrites
	garblesLeft := 0
	if garble {
		garblesLeft = 1
	}
	altersLeft := 0
	if r.Intn(4) == 0 || dropDirected {
		altersLeft = 1
	}
	var script []string
	if dropDirected {
		script = []string{"write", "alter"}
	}
	quiet := func() bool { // under s.mu
		for _, q := range s.queries {
			if q.running || q.parked != "" || q.runs == 0 {
				return false
			}
		}
		return true
	}
	fail := func(err error) ([]Ev, error) {
		cancel()
		ech <- fmt.Errorf("done")
		return nil, err
	}
	for step := 0; step < 400; step++ {
		// let every query that can move reach a gate or finish
		if err := s.waitFor("queries to park or finish", func() bool {
			for _, q := range s.queries {
				if q.runs == 0 || (q.running && q.parked == "") {
					return false
				}
			}
			return true
		}); err != nil {
			return fail(err)
		}
		s.mu.Lock()
		var parked []*query
		for _, q := range s.queries {
			if q.parked != "" {
				parked = append(parked, q)
			}
		}
		npend := len(s.pend)
		s.mu.Unlock()
		var acts []string
		for range parked {
			acts = append(acts, "release")
		}
		if writesLeft > 0 {
			acts = append(acts, "write", "write")
			if altersLeft > 0 {
				acts = append(acts, "alter")
			}
		}
		if npend > 0 {
			acts = append(acts, "deliver", "deliver")
			if garblesLeft > 0 {
				acts = append(acts, "garble")
			}
		}
		if len(acts) == 0 {
			// nothing to do right now: a query invalidated by the last delivery re-runs on its own goroutine a
			// moment later. Only when nothing has moved for a while is the scenario over.
			moved := false
			for i := 0; i < 40 && !moved; i++ {
				time.Sleep(500 * time.Microsecond)
				s.mu.Lock()
				for _, q := range s.queries {
					if q.parked != "" || q.running {
						moved = true
					}
				}
				s.mu.Unlock()
			}
			if moved {
				continue
			}
			break
		}
		act := acts[r.Intn(len(acts))]
		if len(script) > 0 {
			// the directed opening comes first: let the queries finish their first run, then the scripted steps
			if len(parked) > 0 {
				act = "release"
			} else {
				act, script = script[0], script[1:]
			}
		}
		switch act {
		case "release":
			q := parked[r.Intn(len(parked))]
			s.release(q)
			if err := s.waitFor("released query to park again or finish", func() bool { return q.parked != "" || !q.running }); err != nil {
				return fail(err)
			}
		case "write":
			writesLeft--
			var err error
			k := r.Intn(6)
			if dropDirected && len(script) == 1 {
				k = 0 // the scripted first write: an insert ...
			}
			if scn%2 == 0 && r.Intn(2) == 0 && !(dropDirected && len(script) == 1) {
				k = 5 // the directed scenarios lean towards statements that change several rows
			}
			switch {
			case k >= 4 && len(ids) > 1:
				// one statement changing several rows: MySQL puts them into a single rows event
				_, err = conn.ExecContext(context.Background(), "UPDATE users SET small = ? WHERE org = ?", int64(r.Intn(2)), int64(1+r.Intn(2)))
			case k == 0 || len(ids) == 0:
				u := sqlzoo.RandomUser(r, nextID)
				if dropDirected && len(script) == 1 {
					u.Blob = []byte("k") // ... of a row the directed query has to show
				}
				ids = append(ids, nextID)
				nextID++
				_, err = db.InsertRow(context.Background(), u)
			case k == 1:
				i := r.Intn(len(ids))
				err = db.DeleteRow(context.Background(), &sqlzoo.User{Id: ids[i]})
				ids = append(ids[:i], ids[i+1:]...)
			case k == 2:
				err = db.UpdateRow(context.Background(), sqlzoo.RandomUser(r, ids[r.Intn(len(ids))]))
			default:
				_, err = db.UpsertRow(context.Background(), sqlzoo.RandomUser(r, ids[r.Intn(len(ids))]))
			}
			if err != nil {
				return fail(err)
			}
		case "alter":
			// ALTER TABLE ... ADD COLUMN: the table gets a new id; change events committed before it still have
			// the old column count and may or may not be decodable depending on what the binlog has cached
			altersLeft--
			if legacy {
				// ALTER TABLE ... DROP COLUMN of a column in front of others: change events committed before it carry
				// one value more per row than the table has columns now
				fdb.AlterDropColumn(sqlzoo.Table, "legacy")
			} else {
				fdb.AlterAddColumn(sqlzoo.Table, fakesql.ColDef{Name: "extra", Type: fakesql.Int, Nullable: true})
			}
			s.mu.Lock()
			s.emit(Ev{Ev: "alter"})
			s.mu.Unlock()
		case "garble":
			garblesLeft--
			s.mu.Lock()
			k := r.Intn(len(s.pend))
			p := &s.pend[k]
			if !p.bad {
				p.bad = true
				re := p.evs[len(p.evs)-1].Event.(*replication.RowsEvent)
				// (on the legacy table a row cut by one column IS a row of the table once the column has been dropped:
				// only the other kind of damage is beyond doubt there)
				if r.Intn(2) == 0 && !legacy {
					for i := range re.Rows { // one column fewer than the table has
						re.Rows[i] = re.Rows[i][:len(re.Rows[i])-1]
					}
				} else {
					for i := range re.Rows { // a value of a type the column cannot take
						re.Rows[i][0] = "not-a-number"
					}
				}
				first := 1
				for _, q := range s.pend[:k] {
					first += q.nrows
				}
				s.emit(Ev{Ev: "garble", K: first, N: p.nrows})
			}
			s.mu.Unlock()
		case "deliver":
			s.mu.Lock()
			p := s.pend[0]
			s.pend = s.pend[1:]
			s.delivering = p.nrows
			beforeProc, beforeDrop := s.procN, s.dropN
			s.mu.Unlock()
			for _, e := range p.evs {
				ch <- e
			}
			// either the tracker processes the update, or the poll loop logs a parse failure and moves on
			if err := s.waitFor("the change event to be processed", func() bool { return s.procN > beforeProc || s.dropN > beforeDrop }); err != nil {
				return fail(err)
			}
			dropped := false
			s.mu.Lock()
			if s.procN == beforeProc {
				// a parse failure was logged: does the update still reach the tracker?
				s.mu.Unlock()
				deadline := time.Now().Add(50 * time.Millisecond)
				for time.Now().Before(deadline) {
					s.mu.Lock()
					done := s.procN > beforeProc
					s.mu.Unlock()
					if done {
						break
					}
					time.Sleep(200 * time.Microsecond)
				}
				s.mu.Lock()
				dropped = s.procN == beforeProc
			}
			if dropped {
				s.emit(Ev{Ev: "deliver", Bad: true, Inv: []string{}, N: p.nrows})
			}
			s.mu.Unlock()
			// invalidated queries re-run on their own goroutines: give them the time to get going
			time.Sleep(2 * time.Millisecond)
		}
	}
	// quiescence
	if err := s.waitFor("quiescence", quiet); err != nil {
		return fail(err)
	}
	time.Sleep(3 * time.Millisecond)
	if err := s.waitFor("quiescence", quiet); err != nil {
		return fail(err)
	}
	s.mu.Lock()
	if len(s.pend) > 0 || writesLeft > 0 {
		s.mu.Unlock()
		return fail(fmt.Errorf("schedule ended with %d events undelivered", len(s.pend)))
	}
	held := map[string][]map[string]string{}
	for _, q := range s.queries {
		held[q.name] = append([]map[string]string{}, q.held...)
		if q.failed != "" {
			held[q.name] = []map[string]string{{"id": "FAILED: " + q.failed}}
		}
	}
	s.emit(Ev{Ev: "quiescent", Held: held})
	log := s.log
	s.mu.Unlock()
	cancel()
	for _, q := range s.queries {
		q.rr.Stop()
	}
	ech <- fmt.Errorf("done")
	<-loopDone
	conn.Close()
	return log, nil
}

func argsToIface(a []driver.Value) []interface{} {
	out := make([]interface{}, len(a))
	for i, v := range a {
		out[i] = v
	}
	return out
}

// Main: vh c07 -out trace.ndjson -n 50 -seed 1 [-queries 3] [-writes 5]
func Main(args []string) error {
	fs := flag.NewFlagSet("c07", flag.ContinueOnError)
	out := fs.String("out", "", "")
	n := fs.Int("n", 20, "")
	seed := fs.Int64("seed", 1, "")
	nq := fs.Int("queries", 3, "")
	nw := fs.Int("writes", 5, "")
	if err := fs.Parse(args); err != nil {
		return err
	}
	r := rand.New(rand.NewSource(*seed))
	w, err := tj.NewWriter(*out)
	if err != nil {
		return err
	}
	for i := 1; i <= *n; i++ {
		evs, err := runScenario(r, i, 1+r.Intn(*nq), 1+r.Intn(*nw), r.Intn(3) == 0)
		if err != nil {
			w.Close()
			return fmt.Errorf("scenario %d: %v", i, err)
		}
		for _, e := range evs {
			w.Write(e)
		}
	}
	return w.Close()
}
