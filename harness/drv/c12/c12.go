// Package c12 drives every operation of a shard-limited (or dynamically limited) sqlgen.DB over the
// fake MySQL driver with complying and non-complying filters / rows and records, per operation, what
// was asked, the error returned, every statement that reached the driver (parsed: WHERE in disjunctive
// form, written rows) and the table before and after. SqlLimit_Trace.tla judges each record.
package c12

import (
	"context"
	"database/sql/driver"
	"flag"
	"fmt"
	"math/rand"
	"strings"
	"sync"

	"github.com/samsarahq/thunder/batch"
	"github.com/samsarahq/thunder/sqlgen"

	"verifharness/internal/fakesql"
	"verifharness/internal/sqlzoo"
	tj "verifharness/internal/tagjson"
)

type Pred struct {
	Col  string   `json:"col"`
	Op   string   `json:"op"`
	Vals []string `json:"vals"`
}

type Stmt struct {
	Kind  string              `json:"kind"`
	Where [][]Pred            `json:"where"` // disjuncts of conjunctions; empty = no WHERE
	HasW  bool                `json:"hasw"`
	Rows  []map[string]string `json:"rows"` // written rows (insert / upsert) or the SET values (update)
	InTx  bool                `json:"intx"`
	Err   string              `json:"err"`
	SQL   string              `json:"sql"`
}

type Op struct {
	Kind    string                   `json:"kind"`
	Filters []map[string]sqlzoo.FVal `json:"filters"` // reads: one filter per (concurrent) call
	Rows    []map[string]string      `json:"rows"`    // writes: the rows handed to the call
	Batched bool                     `json:"batched"`
	Where   bool                     `json:"where"` // the read carried SelectOptions.Where "name = ? OR kind = ?"
	Tx      bool                     `json:"tx"`
}

type Rec struct {
	I      int                 `json:"i"`
	Mode   string              `json:"mode"` // shard | dynamic | both
	Limit  map[string]string   `json:"limit"`
	Op     Op                  `json:"op"`
	Errs   []string            `json:"errs"` // one per call ("" = no error)
	Got    [][]string          `json:"got"`  // reads: ids returned per call
	Stmts  []Stmt              `json:"stmts"`
	Before []map[string]string `json:"before"`
	After  []map[string]string `json:"after"`
}

func sv(v driver.Value) string {
	if v == nil {
		return "NULL"
	}
	if b, ok := v.([]byte); ok {
		return string(b)
	}
	if b, ok := v.(bool); ok {
		if b {
			return "1"
		}
		return "0"
	}
	return fmt.Sprint(v)
}

func absStmt(s fakesql.Stmt) Stmt {
	o := Stmt{Kind: s.Kind, Where: [][]Pred{}, Rows: []map[string]string{}, InTx: s.InTx, Err: s.Err, SQL: s.SQL}
	if s.Where != nil {
		o.HasW = true
		for _, d := range s.Where.Disjuncts() {
			conj := []Pred{}
			for _, p := range d.Preds() {
				pr := Pred{Col: p.Col, Op: p.Op, Vals: []string{}}
				for _, v := range p.Vals {
					pr.Vals = append(pr.Vals, sv(v))
				}
				conj = append(conj, pr)
			}
			o.Where = append(o.Where, conj)
		}
	}
	for _, r := range s.Rows {
		m := map[string]string{}
		for i, c := range s.Cols {
			m[c] = sv(r[i])
		}
		o.Rows = append(o.Rows, m)
	}
	return o
}

func snapshot(fdb *fakesql.DB) []map[string]string {
	out := []map[string]string{}
	for _, r := range fdb.Snapshot(sqlzoo.Table) {
		out = append(out, sqlzoo.Abs(r))
	}
	return out
}

// limitFilter draws a filter that complies with the limit or breaks it in one of the ways a caller can.
func limitFilter(r *rand.Rand, limitOrg int64) (sqlgen.Filter, map[string]sqlzoo.FVal) {
	f, a := sqlzoo.RandomFilter(r, []string{"id", "name", "age", "kind", "small"}) // columns sorting before and after the limit's
	switch r.Intn(8) {
	case 0: // no filter on the limit column
	case 1: // the other shard
		a["org"] = sqlzoo.FVal{V: fmt.Sprint(3 - limitOrg), Rep: "int64"}
	case 2: // the right value in another Go type
		a["org"] = sqlzoo.FVal{V: fmt.Sprint(limitOrg), Rep: []string{"int", "ptr", "uint8"}[r.Intn(3)]}
	default:
		a["org"] = sqlzoo.FVal{V: fmt.Sprint(limitOrg), Rep: "int64"}
	}
	if fv, ok := a["org"]; ok {
		f["org"] = sqlzoo.Go("org", fv)
	}
	return f, a
}

func randomRow(r *rand.Rand, limitOrg int64, ids []int64) *sqlzoo.User {
	id := int64(1 + r.Intn(8))
	if len(ids) > 0 && r.Intn(2) == 0 {
		id = ids[r.Intn(len(ids))]
	}
	u := sqlzoo.RandomUser(r, id)
	if r.Intn(4) != 0 {
		u.Org = limitOrg
	}
	return u
}

// Main: vh c12 -out recs.ndjson -n 400 -seed 1
func Main(args []string) error {
	fs := flag.NewFlagSet("c12", flag.ContinueOnError)
	out := fs.String("out", "", "")
	n := fs.Int("n", 300, "")
	seed := fs.Int64("seed", 1, "")
	if err := fs.Parse(args); err != nil {
		return err
	}
	r := rand.New(rand.NewSource(*seed))
	w, err := tj.NewWriter(*out)
	if err != nil {
		return err
	}
	kinds := []string{"query", "query", "queryrow", "count", "insert", "insertrows", "upsert", "upsertrows", "update", "delete"}
	for i := 1; i <= *n; i++ {
		fdb := fakesql.New("zoo", sqlzoo.Def)
		conn := fdb.Open()
		base := sqlgen.NewDB(conn, sqlzoo.Schema())
		var ids []int64
		for id := int64(1); id <= int64(2+r.Intn(5)); id++ {
			if _, err := base.InsertRow(context.Background(), sqlzoo.RandomUser(r, id)); err != nil {
				return err
			}
			ids = append(ids, id)
		}
		limitOrg := int64(1 + r.Intn(2))
		rec := Rec{I: i, Limit: map[string]string{"org": fmt.Sprint(limitOrg)}, Errs: []string{}, Got: [][]string{}, Stmts: []Stmt{}}
		limit := sqlgen.Filter{"org": limitOrg}
		db := base
		switch r.Intn(4) {
		case 3:
			// a shard limit plus a dynamic limit whose callback only logs (returns true): the shard limit
			// still has to confine every statement
			rec.Mode = "shard+permissive-dynamic"
			d1, _ := base.WithShardLimit(limit)
			other := sqlgen.Filter{"kind": sqlzoo.Kind(9)}
			db, _ = d1.WithDynamicLimit(sqlgen.DynamicLimit{
				GetLimitFilter: func(context.Context, string) sqlgen.Filter {
					if r.Intn(2) == 0 {
						return limit
					}
					return other
				},
				ShouldContinueOnError: func(error, string) bool { return true },
			})
		case 0:
			rec.Mode = "shard"
			db, _ = base.WithShardLimit(limit)
		case 1:
			rec.Mode = "dynamic"
			db, _ = base.WithDynamicLimit(sqlgen.DynamicLimit{
				GetLimitFilter:        func(context.Context, string) sqlgen.Filter { return limit },
				ShouldContinueOnError: func(error, string) bool { return false },
			})
		default:
			rec.Mode = "both"
			d1, _ := base.WithShardLimit(limit)
			db, _ = d1.WithDynamicLimit(sqlgen.DynamicLimit{
				GetLimitFilter:        func(context.Context, string) sqlgen.Filter { return limit },
				ShouldContinueOnError: func(error, string) bool { return false },
			})
		}
		op := Op{Kind: kinds[r.Intn(len(kinds))], Filters: []map[string]sqlzoo.FVal{}, Rows: []map[string]string{}}
		ctx := context.Background()
		op.Tx = r.Intn(4) == 0
		rec.Before = snapshot(fdb)
		fdb.ResetLog()
		var commit func() error
		if op.Tx {
			c2, tx, err := db.WithTx(ctx)
			if err != nil {
				return err
			}
			ctx, commit = c2, tx.Commit
		}
		switch op.Kind {
		case "query", "queryrow", "count":
			ncalls := 1
			if op.Kind != "count" && !op.Tx && r.Intn(2) == 0 {
				op.Batched = true
				ncalls = 2 + r.Intn(3)
				ctx = batch.WithBatching(ctx)
			}
			filters := make([]sqlgen.Filter, ncalls)
			sameCols := op.Batched && r.Intn(2) == 0
			for c := 0; c < ncalls; c++ {
				f, a := limitFilter(r, limitOrg)
				if sameCols && c > 0 {
					// the batch combines filters over the same set of columns into one statement: same columns, other values
					f, a = sqlgen.Filter{}, map[string]sqlzoo.FVal{}
					for col, fv := range op.Filters[0] {
						if col != "org" && fv.Rep != "nil" {
							fv.V = sqlzoo.Domains[col][r.Intn(len(sqlzoo.Domains[col]))]
						}
						a[col] = fv
						f[col] = sqlzoo.Go(col, fv)
					}
				}
				filters[c] = f
				op.Filters = append(op.Filters, a)
			}
			rec.Errs = make([]string, ncalls)
			rec.Got = make([][]string, ncalls)
			// unbatched reads sometimes carry SelectOptions with a hand-written WHERE that has a top-level OR:
			// sqlgen has to keep the limit's restriction around all of it
			useWhere := !op.Batched && op.Kind != "count" && r.Intn(3) == 0
			op.Where = useWhere
			opts := func(c int) *sqlgen.SelectOptions {
				if !useWhere {
					return nil
				}
				return &sqlgen.SelectOptions{Where: "name = ? OR kind = ?", Values: []interface{}{"a", int64(1)}}
			}
			var wg sync.WaitGroup
			for c := 0; c < ncalls; c++ {
				c := c
				wg.Add(1)
				go func() {
					defer wg.Done()
					rec.Got[c] = []string{}
					switch op.Kind {
					case "query":
						var us []*sqlzoo.User
						if err := db.Query(ctx, &us, filters[c], opts(c)); err != nil {
							rec.Errs[c] = err.Error()
							return
						}
						rec.Got[c] = sqlzoo.Ids(us)
					case "queryrow":
						var u *sqlzoo.User
						if err := db.QueryRow(ctx, &u, filters[c], opts(c)); err != nil {
							rec.Errs[c] = err.Error()
							return
						}
						rec.Got[c] = sqlzoo.Ids([]*sqlzoo.User{u})
					default:
						n, err := db.Count(ctx, &sqlzoo.User{}, filters[c])
						if err != nil {
							rec.Errs[c] = err.Error()
							return
						}
						rec.Got[c] = []string{fmt.Sprint("count=", n)}
					}
				}()
			}
			wg.Wait()
		default:
			nrows := 1
			if op.Kind == "insertrows" || op.Kind == "upsertrows" {
				nrows = 1 + r.Intn(3)
			}
			var us []*sqlzoo.User
			seen := map[int64]bool{}
			for len(us) < nrows {
				u := randomRow(r, limitOrg, ids)
				if (op.Kind == "insert" || op.Kind == "insertrows") && r.Intn(3) != 0 {
					u.Id = int64(20 + r.Intn(10)) // mostly fresh ids for inserts
				}
				if seen[u.Id] {
					continue
				}
				seen[u.Id] = true
				us = append(us, u)
				op.Rows = append(op.Rows, sqlzoo.AbsUser(u))
			}
			var err error
			switch op.Kind {
			case "insert":
				_, err = db.InsertRow(ctx, us[0])
			case "insertrows":
				err = db.InsertRows(ctx, us, 2)
			case "upsert":
				_, err = db.UpsertRow(ctx, us[0])
			case "upsertrows":
				err = db.UpsertRows(ctx, us, 2)
			case "update":
				err = db.UpdateRow(ctx, us[0])
			case "delete":
				err = db.DeleteRow(ctx, us[0])
			}
			e := ""
			if err != nil {
				e = err.Error()
			}
			rec.Errs = []string{e}
		}
		if commit != nil {
			if err := commit(); err != nil {
				return err
			}
		}
		for _, s := range fdb.Log() {
			if s.Kind == "begin" || s.Kind == "commit" || s.Kind == "rollback" {
				continue
			}
			rec.Stmts = append(rec.Stmts, absStmt(s))
		}
		rec.After = snapshot(fdb)
		rec.Op = op
		for k, e := range rec.Errs {
			switch {
			case e == "":
			case strings.Contains(e, "check failed for db with"):
				rec.Errs[k] = "limit"
			default:
				rec.Errs[k] = "other: " + e
			}
		}
		conn.Close()
		w.Write(rec)
	}
	return w.Close()
}
